//! Signature-only stand-in for the `tokio::io` items indicatif's `tokio` feature uses.
//! Trait and method signatures are those of tokio 1.x; nothing else is provided.
pub mod io {
    use std::io;
    use std::pin::Pin;
    use std::task::{Context, Poll};

    pub use std::io::SeekFrom;

    /// Minimal ReadBuf: a byte slice with a filled prefix.
    pub struct ReadBuf<'a> {
        buf: &'a mut [u8],
        filled: usize,
    }
    impl<'a> ReadBuf<'a> {
        pub fn new(buf: &'a mut [u8]) -> ReadBuf<'a> {
            ReadBuf { buf, filled: 0 }
        }
        pub fn filled(&self) -> &[u8] {
            &self.buf[..self.filled]
        }
        pub fn remaining(&self) -> usize {
            self.buf.len() - self.filled
        }
        pub fn put_slice(&mut self, s: &[u8]) {
            self.buf[self.filled..self.filled + s.len()].copy_from_slice(s);
            self.filled += s.len();
        }
    }

    pub trait AsyncRead {
        fn poll_read(self: Pin<&mut Self>, cx: &mut Context<'_>, buf: &mut ReadBuf<'_>) -> Poll<io::Result<()>>;
    }
    pub trait AsyncWrite {
        fn poll_write(self: Pin<&mut Self>, cx: &mut Context<'_>, buf: &[u8]) -> Poll<Result<usize, io::Error>>;
        fn poll_flush(self: Pin<&mut Self>, cx: &mut Context<'_>) -> Poll<Result<(), io::Error>>;
        fn poll_shutdown(self: Pin<&mut Self>, cx: &mut Context<'_>) -> Poll<Result<(), io::Error>>;
    }
    pub trait AsyncSeek {
        fn start_seek(self: Pin<&mut Self>, position: SeekFrom) -> io::Result<()>;
        fn poll_complete(self: Pin<&mut Self>, cx: &mut Context<'_>) -> Poll<io::Result<u64>>;
    }
    pub trait AsyncBufRead: AsyncRead {
        fn poll_fill_buf(self: Pin<&mut Self>, cx: &mut Context<'_>) -> Poll<io::Result<&[u8]>>;
        fn consume(self: Pin<&mut Self>, amt: usize);
    }
}
