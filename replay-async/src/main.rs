//! C17 witnesses for the tokio adaptors of indicatif, run on the REAL indicatif code compiled
//! against a signature-only stand-in for tokio::io (the tokio crate is not available offline).
use indicatif::{ProgressBar, ProgressDrawTarget};
use std::io;
use std::pin::Pin;
use std::task::{Context, Poll, RawWaker, RawWakerVTable, Waker};
use tokio::io::{AsyncBufRead, AsyncRead, AsyncSeek, ReadBuf, SeekFrom};

fn noop_waker() -> Waker {
    fn clone(_: *const ()) -> RawWaker { RawWaker::new(std::ptr::null(), &VT) }
    fn noop(_: *const ()) {}
    static VT: RawWakerVTable = RawWakerVTable::new(clone, noop, noop, noop);
    unsafe { Waker::from_raw(RawWaker::new(std::ptr::null(), &VT)) }
}

/// An in-memory async reader with an internal buffer of everything not yet consumed.
struct Mem { data: Vec<u8>, pos: usize }
impl AsyncRead for Mem {
    fn poll_read(mut self: Pin<&mut Self>, _cx: &mut Context<'_>, buf: &mut ReadBuf<'_>) -> Poll<io::Result<()>> {
        let n = buf.remaining().min(self.data.len() - self.pos);
        let p = self.pos;
        buf.put_slice(&self.data[p..p + n]);
        self.pos += n;
        Poll::Ready(Ok(()))
    }
}
impl AsyncBufRead for Mem {
    fn poll_fill_buf(self: Pin<&mut Self>, _cx: &mut Context<'_>) -> Poll<io::Result<&[u8]>> {
        let this = self.get_mut();
        Poll::Ready(Ok(&this.data[this.pos..]))
    }
    fn consume(mut self: Pin<&mut Self>, amt: usize) { self.pos += amt; }
}
impl AsyncSeek for Mem {
    fn start_seek(mut self: Pin<&mut Self>, position: SeekFrom) -> io::Result<()> {
        if let SeekFrom::Start(p) = position { self.pos = p as usize; }
        Ok(())
    }
    fn poll_complete(self: Pin<&mut Self>, _cx: &mut Context<'_>) -> Poll<io::Result<u64>> { Poll::Ready(Ok(self.pos as u64)) }
}

fn main() {
    let routine = std::env::args().nth(1).unwrap_or_default();
    let waker = noop_waker();
    let mut cx = Context::from_waker(&waker);
    let pb = ProgressBar::with_draw_target(Some(100), ProgressDrawTarget::hidden());
    let mut r = pb.wrap_async_read(Mem { data: vec![7u8; 100], pos: 0 });
    let out = match routine.as_str() {
        "async_fill_buf" => {
            // two polls of the buffer, 10 bytes consumed: 10 bytes were transferred
            let _ = Pin::new(&mut r).poll_fill_buf(&mut cx);
            let _ = Pin::new(&mut r).poll_fill_buf(&mut cx);
            let after_polls = pb.position();
            Pin::new(&mut r).consume(10);
            let after_consume = pb.position();
            format!("{{\"found\": {}, \"clause\": \"C17 the position advances by exactly the bytes transferred (AsyncBufRead: consumed)\", \"input\": {{\"history\": \"poll_fill_buf; poll_fill_buf; consume(10) on a 100-byte buffered reader\", \"position_after_two_polls\": {}, \"position_after_consume_10\": {}, \"expected\": 10}}, \"rerun\": \"replay-async async_fill_buf\"}}",
                after_consume != 10, after_polls, after_consume)
        }
        "async_seek" => {
            let _ = Pin::new(&mut r).start_seek(SeekFrom::Start(40));
            let res = Pin::new(&mut r).poll_complete(&mut cx);
            let p = pb.position();
            format!("{{\"found\": {}, \"clause\": \"C17 a seek sets the position to the new offset (AsyncSeek)\", \"input\": {{\"history\": \"start_seek(Start(40)); poll_complete\", \"poll_complete\": \"{:?}\", \"position\": {}, \"expected\": 40}}, \"rerun\": \"replay-async async_seek\"}}",
                p != 40, res.map(|x| x.ok()), p)
        }
        _ => "{\"found\": false, \"error\": \"unknown routine\"}".to_string(),
    };
    println!("{}", out);
}
