"""MultiState (src/multi.rs): slot bookkeeping and visual order (C02), frame composition (C02),
row accounting of zombies and printed lines (C03, C04), error paths (C18)."""
import copy
import re
from vlib.unit import Unit, Fn, Decl, Raw, Lemma, Rw, RwFn, ImplBlock, r3_index_loops
from specs import contracts as K
from specs import draw_to_term as D
from specs import bar_draw as B

# ---- the draw-target layer, verified in bar_draw, enters here through its contracts (stubs)
_MARK = [i for i, it in enumerate(B.UNIT.items) if isinstance(it, Decl) and it.name == "AtomicPosition"][0]
TARGET_ITEMS = []
for _it in B.UNIT.items[:_MARK]:
    if isinstance(_it, Fn) and not _it.stub:
        _c = copy.copy(_it)
        _c.stub = True
        TARGET_ITEMS.append(_c)
    else:
        TARGET_ITEMS.append(_it)
for _it in B.UNIT.items[_MARK:]:
    if isinstance(_it, Fn) and _it.container == "ProgressDrawTarget" and _it.name in ("width", "is_hidden", "disconnect", "set_move_cursor"):
        _c = copy.copy(_it)
        _c.stub = True
        TARGET_ITEMS.append(_c)

MS_SPEC = r"""
// #[derive(Default)] on MultiStateMember (R11)
impl MultiStateMember {
    fn default() -> (r: Self) ensures r.draw_state is None && !r.is_zombie { MultiStateMember { draw_state: None, is_zombie: false } }
}
spec fn member_is_default(m: MultiStateMember) -> bool { m.draw_state is None && !m.is_zombie }
spec fn no_dup(s: Seq<usize>) -> bool { forall|i: int, j: int| 0 <= i < j < s.len() ==> s[i] != s[j] }
impl MultiState {
    // representation invariant of the slot bookkeeping
    spec fn wf(&self) -> bool {
        &&& no_dup(self.ordering@) && no_dup(self.free_set@)
        &&& forall|i: int| 0 <= i < self.ordering@.len() ==> (#[trigger] self.ordering@[i]) < self.members@.len() && !self.free_set@.contains(self.ordering@[i])
        &&& forall|i: int| 0 <= i < self.free_set@.len() ==> (#[trigger] self.free_set@[i]) < self.members@.len() && member_is_default(self.members@[self.free_set@[i] as int])
        &&& self.ordering@.len() + self.free_set@.len() == self.members@.len()
        &&& forall|k: usize| k < self.members@.len() ==> self.ordering@.contains(k) || self.free_set@.contains(k)   // every slot is a member or free
    }
    // the visible order of the member bars (C02)
    spec fn order(&self) -> Seq<usize> { self.ordering@ }
}
// where add / insert / insert_from_back / insert_before / insert_after put the new bar (from their documentation)
spec fn insert_pos(loc: InsertLocation, order: Seq<usize>) -> int {
    match loc {
        InsertLocation::End => order.len() as int,
        InsertLocation::Index(p) => if p <= order.len() { p as int } else { order.len() as int },
        InsertLocation::IndexFromBack(p) => if p <= order.len() { order.len() - p } else { 0 },
        InsertLocation::After(a) => order.index_of(a) + 1,
        InsertLocation::Before(a) => order.index_of(a),
    }
}
// R5: `v.iter().position(|i| *i == x)`
#[verifier::external_body]
fn vec_position(v: &Vec<usize>, x: usize) -> (r: Option<usize>)
    ensures match r { Some(i) => i < v@.len() && v@[i as int] == x && (forall|j: int| 0 <= j < i ==> v@[j] != x), None => !v@.contains(x) }
{ v.iter().position(|i| *i == x) }
// R5: `v.contains(&x)`
#[verifier::external_body]
fn vec_contains(v: &Vec<usize>, x: usize) -> (r: bool) ensures r == v@.contains(x) { v.contains(&x) }
// s without every occurrence of x, order kept (what `retain(|&y| y != x)` leaves)
spec fn without(s: Seq<usize>, x: usize) -> Seq<usize> decreases s.len() {
    if s.len() == 0 { s } else if s.last() == x { without(s.drop_last(), x) } else { without(s.drop_last(), x).push(s.last()) }
}
// R5: `v.retain(|&y| y != x)`
#[verifier::external_body]
fn vec_remove_value(v: &mut Vec<usize>, x: usize)
    ensures final(v)@ == without(old(v)@, x)
{ v.retain(|&y| y != x) }
proof fn lemma_without(s: Seq<usize>, x: usize)
    requires no_dup(s)
    ensures no_dup(without(s, x)),
            forall|y: usize| without(s, x).contains(y) <==> (s.contains(y) && y != x),
            without(s, x).len() == s.len() - (if s.contains(x) { 1int } else { 0int }),
            !s.contains(x) ==> without(s, x) == s
    decreases s.len()
{
    if s.len() > 0 {
        let t = s.drop_last();
        assert(no_dup(t));
        lemma_without(t, x);
        let w = without(t, x);
        assert(s =~= t.push(s.last()));
        assert(forall|y: usize| s.contains(y) <==> (t.contains(y) || y == s.last())) by {
            assert forall|y: usize| s.contains(y) implies (t.contains(y) || y == s.last()) by {
                let i = choose|i: int| 0 <= i < s.len() && s[i] == y;
                if i < t.len() { assert(t[i] == y); }
            }
            assert forall|y: usize| (t.contains(y) || y == s.last()) implies s.contains(y) by {
                if t.contains(y) { let i = choose|i: int| 0 <= i < t.len() && t[i] == y; assert(s[i] == y); } else { assert(s[s.len() - 1] == y); }
            }
        }
        assert(!t.contains(s.last())) by {
            if t.contains(s.last()) { let i = choose|i: int| 0 <= i < t.len() && t[i] == s.last(); assert(s[i] == s[s.len() - 1]); }
        }
        if s.last() == x {
        } else {
            let r = w.push(s.last());
            assert(!w.contains(s.last()));
            assert(no_dup(r)) by {
                assert forall|i: int, j: int| 0 <= i < j < r.len() implies r[i] != r[j] by {
                    if j == r.len() - 1 { assert(w.contains(r[i])); }
                }
            }
            assert forall|y: usize| r.contains(y) <==> (s.contains(y) && y != x) by {
                if r.contains(y) { let i = choose|i: int| 0 <= i < r.len() && r[i] == y; if i < w.len() { assert(w.contains(y)); } }
                if s.contains(y) && y != x { if y == s.last() { assert(r[r.len() - 1] == y); } else { assert(w.contains(y)); let i = choose|i: int| 0 <= i < w.len() && w[i] == y; assert(r[i] == y); } }
            }
            if !s.contains(x) { assert(r =~= s); }
        }
    }
}
proof fn lemma_insert_nodup(s: Seq<usize>, pos: int, x: usize)
    requires no_dup(s), !s.contains(x), 0 <= pos <= s.len()
    ensures no_dup(s.insert(pos, x)), forall|y: usize| s.insert(pos, x).contains(y) <==> (s.contains(y) || y == x), s.insert(pos, x).len() == s.len() + 1
{
    let r = s.insert(pos, x);
    assert forall|i: int, j: int| 0 <= i < j < r.len() implies r[i] != r[j] by {
        let a = if i < pos { s[i] } else if i == pos { x } else { s[i - 1] };
        let b = if j < pos { s[j] } else if j == pos { x } else { s[j - 1] };
        assert(r[i] == a && r[j] == b);
        if i != pos && j != pos { } else if i == pos { assert(s.contains(b)); } else { assert(s.contains(a)); }
    }
    assert forall|y: usize| r.contains(y) <==> (s.contains(y) || y == x) by {
        if r.contains(y) { let i = choose|i: int| 0 <= i < r.len() && r[i] == y; if i < pos { assert(s[i] == y); } else if i > pos { assert(s[i - 1] == y); } }
        if s.contains(y) { let i = choose|i: int| 0 <= i < s.len() && s[i] == y; if i < pos { assert(r[i] == y); } else { assert(r[i + 1] == y); } }
        if y == x { assert(r[pos] == x); }
    }
}
"""

MS_DRAW_SPEC = r"""
// R5: `ds.as_ref().map(|d| d.visual_line_count(.., width)).unwrap_or_default()`
fn opt_line_count(ds: &Option<DrawState>, width: usize) -> (r: VisualLines)
    requires width >= 1, ds matches Some(d) ==> hts(d.lines@, width as nat, d.lines.len() as int) <= usize::MAX
    ensures r.0 as nat == (match *ds { Some(d) => hts(d.lines@, width as nat, d.lines.len() as int), None => 0 })
{
    match ds { Some(d) => visual_line_count(&d.lines, width), None => VisualLines::default() }
}
// R5: `ds.as_ref().zip(width).map(|(d, width)| d.visual_line_count(.., width)).unwrap_or_default()`
fn opt_line_count2(ds: &Option<DrawState>, width: Option<usize>) -> (r: VisualLines)
    requires width matches Some(w) ==> w >= 1 && (ds matches Some(d) ==> hts(d.lines@, w as nat, d.lines.len() as int) <= usize::MAX)
    ensures r.0 as nat == (match (*ds, width) { (Some(d), Some(w)) => hts(d.lines@, w as nat, d.lines.len() as int), _ => 0 })
{
    match (ds, width) { (Some(d), Some(w)) => visual_line_count(&d.lines, w), _ => VisualLines::default() }
}
// R5: `self.width().map(usize::from)`
fn opt_u16_usize(w: Option<u16>) -> (r: Option<usize>)
    ensures match w { Some(v) => r == Some(v as usize), None => r is None }
{ match w { Some(v) => Some(v as usize), None => None } }
// R5: `v.first().copied()`
fn vec_first(v: &Vec<usize>) -> (r: Option<usize>)
    ensures v@.len() == 0 ==> r is None, v@.len() > 0 ==> r == Some(v@[0])
{ if v.len() == 0 { None } else { Some(v[0]) } }
// R5: `msg.is_empty()` / `vec![LineType::Empty]`
#[verifier::external_body]
fn str_is_empty(s: &str) -> (r: bool) ensures r == (s@.len() == 0) { s.is_empty() }
fn one_empty_line() -> (r: Vec<LineType>) ensures r@ == seq![LineType::Empty] { let mut v = Vec::new(); v.push(LineType::Empty); v }
// R5: `member.draw_state.get_or_insert(DrawState::default())`
fn opt_get_or_insert(o: &mut Option<DrawState>, d: DrawState) -> (r: &mut DrawState)
    ensures *r == (match *old(o) { Some(x) => x, None => d }), *final(o) == Some(*final(r))
{
    if o.is_none() { *o = Some(d); }
    match o { Some(x) => x, None => { proof { assert(false); } unreached() } }
}
impl DrawState {
    // #[derive(Default)] (R11)
    fn default() -> (r: Self) ensures r.lines@.len() == 0 && !r.move_cursor && r.alignment is Top
    { DrawState { lines: Vec::new(), move_cursor: false, alignment: MultiProgressAlignment::default() } }
}
// R5: Vec::extend_from_slice (clones the lines)
#[verifier::external_body]
fn extend_cloned(v: &mut Vec<LineType>, src: &Vec<LineType>) ensures final(v)@ == old(v)@ + src@ { unimplemented!() }
"""

MS_ACCT_SPEC = r"""
spec fn mlines(m: MultiStateMember) -> Seq<LineType> { match m.draw_state { Some(d) => d.lines@, None => Seq::<LineType>::empty() } }
// the members' stored renderings in visual order (first k members)
spec fn flat(members: Seq<MultiStateMember>, order: Seq<usize>, k: int) -> Seq<LineType> decreases k {
    if k <= 0 { Seq::<LineType>::empty() } else { flat(members, order, k - 1) + mlines(members[order[k - 1] as int]) }
}
spec fn mheight(m: MultiStateMember, w: nat) -> nat { hts(mlines(m), w, mlines(m).len() as int) }
// rows of the first k members in visual order
spec fn zheight(members: Seq<MultiStateMember>, order: Seq<usize>, w: nat, k: int) -> nat decreases k {
    if k <= 0 { 0 } else { zheight(members, order, w, k - 1) + mheight(members[order[k - 1] as int], w) }
}
// length of the maximal prefix of dropped (zombie) bars in visual order
spec fn zprefix(members: Seq<MultiStateMember>, order: Seq<usize>, k: int) -> int decreases order.len() - k {
    if k >= order.len() { order.len() as int } else if !members[order[k] as int].is_zombie { k } else { zprefix(members, order, k + 1) }
}
// size assumptions (rows counted in 28 bits): NOT proved to be preserved, see trusted list
spec fn ms_small(ms: MultiState, extra: Option<Vec<LineType>>, w: nat) -> bool {
    &&& ms.zombie_lines_count.0 <= 0x0FFF_FFFF
    &&& (ms.draw_target.own() matches Some(x) ==> x.1.0 <= 0x1FFF_FFFF)
    &&& small(ms.orphan_lines@) && (extra matches Some(v) ==> small(v@))
    &&& zheight(ms.members@, ms.ordering@, w, ms.ordering@.len() as int) <= 0x0FFF_FFFF
    &&& forall|i: int| 0 <= i < ms.members@.len() ==> lines_ok(mlines(#[trigger] ms.members@[i]))
}
spec fn only_llc_differs(a: ProgressDrawTarget, b: ProgressDrawTarget) -> bool {
    match (a.kind, b.kind) {
        (TargetKind::Term { term, last_line_count, rate_limiter, draw_state }, TargetKind::Term { term: t2, last_line_count: l2, rate_limiter: r2, draw_state: d2 }) => term == t2 && rate_limiter == r2 && draw_state == d2,
        (TargetKind::TermLike { inner, last_line_count, rate_limiter, draw_state }, TargetKind::TermLike { inner: t2, last_line_count: l2, rate_limiter: r2, draw_state: d2 }) => inner == t2 && rate_limiter == r2 && draw_state == d2,
        _ => a == b,
    }
}
spec fn llc_of(a: ProgressDrawTarget) -> int { match a.own() { Some(x) => x.1.0 as int, None => 0 } }
// the frame a MultiProgress hands to its terminal: printed lines first, then every member once, in visual order (C02)
spec fn ms_frame(ms: MultiState, extra: Option<Vec<LineType>>) -> Seq<LineType> {
    (match extra { Some(v) => v@, None => Seq::<LineType>::empty() }) + ms.orphan_lines@ + flat(ms.members@, ms.ordering@, ms.ordering@.len() as int)
}
spec fn has_text(ms: MultiState, extra: Option<Vec<LineType>>) -> bool { extra is Some || ms.orphan_lines@.len() > 0 }
spec fn extra_seq(extra: Option<Vec<LineType>>) -> Seq<LineType> { match extra { Some(v) => v@, None => Seq::<LineType>::empty() } }

// one call of MultiState::draw on a MultiProgress with its own terminal, by outcome; a1 = the target as
// handed to drawable() (only its row count may differ from the stored one), mid = the target right after the draw
spec fn ms_draw_case(a: MultiState, b: MultiState, force: bool, extra: Option<Vec<LineType>>, now: Instant, r: Result<(), IoError>,
                     a1: ProgressDrawTarget, mid: ProgressDrawTarget, granted: bool) -> bool {
    let z = zprefix(a.members@, a.ordering@, 0);
    &&& only_llc_differs(a.draw_target, a1) && only_llc_differs(mid, b.draw_target) && b.wf() && b.alignment == a.alignment
    &&& (a1.own() matches Some(x1) && (mid.own() matches Some(y) &&
            req_case(a1, mid, force || a.orphan_lines@.len() > 0, now, ms_frame(a, extra), r, granted, x1, y)))   // C02: this frame, C05: orphan text forces the draw
    &&& (granted ==> b.ordering@ == a.ordering@.subrange(z, a.ordering@.len() as int) && b.orphan_lines@.len() == 0      // C04: dropped bars at the head are reaped after being painted once more
                     && b.members@.len() == a.members@.len()
                     && forall|k: int| 0 <= k < a.members@.len() && b.ordering@.contains(k as usize) ==> b.members@[k] == a.members@[k])
    &&& (!granted ==> b.ordering@ == a.ordering@ && b.orphan_lines@ == a.orphan_lines@ && b.members@ == a.members@)
}
spec fn ms_draw_post(a: MultiState, b: MultiState, force: bool, extra: Option<Vec<LineType>>, now: Instant, r: Result<(), IoError>) -> bool {
    match a.draw_target.own() {
        None => b.draw_target.same_kind(a.draw_target) && b.draw_target.ops() == a.draw_target.ops() && b.ordering@ == a.ordering@ && b.members@ == a.members@ && b.wf() && r.is_ok(),
        Some(x) => exists|a1: ProgressDrawTarget, mid: ProgressDrawTarget, granted: bool| #[trigger] ms_draw_case(a, b, force, extra, now, r, a1, mid, granted),
    }
}
// ---- row accounting (C03), in counts: llc = rows the next draw clears, zlc = rows of reaped zombies kept above them.
// The managed region is the llc + zlc rows ending at the cursor row; everything above it is log.
spec fn acct_log_untouched(a: MultiState, a1: ProgressDrawTarget) -> bool { llc_of(a1) <= llc_of(a.draw_target) + a.zombie_lines_count.0 }
spec fn acct_text_below_log(a: MultiState, extra: Option<Vec<LineType>>, a1: ProgressDrawTarget) -> bool {
    has_text(a, extra) ==> llc_of(a1) == llc_of(a.draw_target) + a.zombie_lines_count.0
}
spec fn acct_skip(a: MultiState, b: MultiState) -> bool { b.zombie_lines_count == a.zombie_lines_count && llc_of(b.draw_target) == llc_of(a.draw_target) }

proof fn lemma_zprefix(members: Seq<MultiStateMember>, order: Seq<usize>, k: int, m: int)
    requires 0 <= k <= m <= order.len(), forall|j: int| k <= j < m ==> members[order[j] as int].is_zombie, m == order.len() || !members[order[m] as int].is_zombie
    ensures zprefix(members, order, k) == m
    decreases m - k
{ if k < m { lemma_zprefix(members, order, k + 1, m); } }
proof fn lemma_zheight_mono(members: Seq<MultiStateMember>, order: Seq<usize>, w: nat, a: int, b: int)
    requires a <= b
    ensures zheight(members, order, w, a) <= zheight(members, order, w, b)
    decreases b - a
{ if a < b { lemma_zheight_mono(members, order, w, a, b - 1); } }
proof fn lemma_flat_height(members: Seq<MultiStateMember>, order: Seq<usize>, w: nat, k: int)
    requires 0 <= k <= order.len()
    ensures hts(flat(members, order, k), w, flat(members, order, k).len() as int) == zheight(members, order, w, k)
    decreases k
{
    if k > 0 {
        lemma_flat_height(members, order, w, k - 1);
        let a = flat(members, order, k - 1); let b = mlines(members[order[k - 1] as int]);
        lemma_hts_concat(a, b, w, b.len() as int);
    }
}
proof fn lemma_flat_ok(members: Seq<MultiStateMember>, order: Seq<usize>, k: int)
    requires 0 <= k <= order.len(), forall|i: int| 0 <= i < order.len() ==> (#[trigger] order[i]) < members.len(),
             forall|i: int| 0 <= i < members.len() ==> lines_ok(mlines(#[trigger] members[i]))
    ensures lines_ok(flat(members, order, k))
    decreases k
{
    if k > 0 {
        lemma_flat_ok(members, order, k - 1);
        let a = flat(members, order, k - 1); let b = mlines(members[order[k - 1] as int]);
        assert(lines_ok(b));
        assert forall|i: int| 0 <= i < (a + b).len() implies cols(line_str(#[trigger] (a + b)[i])) <= 0xFFFF_FFFF && !is_cr(line_str((a + b)[i])) by {
            if i < a.len() { assert((a + b)[i] == a[i]); } else { assert((a + b)[i] == b[i - a.len()]); }
        }
    }
}
proof fn lemma_hts_ge_len(ls: Seq<LineType>, w: nat, k: int)
    requires 0 <= k <= ls.len(), w >= 1
    ensures hts(ls, w, k) >= k
    decreases k
{ if k > 0 { lemma_hts_ge_len(ls, w, k - 1); } }
proof fn lemma_without_head(s: Seq<usize>)
    requires no_dup(s), s.len() > 0
    ensures without(s, s[0]) == s.subrange(1, s.len() as int)
    decreases s.len()
{
    if s.len() == 1 {
        assert(without(s.drop_last(), s[0]) =~= Seq::<usize>::empty());
        assert(s.subrange(1, 1) =~= Seq::<usize>::empty());
    } else {
        let t = s.drop_last();
        assert(no_dup(t));
        lemma_without_head(t);
        assert(t[0] == s[0]);
        assert(s.last() != s[0]);
        assert(t.subrange(1, t.len() as int).push(s.last()) =~= s.subrange(1, s.len() as int));
    }
}
"""

VLC_STUB = dict(file="src/draw_target.rs", container=None, name="visual_line_count", ret="r", stub=True,
                sig_rewrites=[Rw("R10", r"&\[LineType\]", "&Vec<LineType>")],
                requires=[("width", "width >= 1"), ("no-overflow", "hts(lines@, width as nat, lines.len() as int) <= usize::MAX")],
                ensures=[("C19-visual-line-count", "r.0 as nat == hts(lines@, width as nat, lines.len() as int)")])

MS_DRAW_RW = [
    Rw("R8", r"debug_assert_eq!\(\s*extra_lines\.is_some\(\),\s*extra_lines\.as_ref\(\)\.map\(Vec::len\)\.unwrap_or_default\(\) > 0\s*\);", "assert(extra_lines matches Some(v) ==> v@.len() > 0);"),
    Rw("R5", r"let mut reap_indices = vec!\[\];", "let mut reap_indices = Vec::<usize>::new();"),
    RwFn("R3", r3_index_loops, count=3),
    # R5b: `opt.as_ref().map(|d| E).unwrap_or_default()` -> `match &opt { Some(d) => E, None => Default }` (exact desugaring)
    Rw("R5b", r"member\s*\.draw_state\s*\.as_ref\(\)\s*\.map\(\|d\| (.*?)\)\s*\.unwrap_or_default\(\)", r"(match &member.draw_state { Some(d) => \1, None => VisualLines::default() })", flags=re.S),
    Rw("R10", r"d\.visual_line_count\(\.\., width\)", "visual_line_count(&d.lines, width)", count="any"),
    K.BOOL_OR_ASSIGN,
    Rw("R16", r"draw_state\.alignment = self\.alignment;", "draw_state.state.alignment = self.alignment;"),
    Rw("R5", r"draw_state\.lines\.extend_from_slice\(extra_lines\.as_slice\(\)\);", "extend_cloned(&mut draw_state.state.lines, extra_lines);"),
    Rw("R16", r"draw_state\.lines\.append\(&mut self\.orphan_lines\);", "draw_state.state.lines.append(&mut self.orphan_lines);"),
    Rw("R5", r"draw_state\.lines\.extend_from_slice\(&state\.lines\[\.\.\]\);", "extend_cloned(&mut draw_state.state.lines, &state.lines);"),
    Rw("R9", r"drop\(draw_state\);", "draw_state.drop_impl();"),
]

INSERT_RW = [
    Rw("R5", r"self\.ordering\.iter\(\)\.position\(\|i\| \*i == after_idx\)", "vec_position(&self.ordering, after_idx)"),
    Rw("R5", r"self\.ordering\.iter\(\)\.position\(\|i\| \*i == before_idx\)", "vec_position(&self.ordering, before_idx)"),
    Rw("R8", r"assert_eq!\(\s*self\.len\(\),\s*self\.ordering\.len\(\),\s*\"Draw state is inconsistent\"\s*\);", "{ let __a = self.len(); let __b = self.ordering.len(); assert(__a == __b); }"),
]

UNIT = Unit(
    name="multi_state",
    properties=["C02", "C03", "C04", "C06", "C18", "C19"],
    prelude=["time", "gterm"],
    rlimit=200,
    trusted=[
        "the draw-target layer (drawable, Drawable::*, DrawStateWrapper, draw_to_term) enters through its contracts: stubs here, verified in bar_draw / draw_to_term",
        "R5 helpers vec_position / vec_contains / vec_remove_value stand for iter().position(closure) / contains / retain(closure)",
        "R11: #[derive(Default)] on MultiStateMember",
        "R8: assert_eq!(self.len(), self.ordering.len()) must be PROVED (it never fires)",
    ],
    items=TARGET_ITEMS + [
        Decl("src/multi.rs", "struct", "MultiStateMember"),
        Decl("src/multi.rs", "enum", "InsertLocation"),
        Decl("src/multi.rs", "struct", "MultiState"),
        Raw(MS_SPEC),
        Fn("src/multi.rs", "MultiState", "len", ret="r",
           requires=[("wf", "self.free_set@.len() <= self.members@.len()")],
           ensures=[("def", "r == self.members@.len() - self.free_set@.len()")]),
        Fn("src/multi.rs", "MultiState", "insert", ret="idx", rewrites=INSERT_RW,
           proofs=[(r"match location \{", "before", """        let ghost o0 = self.ordering@;
        proof {
            // the new slot is not a member yet
            assert(!o0.contains(idx)) by {
                if o0.contains(idx) { let i = choose|i: int| 0 <= i < o0.len() && o0[i] == idx; assert(o0[i] < old(self).members@.len()); assert(!old(self).free_set@.contains(o0[i])); }
            }
            assert forall|p: int| 0 <= p <= o0.len() implies no_dup(#[trigger] o0.insert(p, idx)) by { lemma_insert_nodup(o0, p, idx); }
            assert forall|p: int, y: usize| 0 <= p <= o0.len() implies (#[trigger] o0.insert(p, idx).contains(y) <==> (o0.contains(y) || y == idx)) by { lemma_insert_nodup(o0, p, idx); }
            assert(o0.push(idx) =~= o0.insert(o0.len() as int, idx));
        }"""),
                   (r"\{ let __a = self\.len\(\);", "before", """        proof {
            let o1 = self.ordering@; let f0 = old(self).free_set@; let f1 = self.free_set@; let m0 = old(self).members@; let m1 = self.members@;
            assert(forall|i: int| 0 <= i < f1.len() ==> f1[i] == f0[i]);
            assert(!f1.contains(idx)) by {
                if f1.contains(idx) {
                    let i = choose|i: int| 0 <= i < f1.len() && f1[i] == idx;
                    if f0.len() > f1.len() { assert(f0[i] == f0[f0.len() - 1]); } else { assert(f0[i] < m0.len()); }
                }
            }
            assert forall|i: int| 0 <= i < o1.len() implies (#[trigger] o1[i]) < m1.len() && !f1.contains(o1[i]) by {
                let y = o1[i];
                assert(o1.contains(y));
                if y != idx {
                    assert(o0.contains(y));
                    let k = choose|k: int| 0 <= k < o0.len() && o0[k] == y;
                    assert(o0[k] < m0.len() && !f0.contains(o0[k]));
                    if f1.contains(y) { let j = choose|j: int| 0 <= j < f1.len() && f1[j] == y; assert(f0[j] == y); }
                }
            }
            assert forall|i: int| 0 <= i < f1.len() implies (#[trigger] f1[i]) < m1.len() && member_is_default(m1[f1[i] as int]) by {
                assert(f1.contains(f1[i]));
                assert(f0[i] < m0.len() && member_is_default(m0[f0[i] as int]));
            }
            assert forall|k: usize| k < m1.len() implies o1.contains(k) || f1.contains(k) by {
                if k != idx {
                    assert(k < m0.len());
                    if f0.contains(k) { let j = choose|j: int| 0 <= j < f0.len() && f0[j] == k; if j < f1.len() { assert(f1[j] == k); } else { assert(k == idx); } }
                    else { assert(o0.contains(k)); }
                }
            }
        }""")],
           requires=[("wf", "old(self).wf()"),
                     ("anchor-is-member", "(location matches InsertLocation::After(a) ==> old(self).order().contains(a)) && (location matches InsertLocation::Before(a) ==> old(self).order().contains(a))")],
           ensures=[("wf", "final(self).wf()"),
                    ("C02-fresh-slot", "!old(self).order().contains(idx) && idx < final(self).members@.len() && member_is_default(final(self).members@[idx as int])"),
                    ("C02-order", "final(self).order() == old(self).order().insert(insert_pos(location, old(self).order()), idx)"),
                    ("C02-others-untouched", "forall|j: int| 0 <= j < old(self).members@.len() && j != idx ==> final(self).members@[j] == old(self).members@[j]"),
                    ("frame", "final(self).draw_target == old(self).draw_target && final(self).orphan_lines == old(self).orphan_lines && final(self).zombie_lines_count == old(self).zombie_lines_count && final(self).alignment == old(self).alignment")]),
        Fn("src/multi.rs", "MultiState", "remove_idx", rewrites=[
               Rw("R5", r"self\.free_set\.contains\(&idx\)", "vec_contains(&self.free_set, idx)"),
               Rw("R5", r"self\.ordering\.retain\(\|&x\| x != idx\);", "vec_remove_value(&mut self.ordering, idx);"),
               INSERT_RW[2]],
           proofs=[(r"if vec_contains\(&self\.free_set, idx\)", "before", """        proof {
            lemma_without(self.ordering@, idx);
            if self.free_set@.contains(idx) { assert(!self.ordering@.contains(idx)) by {
                if self.ordering@.contains(idx) { let i = choose|i: int| 0 <= i < self.ordering@.len() && self.ordering@[i] == idx; assert(!self.free_set@.contains(self.ordering@[i])); } } }
        }"""),
                   (r"self\.free_set\.push\(idx\);", "after", """        proof {
            let f0 = old(self).free_set@; let f1 = self.free_set@;
            assert(f1 =~= f0.push(idx));
            assert(no_dup(f1)) by { assert forall|i: int, j: int| 0 <= i < j < f1.len() implies f1[i] != f1[j] by { if j == f1.len() - 1 { assert(f0.contains(f1[i])); } } }
            assert forall|y: usize| f1.contains(y) <==> (f0.contains(y) || y == idx) by {
                if f1.contains(y) { let i = choose|i: int| 0 <= i < f1.len() && f1[i] == y; if i < f0.len() { assert(f0[i] == y); } }
                if f0.contains(y) { let i = choose|i: int| 0 <= i < f0.len() && f0[i] == y; assert(f1[i] == y); }
                if y == idx { assert(f1[f1.len() - 1] == idx); }
            }
        }"""),
                   (r"vec_remove_value\(&mut self\.ordering, idx\);", "after", """        proof {
            let o0 = old(self).ordering@; let o1 = self.ordering@; let f0 = old(self).free_set@; let f1 = self.free_set@;
            assert forall|i: int| 0 <= i < o1.len() implies (#[trigger] o1[i]) < self.members@.len() && !f1.contains(o1[i]) by {
                let y = o1[i];
                assert(o1.contains(y));
                assert(o0.contains(y) && y != idx);
                let k = choose|k: int| 0 <= k < o0.len() && o0[k] == y;
                assert(o0[k] < old(self).members@.len() && !f0.contains(o0[k]));
            }
            assert forall|i: int| 0 <= i < f1.len() implies (#[trigger] f1[i]) < self.members@.len() && member_is_default(self.members@[f1[i] as int]) by {
                if i < f0.len() { assert(f1[i] == f0[i]); assert(f0[i] != idx) by { assert(f0.contains(f0[i])); } }
            }
            // idx was a member (it is not free and every slot is a member or free)
            assert(o0.contains(idx));
            assert forall|k: usize| k < self.members@.len() implies o1.contains(k) || f1.contains(k) by {
                if k != idx { if o0.contains(k) { assert(o1.contains(k)); } else { assert(f0.contains(k)); assert(f1.contains(k)); } } else { assert(f1.contains(idx)); }
            }
        }""")],
           requires=[("wf", "old(self).wf()"), ("slot", "idx < old(self).members@.len()")],
           ensures=[("wf", "final(self).wf()"),
                    ("C02-order", "final(self).order() == without(old(self).order(), idx)"),
                    ("C02-others-untouched", "final(self).members@.len() == old(self).members@.len() && forall|j: int| 0 <= j < old(self).members@.len() && j != idx ==> final(self).members@[j] == old(self).members@[j]"),
                    ("C02-slot-cleared", "member_is_default(final(self).members@[idx as int])"),
                    ("frame", "final(self).draw_target == old(self).draw_target && final(self).orphan_lines == old(self).orphan_lines && final(self).zombie_lines_count == old(self).zombie_lines_count && final(self).alignment == old(self).alignment")]),
        ImplBlock("src/draw_target.rs", "AddAssign for VisualLines", D.VL_ADDASSIGN_SPEC),
        ImplBlock("src/draw_target.rs", "From for VisualLines", D.VL_FROM_SPEC),
        Raw(MS_DRAW_SPEC), Raw(MS_ACCT_SPEC),
        Fn(**VLC_STUB),
        Fn("src/multi.rs", "MultiState", "width", ret="r",
           requires=[("wf", "self.draw_target.wf()")],
           ensures=[("def", "self.draw_target.own() matches Some(x) ==> r == Some(x.0.w as u16)"), ("hidden", "self.draw_target.kind is Hidden ==> r is None"),
                    ("width-positive", "!(self.draw_target.kind is Multi) ==> (r matches Some(v) ==> v >= 1)")]),
        Fn("src/multi.rs", "MultiState", "is_hidden", ret="r", ensures=[("def", "r == self.draw_target.hidden()")]),
        Fn("src/multi.rs", "MultiState", "draw", ret="r", sig_rewrites=[K.IO_RESULT], rewrites=MS_DRAW_RW,
           requires=[("wf", "old(self).wf()"), ("target-wf", "old(self).draw_target.wf()"), ("clock", "time_ok(now)"),
                     ("extra-nonempty", "extra_lines matches Some(v) ==> v@.len() > 0"),
                     ("own-target", "!(old(self).draw_target.kind is Multi)"),
                     ("sizes", "forall|w: nat| 1 <= w <= 65535 ==> #[trigger] ms_small(*old(self), extra_lines, w)")],
           ensures=[("wf", "final(self).wf()"),
                    ("C02-C04-C05-C18-draw", "ms_draw_post(*old(self), *final(self), force_draw, extra_lines, now, r)")],
           findings=[
               ("C03-log-untouched",
                "old(self).draw_target.own() is Some ==> exists|a1: ProgressDrawTarget, mid: ProgressDrawTarget, granted: bool| #[trigger] ms_draw_case(*old(self), *final(self), force_draw, extra_lines, now, r, a1, mid, granted) "
                "&& (granted ==> acct_log_untouched(*old(self), a1))",
                ["C03"], "a zombie reaped by this very draw is counted into the rows to clear while its rows are still part of the frame"),
               ("C03-text-directly-below-log",
                "old(self).draw_target.own() is Some ==> exists|a1: ProgressDrawTarget, mid: ProgressDrawTarget, granted: bool| #[trigger] ms_draw_case(*old(self), *final(self), force_draw, extra_lines, now, r, a1, mid, granted) "
                "&& (granted ==> acct_text_below_log(*old(self), extra_lines, a1))",
                ["C03"], "text printed through a member bar is painted below the static zombie rows, which are then accounted as if they were below the text"),
               ("C03-skip-preserves-state",
                "old(self).draw_target.own() is Some ==> exists|a1: ProgressDrawTarget, mid: ProgressDrawTarget, granted: bool| #[trigger] ms_draw_case(*old(self), *final(self), force_draw, extra_lines, now, r, a1, mid, granted) "
                "&& (!granted ==> acct_skip(*old(self), *final(self)))",
                ["C03"], "the zombie row count is increased before the rate limiter is asked; a skipped draw re-counts the same zombies"),
           ],
           proofs=[
               (r"let mut reap_indices = Vec", "before", """        let ghost a0 = *self;
        let ghost o0 = self.ordering@; let ghost m0 = self.members@; let ghost z0 = self.zombie_lines_count.0; let ghost orph0 = self.orphan_lines@;
        let ghost w = width as nat; let ghost force_draw_in = force_draw;
        let ghost has_own = self.draw_target.own() is Some;
        proof { assert(1 <= w <= 65535); assert(ms_small(a0, extra_lines, w)); }"""),
               (r"if extra_lines\.is_some\(\) \{", "before", """        proof { lemma_zprefix(m0, o0, 0, __n0 as int); }
        let ghost z = __n0 as int;"""),
               (r"let orphan_visual_line_count = ", "before", """        let ghost a1 = self.draw_target;
        proof {
            assert(only_llc_differs(a0.draw_target, a1));
            lemma_flat_height(m0, o0, w, o0.len() as int);
            lemma_flat_ok(m0, o0, o0.len() as int);
            assert(small(orph0));
            assert(hts(orph0, w, orph0.len() as int) <= 0x0FFF_FFFF);
            lemma_hts_ge_len(orph0, w, orph0.len() as int);
            assert(hts(orph0, w, 0) == 0);
            lemma_zheight_mono(m0, o0, w, z, o0.len() as int);
            // rows handed to the clear loop: bounded
            assert(llc_of(a1) <= llc_of(a0.draw_target) + z0 + zheight(m0, o0, w, z));
            assert(llc_of(a1) <= 0x3FFF_FFFD);
        }"""),
               (r"Some\(drawable\) => drawable,\n\s*None => return Ok\(\(\)\),", "at", """Some(drawable) => drawable,
            None => {
                proof {
                    // skipped (rate limited) or no terminal of its own: nothing reaches the terminal
                    if has_own {
                        let x1 = a1.own().unwrap(); let y = self.draw_target.own().unwrap();
                        assert(req_case(a1, self.draw_target, force_draw, now, ms_frame(a0, extra_lines), Ok(()), false, x1, y));
                        assert(ms_draw_case(a0, *self, force_draw_in, extra_lines, now, Ok(()), a1, self.draw_target, false));
                    }
                }
                return Ok(());
            }"""),
               (r"draw_state\.drop_impl\(\);", "before", """        proof {
            let e = extra_seq(extra_lines);
            let fl = flat(m0, o0, o0.len() as int);
            assert(draw_state.state.lines@ =~= ms_frame(a0, extra_lines));
            // size of the frame: needed by draw_to_term's precondition
            lemma_hts_concat(e + orph0, fl, w, fl.len() as int);
            lemma_hts_concat(e, orph0, w, orph0.len() as int);
            lemma_small_empty_line();
            if extra_lines is None { assert(small(e)); }
            assert(hts(e, w, e.len() as int) <= 0x0FFF_FFFF);
            assert forall|i: int| 0 <= i < (e + orph0 + fl).len() implies cols(line_str(#[trigger] (e + orph0 + fl)[i])) <= 0xFFFF_FFFF && !is_cr(line_str((e + orph0 + fl)[i])) by {
                if i < e.len() { assert((e + orph0 + fl)[i] == e[i]); }
                else if i < e.len() + orph0.len() { assert((e + orph0 + fl)[i] == orph0[i - e.len()]); }
                else { assert((e + orph0 + fl)[i] == fl[i - e.len() - orph0.len()]); }
            }
        }"""),
               (r"let drawable = drawable\.draw\(\);", "at", """let ghost dsnap = drawable;
        let drawable = drawable.draw();
        let ghost mid = self.draw_target;
        let ghost rres = drawable;
        proof {
            let want = ms_frame(a0, extra_lines);
            let f = force_draw;
            match dsnap {
                Drawable::Term { term: t, last_line_count: l, draw_state: d } => {
                    let x1 = a1.own().unwrap(); let y = mid.own().unwrap();
                    assert(d.lines@ == want);
                    assert(dtt_post(*d, *final(d), t@, final(t)@, *l, *final(l), rres));
                    assert(x1.0 == t@ && x1.1 == *l);
                    assert(y.0 == final(t)@ && y.1 == *final(l) && y.2 == *final(d));
                    assert(req_case(a1, mid, f, now, want, rres, true, x1, y));
                }
                Drawable::TermLike { term_like: t, last_line_count: l, draw_state: d } => {
                    let x1 = a1.own().unwrap(); let y = mid.own().unwrap();
                    assert(d.lines@ == want);
                    assert(dtt_post(*d, *final(d), t@, final(t)@, *l, *final(l), rres));
                    assert(x1.0 == t@ && x1.1 == *l);
                    assert(y.0 == final(t)@ && y.1 == *final(l) && y.2 == *final(d));
                    assert(req_case(a1, mid, f, now, want, rres, true, x1, y));
                }
                _ => { assert(false); }
            }
        }"""),
               (r"(?m)^\s*drawable\s*$", "before", """        proof {
            assert(only_llc_differs(mid, self.draw_target));
            assert(self.ordering@ == o0.subrange(z, o0.len() as int));
            assert(ms_draw_case(a0, *self, force_draw_in, extra_lines, now, rres, a1, mid, true));
        }"""),
           ],
           loops={
               0: {"invariant": [
                       "self.ordering@ == o0", "self.members@ == m0", "self.draw_target == a0.draw_target", "self.orphan_lines@ == orph0", "self.alignment == a0.alignment",
                       "self.free_set@ == a0.free_set@", "a0.wf()", "self.wf()", "a0.ordering@ == o0", "a0.members@ == m0", "width as nat == w", "1 <= w <= 65535",
                       "__n0 <= o0.len()", "forall|j: int| 0 <= j < __n0 ==> m0[o0[j] as int].is_zombie",
                       "reap_indices@ == o0.subrange(0, __n0 as int)",
                       "adjust.0 as nat == zheight(m0, o0, w, __n0 as int)",
                       "self.zombie_lines_count.0 == z0 + adjust.0",
                       "z0 <= 0x0FFF_FFFF", "zheight(m0, o0, w, o0.len() as int) <= 0x0FFF_FFFF"],
                   "ensures": ["__n0 <= o0.len()", "__n0 == o0.len() || !m0[o0[__n0 as int] as int].is_zombie"],
                   "decreases": "o0.len() - __n0",
                   "body_start": "            proof { lemma_zheight_mono(m0, o0, w, __n0 as int + 1, o0.len() as int); assert(o0[__n0 as int] < m0.len()); }",
                   "body_end": "            proof { assert(reap_indices@ =~= o0.subrange(0, __n0 as int)); }"},
               1: {"invariant": [
                       "self.ordering@ == o0", "self.members@ == m0", "__n1 <= o0.len()", "a0.wf()", "a0.ordering@ == o0", "a0.members@ == m0",
                       "draw_state.state.lines@ == extra_seq(extra_lines) + orph0 + flat(m0, o0, __n1 as int)",
                       "draw_state.orphan_lines is None"],
                   "decreases": "o0.len() - __n1",
                   "body_start": "            proof { assert(o0[__n1 as int] < m0.len()); }"},
               2: {"invariant": [
                       "__n2 <= reap_indices@.len()", "reap_indices@ == o0.subrange(0, z)", "0 <= z <= o0.len()", "self.wf()", "a0.wf()",
                       "self.ordering@ == o0.subrange(__n2 as int, o0.len() as int)",
                       "self.members@.len() == m0.len()",
                       "forall|k: int| 0 <= k < m0.len() && self.ordering@.contains(k as usize) ==> self.members@[k] == m0[k]",
                       "self.draw_target == mid", "self.orphan_lines@.len() == 0", "self.alignment == a0.alignment"],
                   "decreases": "reap_indices@.len() - __n2",
                   "body_start": """            proof {
                let cur = self.ordering@;
                assert(cur.len() > 0 && cur[0] == o0[__n2 as int]);
                assert(o0[__n2 as int] < m0.len());
                lemma_without_head(cur);
                assert(cur.subrange(1, cur.len() as int) =~= o0.subrange(__n2 as int + 1, o0.len() as int));
            }"""},
           }),
        Fn("src/multi.rs", "MultiState", "mark_zombie",
           rewrites=[Rw("R5", r"self\.width\(\)\.map\(usize::from\)", "opt_u16_usize(self.width())", count="any"),
                     Rw("R5", r"self\.ordering\.first\(\)\.copied\(\)", "vec_first(&self.ordering)"),
                     Rw("R5", r"member\s*\.draw_state\s*\.as_ref\(\)\s*\.zip\(width\)\s*\.map\(\|\(d, width\)\| d\.visual_line_count\(\.\., width\)\)\s*\.unwrap_or_default\(\)", "opt_line_count2(&member.draw_state, width)", count="any"),
                     # R5b: `opt.as_ref().map(|d| E).unwrap_or_default()` -> match (exact desugaring), for any other shape of the row count
                     Rw("R5b", r"member\s*\.draw_state\s*\.as_ref\(\)\s*\.map\(\|d\| (.*?)\)\s*\.unwrap_or_default\(\)", r"(match &member.draw_state { Some(d) => \1, None => VisualLines::default() })", count="any", flags=re.S)],
           requires=[("wf", "old(self).wf()"), ("target-wf", "old(self).draw_target.wf()"), ("own-target", "!(old(self).draw_target.kind is Multi)"),
                     ("member", "old(self).ordering@.contains(index) && index < old(self).members@.len()"),
                     ("sizes", "old(self).zombie_lines_count.0 <= 0x0FFF_FFFF && forall|w: nat| 1 <= w <= 65535 ==> #[trigger] mheight(old(self).members@[index as int], w) <= 0x0FFF_FFFF")],
           proofs=[(r"let width = opt_u16_usize\(self\.width\(\)\);", "after", """        proof {
            if width is Some { let wv = width.unwrap() as nat; assert(1 <= wv <= 65535); assert(mheight(old(self).members@[index as int], wv) <= 0x0FFF_FFFF); }
        }""", "optional")],
           ensures=[("wf", "final(self).wf()"),
                    ("C06-no-terminal-op", "final(self).draw_target.ops() == old(self).draw_target.ops() && only_llc_differs(old(self).draw_target, final(self).draw_target)"),
                    ("C04-not-at-head-flagged", "old(self).ordering@[0] != index ==> final(self).ordering@ == old(self).ordering@ && final(self).members@[index as int].is_zombie "
                                                "&& final(self).members@[index as int].draw_state == old(self).members@[index as int].draw_state && final(self).zombie_lines_count == old(self).zombie_lines_count "
                                                "&& final(self).draw_target == old(self).draw_target"),
                    ("C04-head-kept-as-static-rows", "old(self).ordering@[0] == index ==> final(self).ordering@ == without(old(self).ordering@, index) "
                                                "&& (old(self).draw_target.own() matches Some(x) ==> (final(self).zombie_lines_count.0 - old(self).zombie_lines_count.0 == mheight(old(self).members@[index as int], x.0.w) "
                                                "&& llc_of(final(self).draw_target) == (if llc_of(old(self).draw_target) >= mheight(old(self).members@[index as int], x.0.w) { llc_of(old(self).draw_target) - mheight(old(self).members@[index as int], x.0.w) } else { 0 })))")]),
        Fn("src/multi.rs", "MultiState", "println", ret="r", sig_rewrites=[K.IO_RESULT, Rw("R15", r"<I: AsRef<str>>", ""), Rw("R15", r"msg: I", "msg: &str")],
           rewrites=[Rw("R15", r"let msg = msg\.as_ref\(\);", ""),
                     Rw("R5", r"match msg\.is_empty\(\) \{\s*false => msg\.lines\(\)\.map\(\|l\| LineType::Text\(Into::into\(l\)\)\)\.collect\(\),\s*true => vec!\[LineType::Empty\],\s*\}",
                        "if str_is_empty(msg) { one_empty_line() } else { text_lines(msg) }")],
           proofs=[(r"self\.draw\(true, Some\(lines\), now\)", "before", """        proof {
            lemma_small_empty_line();
            assert(small(lines@));
            assert forall|w: nat| 1 <= w <= 65535 implies #[trigger] ms_small(*self, Some(lines), w) by { }
        }""")],
           requires=[("wf", "old(self).wf()"), ("target-wf", "old(self).draw_target.wf()"), ("clock", "time_ok(now)"), ("own-target", "!(old(self).draw_target.kind is Multi)"),
                     ("nonempty-text", "msg@.len() > 0 ==> text_lines_of(msg@).len() > 0"),   # str::lines of a non-empty string yields at least one line
                     ("sizes", "forall|w: nat, e: Option<Vec<LineType>>| 1 <= w <= 65535 && (e matches Some(v) ==> small(v@)) ==> #[trigger] ms_small(*old(self), e, w)")],
           ensures=[("wf", "final(self).wf()"),
                    ("C03-C18-println", "exists|v: Vec<LineType>| v@ == (if msg@.len() == 0 { seq![LineType::Empty] } else { text_lines_of(msg@) }) && #[trigger] ms_draw_post(*old(self), *final(self), true, Some(v), now, r)")]),
        Fn("src/multi.rs", "MultiState", "draw_state", ret="r",
           rewrites=[Rw("R5", r"self\.members\.get_mut\(idx\)\.unwrap\(\)", "&mut self.members[idx]"),
                     Rw("R5", r"member\.draw_state\.get_or_insert\(DrawState::default\(\)\)", "opt_get_or_insert(&mut member.draw_state, DrawState::default())")],
           requires=[("slot", "idx < old(self).members@.len()")],
           ensures=[("C02-member-state", "r.orphan_lines is Some && (old(self).members@[idx as int].draw_state matches Some(d) ==> *r.state == d) && (old(self).members@[idx as int].draw_state is None ==> r.state.lines@.len() == 0)")]),
        Raw("""
// what MultiState::clear leaves behind (members, order and pending lines untouched; on an own terminal the
// rows of reaped bars are wiped together with the frame and forgotten)
spec fn ms_clear_post(a: MultiState, b: MultiState) -> bool {
    &&& b.wf() && b.ordering@ == a.ordering@ && b.members@ == a.members@ && b.orphan_lines@ == a.orphan_lines@ && b.alignment == a.alignment
    &&& b.draw_target.wf() && b.draw_target.same_kind(a.draw_target)
    &&& b.zombie_lines_count.0 <= a.zombie_lines_count.0 && llc_of(b.draw_target) <= llc_of(a.draw_target) + a.zombie_lines_count.0
    &&& (a.draw_target.hidden() ==> b.draw_target.ops() == a.draw_target.ops())
    &&& (a.draw_target.own() is Some ==> b.zombie_lines_count.0 == 0)
}
"""),
        Fn("src/multi.rs", "MultiState", "clear", ret="r", sig_rewrites=[K.IO_RESULT], also=["C03"],   # suspend = clear, closure, redraw: a clear that leaves rows behind costs printed lines
           requires=[("wf", "old(self).wf()"), ("target-wf", "old(self).draw_target.wf()"), ("clock", "time_ok(now)"), ("own-target", "!(old(self).draw_target.kind is Multi)"),
                     ("sizes", "old(self).zombie_lines_count.0 <= 0x0FFF_FFFF && llc_of(old(self).draw_target) <= 0x0FFF_FFFF")],
           ensures=[("wf", "final(self).wf() && final(self).ordering@ == old(self).ordering@ && final(self).members@ == old(self).members@ && final(self).orphan_lines@ == old(self).orphan_lines@ && final(self).alignment == old(self).alignment"),
                    ("target-wf", "final(self).draw_target.wf() && final(self).draw_target.same_kind(old(self).draw_target)"),
                    ("rows-bounded", "final(self).zombie_lines_count.0 <= old(self).zombie_lines_count.0 && llc_of(final(self).draw_target) <= llc_of(old(self).draw_target) + old(self).zombie_lines_count.0"),
                    ("C06-silent-when-hidden", "old(self).draw_target.hidden() ==> final(self).draw_target.ops() == old(self).draw_target.ops()"),
                    ("C02-clear-wipes-zombies-too", "old(self).draw_target.own() is Some ==> final(self).zombie_lines_count.0 == 0"),
                    ("clear-post", "ms_clear_post(*old(self), *final(self))")]),
        Fn("src/multi.rs", "MultiState", "suspend", ret="r",
           sig_rewrites=[Rw("R5", r"<F: FnOnce\(\) -> R, R>", "<F: FnOnce() -> R, R>")],
           proofs=[(r"(?m)^\s*let _ = self\.draw\(true, None, Instant::now\(\)\);\s*$", "at", """
        let ghost m = *self;
        proof {
            assert forall|w: nat| 1 <= w <= 65535 implies #[trigger] ms_small(*self, None, w) by {
                assert(ms_small(*old(self), None, w));
                assert(self.ordering@ == old(self).ordering@ && self.members@ == old(self).members@);
            }
        }
        let __t2 = Instant::now();
        let __r2 = self.draw(true, None, __t2);
        proof { assert(ms_clear_post(*old(self), m) && ms_draw_post(m, *self, true, None, __t2, __r2)); }
""")],
           requires=[("wf", "old(self).wf()"), ("target-wf", "old(self).draw_target.wf()"), ("clock", "time_ok(now)"), ("own-target", "!(old(self).draw_target.kind is Multi)"),
                     ("callback", "f.requires(())"),
                     ("sizes", "old(self).zombie_lines_count.0 <= 0x0FFF_FFFF && llc_of(old(self).draw_target) <= 0x0FFF_FFFF && forall|w: nat| 1 <= w <= 65535 ==> #[trigger] ms_small(*old(self), None, w)")],
           ensures=[("C18-no-panic-on-io-error", "f.ensures((), r)", ["C18"]),
                    ("C01-C03-suspend-clears-everything-then-redraws",
                     "exists|m: MultiState, t: Instant, r2: Result<(), IoError>| #[trigger] ms_clear_post(*old(self), m) && #[trigger] ms_draw_post(m, *final(self), true, None, t, r2)"),
                    ("C06-silent-when-hidden", "final(self).draw_target.hidden() == old(self).draw_target.hidden() && (old(self).draw_target.hidden() ==> final(self).draw_target.ops() == old(self).draw_target.ops())")]),
        # ---- MultiProgress: the public methods that only take the lock and forward (were hash-pinned in pins_multi).
        # R2: Arc<RwLock<MultiState>> is a plain field, read()/write().unwrap() are transparent.
        Decl("src/multi.rs", "struct", "MultiProgress", rewrites=[Rw("R2", r"Arc<RwLock<MultiState>>", "MultiState")]),
        Fn("src/multi.rs", "MultiProgress", "is_hidden", ret="r",
           rewrites=[Rw("R2", r"self\.state\.read\(\)\.unwrap\(\)", "self.state")],
           ensures=[("C06-is-hidden", "r == self.state.draw_target.hidden()", ["C06"])]),
        Fn("src/multi.rs", "MultiProgress", "set_alignment", sig_rewrites=[K.SELF_MUT],
           rewrites=[Rw("R2", r"self\.state\.write\(\)\.unwrap\(\)", "self.state")],
           ensures=[("C02-alignment-set", "final(self).state.alignment == alignment"),
                    ("C02-C03-nothing-else-changes",
                     "final(self).state.ordering@ == old(self).state.ordering@ && final(self).state.members@ == old(self).state.members@ && final(self).state.orphan_lines@ == old(self).state.orphan_lines@ "
                     "&& final(self).state.draw_target == old(self).state.draw_target && final(self).state.zombie_lines_count == old(self).state.zombie_lines_count && final(self).state.free_set@ == old(self).state.free_set@")]),
        Fn("src/multi.rs", "MultiProgress", "set_move_cursor", sig_rewrites=[K.SELF_MUT],
           rewrites=[Rw("R2", r"self\.state\s*\.write\(\)\s*\.unwrap\(\)", "self.state")],
           ensures=[("C01-C03-only-the-cursor-mode-of-the-own-terminal-changes",
                     "old(self).state.draw_target.own() matches Some(x) ==> (final(self).state.draw_target.own() matches Some(y) && y.0 == x.0 && y.1 == x.1 && y.2.move_cursor == move_cursor "
                     "&& y.2.lines == x.2.lines && y.2.alignment == x.2.alignment)"),
                    ("C05-C06-target-otherwise-the-same", "final(self).state.draw_target.same_kind(old(self).state.draw_target) && final(self).state.draw_target.ops() == old(self).state.draw_target.ops() "
                     "&& final(self).state.draw_target.limiter() == old(self).state.draw_target.limiter()"),
                    ("C02-C03-members-untouched",
                     "final(self).state.ordering@ == old(self).state.ordering@ && final(self).state.members@ == old(self).state.members@ && final(self).state.orphan_lines@ == old(self).state.orphan_lines@ "
                     "&& final(self).state.alignment == old(self).state.alignment && final(self).state.zombie_lines_count == old(self).state.zombie_lines_count && final(self).state.free_set@ == old(self).state.free_set@")]),
        Fn("src/multi.rs", "MultiProgress", "set_draw_target", sig_rewrites=[K.SELF_MUT],
           rewrites=[Rw("R2", r"let mut state = self\.state\.write\(\)\.unwrap\(\);", "let state = &mut self.state;")],
           ensures=[("C06-new-target-installed", "final(self).state.draw_target == target", ["C06"]),
                    ("C02-C03-members-untouched",
                     "final(self).state.ordering@ == old(self).state.ordering@ && final(self).state.members@ == old(self).state.members@ && final(self).state.orphan_lines@ == old(self).state.orphan_lines@ "
                     "&& final(self).state.alignment == old(self).state.alignment && final(self).state.zombie_lines_count == old(self).state.zombie_lines_count && final(self).state.free_set@ == old(self).state.free_set@")]),
        Fn("src/multi.rs", "MultiProgress", "println", ret="r", sig_rewrites=[K.SELF_MUT, K.IO_RESULT, Rw("R15", r"<I: AsRef<str>>", ""), Rw("R15", r"msg: I", "msg: &str")],
           rewrites=[Rw("R2", r"let mut state = self\.state\.write\(\)\.unwrap\(\);", "let state = &mut self.state;")],
           proofs=[(r"state\.println\(msg, Instant::now\(\)\)", "at", """{ let __now = Instant::now(); proof { assert(time_ok(__now)); } state.println(msg, __now) }""")],
           requires=[("wf", "old(self).state.wf()"), ("target-wf", "old(self).state.draw_target.wf()"), ("own-target", "!(old(self).state.draw_target.kind is Multi)"),
                     ("nonempty-text", "msg@.len() > 0 ==> text_lines_of(msg@).len() > 0"),
                     ("sizes", "forall|w: nat, e: Option<Vec<LineType>>| 1 <= w <= 65535 && (e matches Some(v) ==> small(v@)) ==> #[trigger] ms_small(old(self).state, e, w)")],
           ensures=[("wf", "final(self).state.wf()"),
                    ("C03-C18-println", "exists|v: Vec<LineType>, now: Instant| v@ == (if msg@.len() == 0 { seq![LineType::Empty] } else { text_lines_of(msg@) }) && time_ok(now) "
                                        "&& #[trigger] ms_draw_post(old(self).state, final(self).state, true, Some(v), now, r)")]),
        Fn("src/multi.rs", "MultiProgress", "clear", ret="r", sig_rewrites=[K.SELF_MUT, K.IO_RESULT], also=["C03"],
           rewrites=[Rw("R2", r"self\.state\.write\(\)\.unwrap\(\)", "self.state")],
           requires=[("wf", "old(self).state.wf()"), ("target-wf", "old(self).state.draw_target.wf()"), ("own-target", "!(old(self).state.draw_target.kind is Multi)"),
                     ("sizes", "old(self).state.zombie_lines_count.0 <= 0x0FFF_FFFF && llc_of(old(self).state.draw_target) <= 0x0FFF_FFFF")],
           ensures=[("wf", "final(self).state.wf() && final(self).state.ordering@ == old(self).state.ordering@ && final(self).state.members@ == old(self).state.members@ && final(self).state.orphan_lines@ == old(self).state.orphan_lines@ && final(self).state.alignment == old(self).state.alignment"),
                    ("target-wf", "final(self).state.draw_target.wf() && final(self).state.draw_target.same_kind(old(self).state.draw_target)"),
                    ("C06-silent-when-hidden", "old(self).state.draw_target.hidden() ==> final(self).state.draw_target.ops() == old(self).state.draw_target.ops()"),
                    ("C02-clear-wipes-zombies-too", "old(self).state.draw_target.own() is Some ==> final(self).state.zombie_lines_count.0 == 0"),
                    ("clear-post", "ms_clear_post(old(self).state, final(self).state)")]),
    ],
)

# the three finding clauses are existentials that Z3 refutes only by exhausting its resources:
# the variants run gets a small limit (running out of resources counts as "not verified")
UNIT.variants_rlimit = 10
