"""MultiState (src/multi.rs): slot bookkeeping and visual order (C02), frame composition (C02),
row accounting of zombies and printed lines (C03, C04), error paths (C18)."""
import copy
import re
from vlib.unit import Unit, Fn, Decl, Raw, Lemma, Rw, RwFn, ImplBlock, r3_index_loops
from specs import contracts as K
from specs import draw_to_term as D
from specs import bar_draw as B

# ---- the draw-target layer, verified in bar_draw, enters here through its contracts (stubs)
_MARK = [i for i, it in enumerate(B.UNIT.items) if isinstance(it, Decl) and it.name == "AtomicPosition"][0]
TARGET_ITEMS = []
for _it in B.UNIT.items[:_MARK]:
    if isinstance(_it, Fn) and not _it.stub:
        _c = copy.copy(_it)
        _c.stub = True
        TARGET_ITEMS.append(_c)
    else:
        TARGET_ITEMS.append(_it)
for _it in B.UNIT.items[_MARK:]:
    if isinstance(_it, Fn) and _it.container == "ProgressDrawTarget" and _it.name in ("width", "is_hidden"):
        _c = copy.copy(_it)
        _c.stub = True
        TARGET_ITEMS.append(_c)

MS_SPEC = r"""
// #[derive(Default)] on MultiStateMember (R11)
impl MultiStateMember {
    fn default() -> (r: Self) ensures r.draw_state is None && !r.is_zombie { MultiStateMember { draw_state: None, is_zombie: false } }
}
spec fn member_is_default(m: MultiStateMember) -> bool { m.draw_state is None && !m.is_zombie }
spec fn no_dup(s: Seq<usize>) -> bool { forall|i: int, j: int| 0 <= i < j < s.len() ==> s[i] != s[j] }
impl MultiState {
    // representation invariant of the slot bookkeeping
    spec fn wf(&self) -> bool {
        &&& no_dup(self.ordering@) && no_dup(self.free_set@)
        &&& forall|i: int| 0 <= i < self.ordering@.len() ==> (#[trigger] self.ordering@[i]) < self.members@.len() && !self.free_set@.contains(self.ordering@[i])
        &&& forall|i: int| 0 <= i < self.free_set@.len() ==> (#[trigger] self.free_set@[i]) < self.members@.len() && member_is_default(self.members@[self.free_set@[i] as int])
        &&& self.ordering@.len() + self.free_set@.len() == self.members@.len()
        &&& forall|k: usize| k < self.members@.len() ==> self.ordering@.contains(k) || self.free_set@.contains(k)   // every slot is a member or free
    }
    // the visible order of the member bars (C02)
    spec fn order(&self) -> Seq<usize> { self.ordering@ }
}
// where add / insert / insert_from_back / insert_before / insert_after put the new bar (from their documentation)
spec fn insert_pos(loc: InsertLocation, order: Seq<usize>) -> int {
    match loc {
        InsertLocation::End => order.len() as int,
        InsertLocation::Index(p) => if p <= order.len() { p as int } else { order.len() as int },
        InsertLocation::IndexFromBack(p) => if p <= order.len() { order.len() - p } else { 0 },
        InsertLocation::After(a) => order.index_of(a) + 1,
        InsertLocation::Before(a) => order.index_of(a),
    }
}
// R5: `v.iter().position(|i| *i == x)`
#[verifier::external_body]
fn vec_position(v: &Vec<usize>, x: usize) -> (r: Option<usize>)
    ensures match r { Some(i) => i < v@.len() && v@[i as int] == x && (forall|j: int| 0 <= j < i ==> v@[j] != x), None => !v@.contains(x) }
{ v.iter().position(|i| *i == x) }
// R5: `v.contains(&x)`
#[verifier::external_body]
fn vec_contains(v: &Vec<usize>, x: usize) -> (r: bool) ensures r == v@.contains(x) { v.contains(&x) }
// s without every occurrence of x, order kept (what `retain(|&y| y != x)` leaves)
spec fn without(s: Seq<usize>, x: usize) -> Seq<usize> decreases s.len() {
    if s.len() == 0 { s } else if s.last() == x { without(s.drop_last(), x) } else { without(s.drop_last(), x).push(s.last()) }
}
// R5: `v.retain(|&y| y != x)`
#[verifier::external_body]
fn vec_remove_value(v: &mut Vec<usize>, x: usize)
    ensures final(v)@ == without(old(v)@, x)
{ v.retain(|&y| y != x) }
proof fn lemma_without(s: Seq<usize>, x: usize)
    requires no_dup(s)
    ensures no_dup(without(s, x)),
            forall|y: usize| without(s, x).contains(y) <==> (s.contains(y) && y != x),
            without(s, x).len() == s.len() - (if s.contains(x) { 1int } else { 0int }),
            !s.contains(x) ==> without(s, x) == s
    decreases s.len()
{
    if s.len() > 0 {
        let t = s.drop_last();
        assert(no_dup(t));
        lemma_without(t, x);
        let w = without(t, x);
        assert(s =~= t.push(s.last()));
        assert(forall|y: usize| s.contains(y) <==> (t.contains(y) || y == s.last())) by {
            assert forall|y: usize| s.contains(y) implies (t.contains(y) || y == s.last()) by {
                let i = choose|i: int| 0 <= i < s.len() && s[i] == y;
                if i < t.len() { assert(t[i] == y); }
            }
            assert forall|y: usize| (t.contains(y) || y == s.last()) implies s.contains(y) by {
                if t.contains(y) { let i = choose|i: int| 0 <= i < t.len() && t[i] == y; assert(s[i] == y); } else { assert(s[s.len() - 1] == y); }
            }
        }
        assert(!t.contains(s.last())) by {
            if t.contains(s.last()) { let i = choose|i: int| 0 <= i < t.len() && t[i] == s.last(); assert(s[i] == s[s.len() - 1]); }
        }
        if s.last() == x {
        } else {
            let r = w.push(s.last());
            assert(!w.contains(s.last()));
            assert(no_dup(r)) by {
                assert forall|i: int, j: int| 0 <= i < j < r.len() implies r[i] != r[j] by {
                    if j == r.len() - 1 { assert(w.contains(r[i])); }
                }
            }
            assert forall|y: usize| r.contains(y) <==> (s.contains(y) && y != x) by {
                if r.contains(y) { let i = choose|i: int| 0 <= i < r.len() && r[i] == y; if i < w.len() { assert(w.contains(y)); } }
                if s.contains(y) && y != x { if y == s.last() { assert(r[r.len() - 1] == y); } else { assert(w.contains(y)); let i = choose|i: int| 0 <= i < w.len() && w[i] == y; assert(r[i] == y); } }
            }
            if !s.contains(x) { assert(r =~= s); }
        }
    }
}
proof fn lemma_insert_nodup(s: Seq<usize>, pos: int, x: usize)
    requires no_dup(s), !s.contains(x), 0 <= pos <= s.len()
    ensures no_dup(s.insert(pos, x)), forall|y: usize| s.insert(pos, x).contains(y) <==> (s.contains(y) || y == x), s.insert(pos, x).len() == s.len() + 1
{
    let r = s.insert(pos, x);
    assert forall|i: int, j: int| 0 <= i < j < r.len() implies r[i] != r[j] by {
        let a = if i < pos { s[i] } else if i == pos { x } else { s[i - 1] };
        let b = if j < pos { s[j] } else if j == pos { x } else { s[j - 1] };
        assert(r[i] == a && r[j] == b);
        if i != pos && j != pos { } else if i == pos { assert(s.contains(b)); } else { assert(s.contains(a)); }
    }
    assert forall|y: usize| r.contains(y) <==> (s.contains(y) || y == x) by {
        if r.contains(y) { let i = choose|i: int| 0 <= i < r.len() && r[i] == y; if i < pos { assert(s[i] == y); } else if i > pos { assert(s[i - 1] == y); } }
        if s.contains(y) { let i = choose|i: int| 0 <= i < s.len() && s[i] == y; if i < pos { assert(r[i] == y); } else { assert(r[i + 1] == y); } }
        if y == x { assert(r[pos] == x); }
    }
}
"""

INSERT_RW = [
    Rw("R5", r"self\.ordering\.iter\(\)\.position\(\|i\| \*i == after_idx\)", "vec_position(&self.ordering, after_idx)"),
    Rw("R5", r"self\.ordering\.iter\(\)\.position\(\|i\| \*i == before_idx\)", "vec_position(&self.ordering, before_idx)"),
    Rw("R8", r"assert_eq!\(\s*self\.len\(\),\s*self\.ordering\.len\(\),\s*\"Draw state is inconsistent\"\s*\);", "{ let __a = self.len(); let __b = self.ordering.len(); assert(__a == __b); }"),
]

UNIT = Unit(
    name="multi_state",
    properties=["C02", "C03", "C04", "C18"],
    prelude=["time", "gterm"],
    rlimit=60,
    trusted=[
        "the draw-target layer (drawable, Drawable::*, DrawStateWrapper, draw_to_term) enters through its contracts: stubs here, verified in bar_draw / draw_to_term",
        "R5 helpers vec_position / vec_contains / vec_remove_value stand for iter().position(closure) / contains / retain(closure)",
        "R11: #[derive(Default)] on MultiStateMember",
        "R8: assert_eq!(self.len(), self.ordering.len()) must be PROVED (it never fires)",
    ],
    items=TARGET_ITEMS + [
        Decl("src/multi.rs", "struct", "MultiStateMember"),
        Decl("src/multi.rs", "enum", "InsertLocation"),
        Decl("src/multi.rs", "struct", "MultiState"),
        Raw(MS_SPEC),
        Fn("src/multi.rs", "MultiState", "len", ret="r",
           requires=[("wf", "self.free_set@.len() <= self.members@.len()")],
           ensures=[("def", "r == self.members@.len() - self.free_set@.len()")]),
        Fn("src/multi.rs", "MultiState", "insert", ret="idx", rewrites=INSERT_RW,
           proofs=[(r"match location \{", "before", """        let ghost o0 = self.ordering@;
        proof {
            // the new slot is not a member yet
            assert(!o0.contains(idx)) by {
                if o0.contains(idx) { let i = choose|i: int| 0 <= i < o0.len() && o0[i] == idx; assert(o0[i] < old(self).members@.len()); assert(!old(self).free_set@.contains(o0[i])); }
            }
            assert forall|p: int| 0 <= p <= o0.len() implies no_dup(#[trigger] o0.insert(p, idx)) by { lemma_insert_nodup(o0, p, idx); }
            assert forall|p: int, y: usize| 0 <= p <= o0.len() implies (#[trigger] o0.insert(p, idx).contains(y) <==> (o0.contains(y) || y == idx)) by { lemma_insert_nodup(o0, p, idx); }
            assert(o0.push(idx) =~= o0.insert(o0.len() as int, idx));
        }"""),
                   (r"\{ let __a = self\.len\(\);", "before", """        proof {
            let o1 = self.ordering@; let f0 = old(self).free_set@; let f1 = self.free_set@; let m0 = old(self).members@; let m1 = self.members@;
            assert(forall|i: int| 0 <= i < f1.len() ==> f1[i] == f0[i]);
            assert(!f1.contains(idx)) by {
                if f1.contains(idx) {
                    let i = choose|i: int| 0 <= i < f1.len() && f1[i] == idx;
                    if f0.len() > f1.len() { assert(f0[i] == f0[f0.len() - 1]); } else { assert(f0[i] < m0.len()); }
                }
            }
            assert forall|i: int| 0 <= i < o1.len() implies (#[trigger] o1[i]) < m1.len() && !f1.contains(o1[i]) by {
                let y = o1[i];
                assert(o1.contains(y));
                if y != idx {
                    assert(o0.contains(y));
                    let k = choose|k: int| 0 <= k < o0.len() && o0[k] == y;
                    assert(o0[k] < m0.len() && !f0.contains(o0[k]));
                    if f1.contains(y) { let j = choose|j: int| 0 <= j < f1.len() && f1[j] == y; assert(f0[j] == y); }
                }
            }
            assert forall|i: int| 0 <= i < f1.len() implies (#[trigger] f1[i]) < m1.len() && member_is_default(m1[f1[i] as int]) by {
                assert(f1.contains(f1[i]));
                assert(f0[i] < m0.len() && member_is_default(m0[f0[i] as int]));
            }
            assert forall|k: usize| k < m1.len() implies o1.contains(k) || f1.contains(k) by {
                if k != idx {
                    assert(k < m0.len());
                    if f0.contains(k) { let j = choose|j: int| 0 <= j < f0.len() && f0[j] == k; if j < f1.len() { assert(f1[j] == k); } else { assert(k == idx); } }
                    else { assert(o0.contains(k)); }
                }
            }
        }""")],
           requires=[("wf", "old(self).wf()"),
                     ("anchor-is-member", "(location matches InsertLocation::After(a) ==> old(self).order().contains(a)) && (location matches InsertLocation::Before(a) ==> old(self).order().contains(a))")],
           ensures=[("wf", "final(self).wf()"),
                    ("C02-fresh-slot", "!old(self).order().contains(idx) && idx < final(self).members@.len() && member_is_default(final(self).members@[idx as int])"),
                    ("C02-order", "final(self).order() == old(self).order().insert(insert_pos(location, old(self).order()), idx)"),
                    ("C02-others-untouched", "forall|j: int| 0 <= j < old(self).members@.len() && j != idx ==> final(self).members@[j] == old(self).members@[j]"),
                    ("frame", "final(self).draw_target == old(self).draw_target && final(self).orphan_lines == old(self).orphan_lines && final(self).zombie_lines_count == old(self).zombie_lines_count && final(self).alignment == old(self).alignment")]),
        Fn("src/multi.rs", "MultiState", "remove_idx", rewrites=[
               Rw("R5", r"self\.free_set\.contains\(&idx\)", "vec_contains(&self.free_set, idx)"),
               Rw("R5", r"self\.ordering\.retain\(\|&x\| x != idx\);", "vec_remove_value(&mut self.ordering, idx);"),
               INSERT_RW[2]],
           proofs=[(r"if vec_contains\(&self\.free_set, idx\)", "before", """        proof {
            lemma_without(self.ordering@, idx);
            if self.free_set@.contains(idx) { assert(!self.ordering@.contains(idx)) by {
                if self.ordering@.contains(idx) { let i = choose|i: int| 0 <= i < self.ordering@.len() && self.ordering@[i] == idx; assert(!self.free_set@.contains(self.ordering@[i])); } } }
        }"""),
                   (r"self\.free_set\.push\(idx\);", "after", """        proof {
            let f0 = old(self).free_set@; let f1 = self.free_set@;
            assert(f1 =~= f0.push(idx));
            assert(no_dup(f1)) by { assert forall|i: int, j: int| 0 <= i < j < f1.len() implies f1[i] != f1[j] by { if j == f1.len() - 1 { assert(f0.contains(f1[i])); } } }
            assert forall|y: usize| f1.contains(y) <==> (f0.contains(y) || y == idx) by {
                if f1.contains(y) { let i = choose|i: int| 0 <= i < f1.len() && f1[i] == y; if i < f0.len() { assert(f0[i] == y); } }
                if f0.contains(y) { let i = choose|i: int| 0 <= i < f0.len() && f0[i] == y; assert(f1[i] == y); }
                if y == idx { assert(f1[f1.len() - 1] == idx); }
            }
        }"""),
                   (r"vec_remove_value\(&mut self\.ordering, idx\);", "after", """        proof {
            let o0 = old(self).ordering@; let o1 = self.ordering@; let f0 = old(self).free_set@; let f1 = self.free_set@;
            assert forall|i: int| 0 <= i < o1.len() implies (#[trigger] o1[i]) < self.members@.len() && !f1.contains(o1[i]) by {
                let y = o1[i];
                assert(o1.contains(y));
                assert(o0.contains(y) && y != idx);
                let k = choose|k: int| 0 <= k < o0.len() && o0[k] == y;
                assert(o0[k] < old(self).members@.len() && !f0.contains(o0[k]));
            }
            assert forall|i: int| 0 <= i < f1.len() implies (#[trigger] f1[i]) < self.members@.len() && member_is_default(self.members@[f1[i] as int]) by {
                if i < f0.len() { assert(f1[i] == f0[i]); assert(f0[i] != idx) by { assert(f0.contains(f0[i])); } }
            }
            // idx was a member (it is not free and every slot is a member or free)
            assert(o0.contains(idx));
            assert forall|k: usize| k < self.members@.len() implies o1.contains(k) || f1.contains(k) by {
                if k != idx { if o0.contains(k) { assert(o1.contains(k)); } else { assert(f0.contains(k)); assert(f1.contains(k)); } } else { assert(f1.contains(idx)); }
            }
        }""")],
           requires=[("wf", "old(self).wf()"), ("slot", "idx < old(self).members@.len()")],
           ensures=[("wf", "final(self).wf()"),
                    ("C02-order", "final(self).order() == without(old(self).order(), idx)"),
                    ("C02-others-untouched", "final(self).members@.len() == old(self).members@.len() && forall|j: int| 0 <= j < old(self).members@.len() && j != idx ==> final(self).members@[j] == old(self).members@[j]"),
                    ("C02-slot-cleared", "member_is_default(final(self).members@[idx as int])"),
                    ("frame", "final(self).draw_target == old(self).draw_target && final(self).orphan_lines == old(self).orphan_lines && final(self).zombie_lines_count == old(self).zombie_lines_count && final(self).alignment == old(self).alignment")]),
    ],
)
