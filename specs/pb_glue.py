"""ProgressBar::{inc, dec, set_position} (src/progress_bar.rs): the glue that routes position
updates through AtomicPosition and redraw requests through the position bucket (C05, C07)."""
from vlib.unit import Unit, Fn, Decl, Raw, Lemma, Rw
from specs import contracts as K

SHIMS = r"""
// R2: Arc<Mutex<BarState>> and Arc<Mutex<Option<Ticker>>> are opaque handles here; the ticker
// handle carries a ghost log of the redraw requests issued through tick_inner().
#[verifier::external_body]
struct BarHandle { _p: core::marker::PhantomData<()> }
struct TickerHandle { requests: Ghost<Seq<Instant>> }
impl ProgressBar {
    spec fn reqs(&self) -> Seq<Instant> { self.ticker.requests@ }
}
// what one update call may do to the bucket and the request log (from the statement of C05:
// "inc/dec/set_position issue such requests under the same token-bucket law")
spec fn request_law(old_pb: ProgressBar, new_pb: ProgressBar) -> bool {
    ||| (new_pb.reqs() == old_pb.reqs() && new_pb.pos.ls() == old_pb.pos.ls())
    ||| (new_pb.reqs().len() == old_pb.reqs().len() + 1
         && new_pb.reqs() == old_pb.reqs().push(new_pb.reqs().last())
         && step(old_pb.pos.ls(), rel(new_pb.reqs().last(), old_pb.pos.start), new_pb.pos.ls(), true, 1_000_000)
         && burst_ok(new_pb.pos.ls(), rel(new_pb.reqs().last(), old_pb.pos.start), 1_000_000, 10))
}
"""

PB_DECL_RW = [Rw("R2", r"Arc<Mutex<BarState>>", "BarHandle"), Rw("R2", r"Arc<AtomicPosition>", "AtomicPosition"),
              Rw("R2", r"Arc<Mutex<Option<Ticker>>>", "TickerHandle")]

TICK_INNER = dict(file="src/progress_bar.rs", container="ProgressBar", name="tick_inner", stub=True,
                  sig_rewrites=[K.SELF_MUT],
                  ensures=[("log", "final(self).reqs() == old(self).reqs().push(now)"),
                           ("frame", "final(self).pos == old(self).pos")])

UNIT = Unit(
    name="pb_glue",
    properties=["C05", "C06", "C07"],
    prelude=["time", "atomics"],
    trusted=[
        "ProgressBar::tick_inner stubbed: it forwards to BarState::tick unless a steady ticker is installed (Mutex/ticker not modelled); its ghost log stands for 'a redraw request was issued'",
        "R2: ProgressBar.pos is a plain AtomicPosition (the Arc shared with BarState.state.pos is not modelled)",
        "Instant::now() < 2^63 ns (so that the time-range precondition of AtomicPosition::allow holds)",
    ],
    items=[
        Raw(K.INSTANT_NOW),
        Decl("src/state.rs", "struct", "AtomicPosition"),
        Decl("src/state.rs", "const", "INTERVAL"),
        Decl("src/state.rs", "const", "MAX_BURST", rewrites=[Rw("R1", r"\bMAX_BURST\b", "MAX_BURST_POS")]),
        Raw(K.LIMITER_SPEC),
        Decl("src/progress_bar.rs", "struct", "ProgressBar", rewrites=PB_DECL_RW),
        Raw(SHIMS),
        Fn(**dict(K.POS_INC, stub=True)),
        Fn(**dict(K.POS_DEC, stub=True)),
        Fn(**dict(K.POS_SET, stub=True)),
        Fn(**dict(K.POS_ALLOW, stub=True, proofs=[])),
        Fn(**TICK_INNER),
        Fn("src/progress_bar.rs", "ProgressBar", "inc", sig_rewrites=[K.SELF_MUT],
           ensures=[("C07-inc-wraps", "final(self).pos.pos@ as nat == (old(self).pos.pos@ as nat + delta as nat) % 0x1_0000_0000_0000_0000", ["C07"]),
                    ("C05-request-law", "request_law(*old(self), *final(self))", ["C05"])]),
        Fn("src/progress_bar.rs", "ProgressBar", "dec", sig_rewrites=[K.SELF_MUT],
           ensures=[("C07-dec-wraps", "final(self).pos.pos@ as int == (old(self).pos.pos@ as int - delta as int) % 0x1_0000_0000_0000_0000", ["C07"]),
                    ("C05-request-law", "request_law(*old(self), *final(self))", ["C05"])]),
        Fn("src/progress_bar.rs", "ProgressBar", "set_position", sig_rewrites=[K.SELF_MUT],
           ensures=[("C07-set-position", "final(self).pos.pos@ == pos", ["C07"]),
                    ("C05-request-law", "request_law(*old(self), *final(self))", ["C05"])]),
    ],
)
