"""C12 -- field width, alignment and truncation.  PaddedStringDisplay::fmt (src/style.rs)."""
import re
from vlib.unit import Unit, Fn, Decl, Raw, Lemma, Rw, RwFn
from specs import contracts as K

SPEC = r"""
// what a width-W field must add to the output (written from the statement of C12)
spec fn padded(s: Seq<char>, w: nat, al: Alignment) -> Seq<char> {
    let d = (w - cols(s)) as nat;
    match al {
        Alignment::Left => s + spaces(d),
        Alignment::Right => spaces(d) + s,
        Alignment::Center => spaces(d / 2) + s + spaces((d - d / 2) as nat),
    }
}
// truncation on printable ASCII (one column per char): keep exactly W columns from the start,
// the middle or the end
spec fn truncated(s: Seq<char>, w: nat, al: Alignment) -> Seq<char> {
    let e = (s.len() - w) as int;
    match al {
        Alignment::Left => s.subrange(0, w as int),
        Alignment::Right => s.subrange(e, s.len() as int),
        Alignment::Center => s.subrange(e / 2, e / 2 + w),
    }
}
"""

FMT_RW = [
    Rw("R5", r"self\.str\.len\(\)", "byte_len(self.str)", count=None),
    Rw("R5", r"self\.str\.get\(start\.\.end\)", "str_get(self.str, start, end)", count=1),
    Rw("R3", r"for _ in 0\.\.", "for _i in 0..", count=2),
]

UNIT = Unit(
    name="c12_padding",
    properties=["C12"],
    prelude=["fmt", "cols"],
    trusted=[
        "core::fmt::Formatter as a ghost character sink (prelude/fmt.rs)",
        "console::measure_text_width, str::len, str::get uninterpreted; on printable ASCII columns == chars == bytes (axiom_ascii)",
        "R13: Display::fmt verified as an inherent method",
    ],
    items=[
        Decl("src/style.rs", "enum", "Alignment", attrs="#[derive(Copy, Clone, PartialEq, Eq)]"),
        Decl("src/style.rs", "struct", "PaddedStringDisplay"),
        Raw(SPEC),
        Fn("src/style.rs", "fmt::Display for PaddedStringDisplay", "fmt", ret="r",
           sig_rewrites=[Rw("R7", r"fmt::Formatter<'_>", "Formatter"), Rw("R17", r"fmt::Result", "Result<(), FmtError>")],
           rewrites=FMT_RW,
           ensures=[
               ("C12-fits", "r.is_ok() && cols(self.str@) <= self.width ==> final(f).text() == old(f).text() + padded(self.str@, self.width as nat, self.align)"),
               ("C12-wide-untruncated", "r.is_ok() && cols(self.str@) > self.width && !self.truncate ==> final(f).text() == old(f).text() + self.str@"),
               ("C12-truncate-ascii", "r.is_ok() && printable_ascii(self.str@) && cols(self.str@) > self.width && self.truncate ==> final(f).text() == old(f).text() + truncated(self.str@, self.width as nat, self.align)"),
           ],
           findings=[
               ("C12-truncate-any-text", "r.is_ok() && cols(self.str@) > self.width && self.truncate ==> exists|t: Seq<char>| final(f).text() == old(f).text() + t && cols(t) == self.width",
                None, "for text that is not printable ASCII the byte offsets computed from column counts do not keep exactly W columns"),
           ],
           proofs=[(r"let cols = measure_text_width", "before", "        proof { axiom_cols_le_bytes(self.str@); if printable_ascii(self.str@) { axiom_ascii(self.str@); } }")],
           loops={0: {"invariant": ["f.text() == old(f).text() + spaces(_i as nat)", "left_pad == (match self.align { Alignment::Left => 0, Alignment::Right => diff, Alignment::Center => diff / 2 })"]},
                  1: {"invariant": ["f.text() == old(f).text() + spaces(left_pad as nat) + self.str@ + spaces(_i as nat)"]}}),
    ],
)
