"""C07 -- position and length bookkeeping.  AtomicPosition::{inc,dec,set,reset},
ProgressState::{pos,len,set_pos,set_len,is_finished}, BarState::{set_length,inc_length,
dec_length,unset_length,reset,finish_using_style,tick} and the ProgressBar glue
{inc,dec,set_position}.  (fraction() is float code: Kani, kani/state.rs.)"""
from vlib.unit import Unit, Fn, Decl, Raw, Lemma, Rw
from specs import contracts as K

UNIT = Unit(
    name="c07_position",
    properties=["C06", "C07"],
    prelude=["time", "atomics", "tes_opaque", "est_opaque", "target_opaque", "style_opaque"],
    trusted=[
        "portable_atomic shim: fetch_add/fetch_sub wrap modulo 2^64 and never panic; atomicity under concurrent callers is the hardware's (schedules are not modelled)",
        "R2: Arc<AtomicPosition> is a plain field; that ProgressBar.pos and BarState.state.pos are the same allocation (ProgressBar::with_draw_target passes pos.clone()) is not checked",
        "opaque Estimator / TabExpandedString / ProgressDrawTarget / ProgressStyle (prelude/bar_opaque.rs): only their frame is used here",
        "stubbed callees BarState::{draw, update_estimate_and_draw}: frame contract assumed here, see stubbed_callees.verified_in",
    ],
    items=[
        Raw(K.INSTANT_NOW),
        Decl("src/state.rs", "struct", "AtomicPosition"),
        Decl("src/state.rs", "const", "INTERVAL"),
        Decl("src/state.rs", "const", "MAX_BURST"),
        Decl("src/state.rs", "enum", "Status"),
        Decl("src/state.rs", "enum", "Reset"),
        Decl("src/state.rs", "enum", "ProgressFinish", rewrites=[Rw("R15", r"Cow<'static, str>", "String", count=2)]),
        Decl("src/state.rs", "struct", "ProgressState", rewrites=[Rw("R2", r"Arc<AtomicPosition>", "AtomicPosition")]),
        Decl("src/state.rs", "struct", "BarState"),
        Raw(K.BAR_SPEC), Raw(K.TIME_OK),
        # ---- AtomicPosition
        Fn(**K.POS_INC),
        Fn(**K.POS_DEC),
        Fn(**K.POS_SET),
        # the state a new bar starts with (was hash-pinned in pins_bar): position 0, full bucket, reference time = a clock reading
        Fn("src/state.rs", "AtomicPosition", "new", ret="r",
           ensures=[("C07-starts-at-zero", "r.pos@ == 0 && r.pos.rmws@ == 0 && r.pos.stores@ == 0", ["C07"]),
                    ("C05-starts-with-a-full-bucket", "r.capacity@ == 10 && r.prev@ == 0", ["C05"]),
                    ("C05-reference-time-is-a-clock-reading", "r.start.ns() < 0x8000_0000_0000_0000", ["C05"])]),
        Fn("src/state.rs", "AtomicPosition", "reset", sig_rewrites=[K.SELF_MUT], rewrites=[K.AORD(1)],
           ensures=[("C07-reset-zero", "final(self).pos@ == 0"),
                    ("C05-C07-reset-keeps-the-token-bucket", "final(self).capacity@ == old(self).capacity@ && final(self).start == old(self).start")]),
        # ---- ProgressState
        Fn("src/state.rs", "ProgressState", "is_finished", ensures=[("def", "r == self.finished()")]),
        Fn("src/state.rs", "ProgressState", "pos", rewrites=[K.AORD(1)], ensures=[("C07-pos", "r == self.pos.pos@")]),
        Fn("src/state.rs", "ProgressState", "len", ensures=[("C07-len", "r == self.len")]),
        Fn("src/state.rs", "ProgressState", "set_pos",
           ensures=[("C07-set-pos", "final(self).pos.pos@ == pos"), ("frame", "final(self).len == old(self).len && final(self).status == old(self).status")]),
        Fn("src/state.rs", "ProgressState", "set_len",
           ensures=[("C07-set-len", "final(self).len == Some(len)"), ("frame", "final(self).pos.pos@ == old(self).pos.pos@ && final(self).status == old(self).status")]),
        # ---- BarState
        Fn(**dict(K.BAR_DRAW, stub=True)),
        Fn(**dict(K.BAR_UPDATE_AND_DRAW, stub=True)),
        Fn("src/state.rs", "BarState", "set_length",
           requires=K.BAR_REQ,
           ensures=[K.BAR_WF_POST, ("C07-set-length", "final(self).state.len == Some(len)"), ("C07-pos-untouched", "final(self).state.pos.pos@ == old(self).state.pos.pos@"),
                    ("frame", "bar_texts_same(*old(self), *final(self)) && final(self).state.status == old(self).state.status")]),
        Fn("src/state.rs", "BarState", "unset_length",
           requires=K.BAR_REQ,
           ensures=[K.BAR_WF_POST, ("C07-unset-length", "final(self).state.len == None::<u64>"), ("C07-pos-untouched", "final(self).state.pos.pos@ == old(self).state.pos.pos@"),
                    ("frame", "bar_texts_same(*old(self), *final(self)) && final(self).state.status == old(self).state.status")]),
        Fn("src/state.rs", "BarState", "inc_length",
           requires=K.BAR_REQ,
           ensures=[K.BAR_WF_POST, ("C07-inc-length-saturates",
                     "final(self).state.len == (match old(self).state.len { Some(l) => Some(if l as nat + delta as nat > u64::MAX as nat { u64::MAX } else { (l + delta) as u64 }), None => None::<u64> })"),
                    ("C07-pos-untouched", "final(self).state.pos.pos@ == old(self).state.pos.pos@"),
                    ("frame", "bar_texts_same(*old(self), *final(self)) && final(self).state.status == old(self).state.status")]),
        Fn("src/state.rs", "BarState", "dec_length",
           requires=K.BAR_REQ,
           ensures=[K.BAR_WF_POST, ("C07-dec-length-saturates",
                     "final(self).state.len == (match old(self).state.len { Some(l) => Some(if l < delta { 0u64 } else { (l - delta) as u64 }), None => None::<u64> })"),
                    ("C07-pos-untouched", "final(self).state.pos.pos@ == old(self).state.pos.pos@"),
                    ("frame", "bar_texts_same(*old(self), *final(self)) && final(self).state.status == old(self).state.status")]),
        Fn("src/state.rs", "BarState", "tick",
           requires=K.BAR_REQ,
           ensures=[K.BAR_WF_POST, ("tick-saturates", "final(self).state.tick == (if old(self).state.tick == u64::MAX { u64::MAX } else { (old(self).state.tick + 1) as u64 })"),
                    ("C07-untouched", "final(self).state.pos.pos@ == old(self).state.pos.pos@ && final(self).state.len == old(self).state.len"),
                    ("frame", "bar_texts_same(*old(self), *final(self)) && final(self).state.status == old(self).state.status")]),
        Fn(**K.BAR_RESET),
        Fn(**K.BAR_FINISH),
    ],
)


# ---------------------------------------------------------------------------------------------
# Public API glue (src/progress_bar.rs): every ProgressBar method that only locks the state and
# forwards to a BarState method is verified to have exactly the effect of that method with the
# documented arguments (finish -> AndLeave, finish_and_clear -> AndClear, abandon -> Abandon, ...,
# reset -> Reset::All, reset_eta -> Reset::Eta, ...).  The callee is used through its contract only.
import re as _re


def _callee(name):
    for it in UNIT.items:
        if isinstance(it, Fn) and it.container == "BarState" and it.name == name:
            return it
    raise KeyError(name)


def _glue_ensures(callee, subst):
    out = []
    for c in _callee(callee).ensures:
        e = c.expr
        if _re.search(r"\bnow\b", e):
            continue          # the instant is read inside the glue function
        e = e.replace("*old(self)", "@O@").replace("*final(self)", "@F@").replace("old(self)", "@O@").replace("final(self)", "@F@")
        e = e.replace("@O@", "old(self).state").replace("@F@", "final(self).state")
        for k, v in subst.items():
            e = _re.sub(r"\b%s\b" % k, v, e)
        out.append((c.label, e, c.props))
    out.append(("C07-handle-position-untouched", "final(self).pos == old(self).pos"))
    return out


PB_DECL_RW = [Rw("R2", r"Arc<Mutex<BarState>>", "BarState"), Rw("R2", r"Arc<AtomicPosition>", "AtomicPosition"),
              Rw("R2", r"Arc<Mutex<Option<Ticker>>>", "TickerHandle")]
PB_REQ = [("target-wf", "old(self).state.draw_target.wf2()")]
STATE = Rw("R2", r"self\s*\.state\(\)", "self.state", count="any")
STR_ARG = [Rw("R15", r"impl Into<Cow<'static, str>>", "String")]
INTO = Rw("R15", r"\.into\(\)", "", count="any")


def _glue(name, callee, subst, sig=(), rw=(), extra=()):
    return Fn("src/progress_bar.rs", "ProgressBar", name, sig_rewrites=[K.SELF_MUT] + list(sig), rewrites=[STATE] + list(rw),
              requires=PB_REQ, ensures=_glue_ensures(callee, subst) + list(extra))


UNIT.items += [
    Raw("#[verifier::external_body]\nstruct TickerHandle { _p: core::marker::PhantomData<()> }\n"
        "// R5: `on_finish.clone()` (derived Clone: a copy)\n#[verifier::external_body]\nfn clone_finish(f: &ProgressFinish) -> (r: ProgressFinish) ensures r == *f { unimplemented!() }\n"),
    Decl("src/progress_bar.rs", "struct", "ProgressBar", rewrites=PB_DECL_RW),
    _glue("finish", "finish_using_style", {"finish": "(ProgressFinish::AndLeave)"}),
    _glue("finish_and_clear", "finish_using_style", {"finish": "(ProgressFinish::AndClear)"}),
    _glue("abandon", "finish_using_style", {"finish": "(ProgressFinish::Abandon)"}),
    _glue("finish_with_message", "finish_using_style", {"finish": "(ProgressFinish::WithMessage(msg))"}, sig=STR_ARG, rw=[INTO]),
    _glue("abandon_with_message", "finish_using_style", {"finish": "(ProgressFinish::AbandonWithMessage(msg))"}, sig=STR_ARG, rw=[INTO]),
    _glue("finish_using_style", "finish_using_style", {"finish": "(old(self).state.on_finish)"},
          rw=[Rw("R5", r"state\.on_finish\.clone\(\)", "clone_finish(&state.on_finish)"), Rw("R2", r"let mut state = self\.state;", "let state = &mut self.state;")]),
    _glue("reset", "reset", {"mode": "(Reset::All)"}),
    _glue("reset_eta", "reset", {"mode": "(Reset::Eta)"}),
    _glue("reset_elapsed", "reset", {"mode": "(Reset::Elapsed)"}),
    _glue("set_length", "set_length", {}),
    _glue("unset_length", "unset_length", {}),
    _glue("inc_length", "inc_length", {}),
    _glue("dec_length", "dec_length", {}),
    Fn("src/progress_bar.rs", "ProgressBar", "is_finished", ret="r", rewrites=[STATE], ensures=[("C04-C06-is-finished", "r == self.state.state.finished()")]),
    Fn("src/progress_bar.rs", "ProgressBar", "position", ret="r", rewrites=[STATE], ensures=[("C07-position-getter", "r == self.state.state.pos.pos@")]),
    Fn("src/progress_bar.rs", "ProgressBar", "length", ret="r", rewrites=[STATE], ensures=[("C07-length-getter", "r == self.state.state.len")]),
]
