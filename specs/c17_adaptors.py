"""ProgressBarIter's Iterator / DoubleEndedIterator / ExactSizeIterator / io::Read / io::BufRead /
io::Seek / io::Write impls (src/iter.rs): transparent (exactly the inner call, its result and
buffers handed through unchanged) and counting exactly the items / bytes transferred (C17)."""
from vlib.unit import Unit, Fn, Decl, Raw, Lemma, Rw, RwFn

IMPL = "impl ProgressBarIter<Src>"
AIMPL = "impl ProgressBarIter<ASrc>"
IOR = [Rw("R17", r"io::Result<", "Result<", count="any"), Rw("R17", r"Result<([^<>]*(?:<[^<>]*>)?[^<>]*)>", r"Result<\1, IoError>", count="any"),
       Rw("R10", r"io::SeekFrom", "SeekFrom", count="any"), Rw("R10", r"io::IoSlice\b", "IoSlice<'_>", count="any")]

SPEC = r"""
spec fn add64(a: u64, b: nat) -> u64 { ((a as nat + b) % 0x1_0000_0000_0000_0000nat) as u64 }
// the bar advanced by exactly n and nothing else about it changed
spec fn advanced(o: ProgressBar, n_: ProgressBar, n: nat) -> bool {
    n_.pos == add64(o.pos, n) && n_.finished == o.finished && n_.finishes == o.finishes
}
// exhaustion: an unfinished bar is finished exactly once, a finished one is left alone
spec fn exhausted(o: ProgressBar, n_: ProgressBar) -> bool {
    n_.finished && (if o.finished { n_ == o } else { n_.finishes@ == o.finishes@ + 1 })
}
"""

AIOR = IOR + [Rw("R10", r"mut self: Pin<&mut Self>", "&mut self", count="any"), Rw("R10", r"self: Pin<&mut Self>", "&mut self", count="any")]
PIN = Rw("R10", r"Pin::new\(&mut self\.it\)", "self.it")


def afn(container, name, **kw):
    return Fn("src/iter.rs", container, name, emit_as=AIMPL, **kw)


def fn(container, name, **kw):
    return Fn("src/iter.rs", container, name, emit_as=IMPL, **kw)

UNIT = Unit(
    name="c17_adaptors",
    properties=["C17"],
    prelude=["srcmodel"],
    rlimit=30,
    trusted=[
        "prelude/srcmodel.rs: one model source / sink / seeker type (sync and async) whose methods have arbitrary results and log their arguments and results; stands for every type parameter (parametricity of the wrappers assumed)",
        "ProgressBar::{inc, set_position, is_finished, finish_using_style} enter through the contracts verified in c07_position / pb_glue / bar_draw (position arithmetic modulo 2^64, finished flag)",
        "Pin::new(&mut x) on an Unpin value and Pin::get_mut are the identity (tokio / futures impls); those crates are not available offline, the impls are checked at source level",
        "R5: Result::map / Poll::map with a closure desugared to match",
    ],
    items=[
        Decl("src/iter.rs", "struct", "ProgressBarIter"),
        Raw(SPEC),
        fn("Iterator for ProgressBarIter", "next", ret="r", sig_rewrites=[Rw("R10", r"Option<Self::Item>", "Option<u64>")],
           ensures=[("C17-transparent", "final(self).it.log@ == old(self).it.log@.push(Ev::Next(r))"),
                    ("C17-counts-items", "r is Some ==> advanced(old(self).progress, final(self).progress, 1)"),
                    ("C17-exhaustion-finishes", "r is None ==> exhausted(old(self).progress, final(self).progress)", ["C17", "C04"])]),
        fn("DoubleEndedIterator for ProgressBarIter", "next_back", ret="r", sig_rewrites=[Rw("R10", r"Option<Self::Item>", "Option<u64>")],
           ensures=[("C17-transparent", "final(self).it.log@ == old(self).it.log@.push(Ev::NextBack(r))"),
                    ("C17-counts-items", "r is Some ==> advanced(old(self).progress, final(self).progress, 1)"),
                    ("C17-exhaustion-finishes", "r is None ==> exhausted(old(self).progress, final(self).progress)", ["C17", "C04"])]),
        fn("io::Read for ProgressBarIter", "read", ret="r", sig_rewrites=IOR,
           ensures=[("C17-transparent", "final(self).it.log@ == old(self).it.log@.push(Ev::Read(final(buf)@, r))"),
                    ("C17-counts-bytes", "match r { Ok(n) => advanced(old(self).progress, final(self).progress, n as nat), Err(_) => final(self).progress == old(self).progress }")]),
        fn("io::Read for ProgressBarIter", "read_vectored", ret="r", sig_rewrites=IOR,
           ensures=[("C17-transparent", "final(self).it.log@ == old(self).it.log@.push(Ev::ReadVectored(r))"),
                    ("C17-counts-bytes", "match r { Ok(n) => advanced(old(self).progress, final(self).progress, n as nat), Err(_) => final(self).progress == old(self).progress }")]),
        fn("io::Read for ProgressBarIter", "read_to_string", ret="r", sig_rewrites=IOR,
           ensures=[("C17-transparent", "final(self).it.log@ == old(self).it.log@.push(Ev::ReadToString(final(buf)@, r))"),
                    ("C17-counts-bytes", "match r { Ok(n) => advanced(old(self).progress, final(self).progress, n as nat), Err(_) => final(self).progress == old(self).progress }")]),
        fn("io::Read for ProgressBarIter", "read_exact", ret="r", sig_rewrites=IOR,
           ensures=[("C17-transparent", "final(self).it.log@ == old(self).it.log@.push(Ev::ReadExact(final(buf)@, r))"),
                    ("C17-counts-bytes", "match r { Ok(_) => advanced(old(self).progress, final(self).progress, old(buf)@.len()), Err(_) => final(self).progress == old(self).progress }")]),
        fn("io::BufRead for ProgressBarIter", "fill_buf", ret="r", sig_rewrites=IOR,
           ensures=[("C17-transparent", "final(self).it.log@ == old(self).it.log@.push(Ev::FillBuf(fill_view(r)))"),
                    ("C17-fill-buf-transfers-nothing", "final(self).progress == old(self).progress")]),
        fn("io::BufRead for ProgressBarIter", "consume",
           ensures=[("C17-transparent", "final(self).it.log@ == old(self).it.log@.push(Ev::Consume(amt))"),
                    ("C17-counts-bytes", "advanced(old(self).progress, final(self).progress, amt as nat)")]),
        fn("io::Seek for ProgressBarIter", "seek", ret="r", sig_rewrites=IOR,
           rewrites=[Rw("R10", r"io::SeekFrom", "SeekFrom", count="any"),Rw("R5", r"self\.it\.seek\(f\)\.map\(\|pos\| \{\s*self\.progress\.set_position\(pos\);\s*pos\s*\}\)",
                        "match self.it.seek(f) { Ok(pos) => { self.progress.set_position(pos); Ok(pos) } Err(e) => Err(e) }", count="any")],
           ensures=[("C17-transparent", "final(self).it.log@ == old(self).it.log@.push(Ev::Seek(f, r))"),
                    ("C17-seek-sets-position", "match r { Ok(p) => final(self).progress.pos == p && final(self).progress.finished == old(self).progress.finished, Err(_) => final(self).progress == old(self).progress }")]),
        fn("io::Seek for ProgressBarIter", "stream_position", ret="r", sig_rewrites=IOR,
           ensures=[("C17-transparent", "final(self).it.log@ == old(self).it.log@.push(Ev::StreamPosition(r))"),
                    ("C17-query-transfers-nothing", "final(self).progress == old(self).progress")]),
        fn("io::Write for ProgressBarIter", "write", ret="r", sig_rewrites=IOR,
           rewrites=[Rw("R5", r"self\.it\.write\(buf\)\.map\(\|inc\| \{\s*self\.progress\.inc\(inc as u64\);\s*inc\s*\}\)",
                        "match self.it.write(buf) { Ok(inc) => { self.progress.inc(inc as u64); Ok(inc) } Err(e) => Err(e) }", count="any")],
           ensures=[("C17-transparent", "final(self).it.log@ == old(self).it.log@.push(Ev::Write(buf@, r))"),
                    ("C17-counts-bytes", "match r { Ok(n) => advanced(old(self).progress, final(self).progress, n as nat), Err(_) => final(self).progress == old(self).progress }")]),
        fn("io::Write for ProgressBarIter", "write_vectored", ret="r", sig_rewrites=IOR,
           rewrites=[Rw("R5", r"self\.it\.write_vectored\(bufs\)\.map\(\|inc\| \{\s*self\.progress\.inc\(inc as u64\);\s*inc\s*\}\)",
                        "match self.it.write_vectored(bufs) { Ok(inc) => { self.progress.inc(inc as u64); Ok(inc) } Err(e) => Err(e) }", count="any")],
           ensures=[("C17-transparent", "final(self).it.log@ == old(self).it.log@.push(Ev::WriteVectored(r))"),
                    ("C17-counts-bytes", "match r { Ok(n) => advanced(old(self).progress, final(self).progress, n as nat), Err(_) => final(self).progress == old(self).progress }")]),
        fn("io::Write for ProgressBarIter", "flush", ret="r", sig_rewrites=IOR,
           ensures=[("C17-transparent", "final(self).it.log@ == old(self).it.log@.push(Ev::Flush(r))"),
                    ("C17-flush-transfers-nothing", "final(self).progress == old(self).progress")]),
        # ---- tokio / futures impls (feature gated in /repo; the crates are not available offline, so these are checked at source level only)
        afn("tokio::io::AsyncWrite for ProgressBarIter", "poll_write", ret="r", sig_rewrites=AIOR,
            rewrites=[Rw("R5", r"Pin::new\(&mut self\.it\)\.poll_write\(cx, buf\)\.map\(\|poll\| \{\s*poll\.map\(\|inc\| \{\s*self\.progress\.inc\(inc as u64\);\s*inc\s*\}\)\s*\}\)",
                         "match self.it.poll_write(cx, buf) { Poll::Ready(Ok(inc)) => { self.progress.inc(inc as u64); Poll::Ready(Ok(inc)) } Poll::Ready(Err(e)) => Poll::Ready(Err(e)), Poll::Pending => Poll::Pending }")],
            ensures=[("C17-transparent", "final(self).it.log@ == old(self).it.log@.push(AEv::PollWrite(buf@, r))"),
                     ("C17-counts-bytes", "match r { Poll::Ready(Ok(n)) => advanced(old(self).progress, final(self).progress, n as nat), _ => final(self).progress == old(self).progress }")]),
        afn("tokio::io::AsyncWrite for ProgressBarIter", "poll_flush", ret="r", sig_rewrites=AIOR, rewrites=[PIN],
            ensures=[("C17-transparent", "final(self).it.log@ == old(self).it.log@.push(AEv::PollFlush(r))"), ("C17-transfers-nothing", "final(self).progress == old(self).progress")]),
        afn("tokio::io::AsyncWrite for ProgressBarIter", "poll_shutdown", ret="r", sig_rewrites=AIOR, rewrites=[PIN],
            ensures=[("C17-transparent", "final(self).it.log@ == old(self).it.log@.push(AEv::PollShutdown(r))"), ("C17-transfers-nothing", "final(self).progress == old(self).progress")]),
        afn("tokio::io::AsyncRead for ProgressBarIter", "poll_read", ret="r", sig_rewrites=AIOR, rewrites=[PIN],
            ensures=[("C17-transparent", "final(self).it.log@ == old(self).it.log@.push(AEv::PollRead(final(buf).filled@, r))"),
                     ("C17-counts-bytes", "advanced(old(self).progress, final(self).progress, (final(buf).filled@.len() - old(buf).filled@.len()) as nat)")]),
        afn("tokio::io::AsyncSeek for ProgressBarIter", "start_seek", ret="r", sig_rewrites=AIOR, rewrites=[PIN],
            ensures=[("C17-transparent", "final(self).it.log@ == old(self).it.log@.push(AEv::StartSeek(position, r))"), ("C17-transfers-nothing", "final(self).progress == old(self).progress")]),
        afn("tokio::io::AsyncSeek for ProgressBarIter", "poll_complete", ret="r", sig_rewrites=AIOR, rewrites=[PIN],
            ensures=[("C17-transparent", "final(self).it.log@ == old(self).it.log@.push(AEv::PollComplete(r))"),
                     ("C17-async-seek-sets-position", "match r { Poll::Ready(Ok(p)) => final(self).progress.pos == p && final(self).progress.finished == old(self).progress.finished, _ => final(self).progress == old(self).progress }")]),
        afn("tokio::io::AsyncBufRead for ProgressBarIter", "poll_fill_buf", ret="r", sig_rewrites=AIOR,
            rewrites=[Rw("R10", r"let this = self\.get_mut\(\);", "let this = self;"), Rw("R10", r"Pin::new\(&mut this\.it\)", "this.it")],
            ensures=[("C17-transparent", "final(self).it.log@ == old(self).it.log@.push(AEv::PollFillBuf(pfill_view(r)))"),
                     ("C17-async-fill-buf-transfers-nothing", "final(self).progress == old(self).progress")]),
        afn("tokio::io::AsyncBufRead for ProgressBarIter", "consume", rename="async_consume", sig_rewrites=AIOR, rewrites=[PIN],
            ensures=[("C17-transparent", "final(self).it.log@ == old(self).it.log@.push(AEv::Consume(amt))"),
                     ("C17-async-consume-counts-bytes", "advanced(old(self).progress, final(self).progress, amt as nat)")]),
        afn("futures_core::Stream for ProgressBarIter", "poll_next", ret="r",
            sig_rewrites=AIOR + [Rw("R10", r"std::pin::Pin<&mut Self>", "&mut Self"), Rw("R10", r"std::task::Context", "Context"), Rw("R10", r"std::task::Poll<Option<Self::Item>>", "Poll<Option<u64>>")],
            rewrites=[Rw("R10", r"let this = self\.get_mut\(\);", "let this = self;"), Rw("R10", r"std::pin::Pin::new\(&mut this\.it\)", "this.it"), Rw("R10", r"std::task::Poll::", "Poll::", count=3)],
            ensures=[("C17-transparent", "final(self).it.log@ == old(self).it.log@.push(AEv::PollNext(r))"),
                     ("C17-counts-items", "r matches Poll::Ready(Some(x)) ==> advanced(old(self).progress, final(self).progress, 1)"),
                     ("C17-pending-transfers-nothing", "r is Pending ==> final(self).progress == old(self).progress"),
                     ("C17-exhaustion-finishes", "r matches Poll::Ready(None) ==> final(self).progress.finished")]),
    ],
)
