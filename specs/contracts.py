"""Contracts shared between the unit that VERIFIES a function and the units that use the same
function as a stubbed callee (assume-guarantee: same clause text on both sides)."""
from vlib.unit import Rw

INSTANT_NOW = r"""
impl Instant {
    #[verifier::external_body]
    pub fn now() -> (r: Instant)
        ensures r.ns() < 0x8000_0000_0000_0000   // ASSUMED: the monotonic clock reading fits 63 bits of nanoseconds (292 years)
    { unimplemented!() }
}
"""

SELF_MUT = Rw("R2", r"&self", "&mut self")


def AORD(n):
    # purely syntactic (the atomics shim names its orderings AOrd): any number of occurrences
    return Rw("R2", r"\bOrdering::", "AOrd::", count="any")


# spec vocabulary over the extracted BarState / ProgressState
BAR_SPEC = r"""
impl ProgressState {
    spec fn finished(&self) -> bool { !(self.status is InProgress) }
}
spec fn bar_texts_same(a: BarState, b: BarState) -> bool {
    &&& a.state.message.original() == b.state.message.original()
    &&& a.state.message.tab_width() == b.state.message.tab_width()
    &&& a.state.prefix.original() == b.state.prefix.original()
    &&& a.state.prefix.tab_width() == b.state.prefix.tab_width()
    &&& a.tab_width == b.tab_width
    &&& a.style.tab_width() == b.style.tab_width()
    &&& a.on_finish == b.on_finish
}
// the logical state a user can observe through the getters: position, length, finished status,
// message, prefix (and the tick counter behind {spinner})
spec fn logical_same(a: BarState, b: BarState) -> bool {
    &&& a.state.pos.pos@ == b.state.pos.pos@
    &&& a.state.len == b.state.len
    &&& a.state.status == b.state.status
    &&& a.state.tick == b.state.tick
    &&& a.state.started == b.state.started
    &&& bar_texts_same(a, b)
}
"""

IO_RESULT = Rw("R17", r"io::Result<\(\)>", "Result<(), IoError>")

POS_SET = dict(file="src/state.rs", container="AtomicPosition", name="set", sig_rewrites=[SELF_MUT], rewrites=[AORD(1)],
               ensures=[("C07-set", "final(self).pos@ == pos"),
                        ("frame", "final(self).capacity@ == old(self).capacity@ && final(self).prev@ == old(self).prev@ && final(self).start == old(self).start")])

# BarState::draw -- at this level only the frame: drawing never changes the logical state
TIME_OK = "spec fn time_ok(t: Instant) -> bool { t.ns() < 0x8000_0000_0000_0000 }\n"
# every BarState entry point: the draw target is well formed before and after, and `now` is a clock reading
BAR_REQ = [("target-wf", "old(self).draw_target.wf2()"), ("clock", "time_ok(now)")]
BAR_WF_POST = ("target-wf", "final(self).draw_target.wf2()")

BAR_DRAW = dict(file="src/state.rs", container="BarState", name="draw", ret="r",
                sig_rewrites=[IO_RESULT],
                requires=BAR_REQ,
                ensures=[("frame-logical", "logical_same(*old(self), *final(self))"), BAR_WF_POST,
                         ("estimator-untouched", "final(self).state.est == old(self).state.est")])

BAR_UPDATE_AND_DRAW = dict(file="src/state.rs", container="BarState", name="update_estimate_and_draw",
                           requires=BAR_REQ,
                           ensures=[("frame-logical", "logical_same(*old(self), *final(self))"), BAR_WF_POST])

TRACKERS_RESET = Rw("R5", r"for tracker in self\.style\.format_map\.values_mut\(\) \{\s*tracker\.reset\(&self\.state, now\);\s*\}",
                    "self.style.reset_trackers(&self.state, now);")
TRACKERS_TICK = Rw("R5", r"for tracker in self\.style\.format_map\.values_mut\(\) \{\s*tracker\.tick\(&self\.state, now\);\s*\}",
                   "self.style.tick_trackers(&self.state, now);")

BAR_RESET = dict(file="src/state.rs", container="BarState", name="reset",
                 rewrites=[TRACKERS_RESET],
                 requires=BAR_REQ,
                 ensures=[BAR_WF_POST,
                     ("C07-reset-all", "mode is All ==> final(self).state.pos.pos@ == 0 && final(self).state.status is InProgress"),
                     ("C07-reset-partial", "!(mode is All) ==> final(self).state.pos.pos@ == old(self).state.pos.pos@ && final(self).state.status == old(self).state.status"),
                     ("C07-len-untouched", "final(self).state.len == old(self).state.len"),
                     ("elapsed", "(mode is All || mode is Elapsed) ==> final(self).state.started == now"),
                     ("C09-estimator-forgets-everything-before-the-reset-instant", "final(self).state.est.anchor() == now"),
                     ("frame", "bar_texts_same(*old(self), *final(self)) && final(self).state.tick == old(self).state.tick"),
                 ])

BAR_FINISH = dict(file="src/state.rs", container="BarState", name="finish_using_style",
                  requires=BAR_REQ,
                  ensures=[BAR_WF_POST,
                      ("C04-finished", "final(self).state.finished()"),
                      ("C04-status", "final(self).state.status == (if finish is AndClear { Status::DoneHidden } else { Status::DoneVisible })"),
                      ("C04-C07-position",
                       "final(self).state.pos.pos@ == (if (finish is AndLeave || finish is WithMessage || finish is AndClear) && old(self).state.len.is_some() { old(self).state.len.unwrap() } else { old(self).state.pos.pos@ })"),
                      ("C07-len-untouched", "final(self).state.len == old(self).state.len"),
                      ("C04-message",
                       "match finish { ProgressFinish::WithMessage(m) => final(self).state.message.original() == m@ && final(self).state.message.tab_width() == old(self).tab_width, "
                       "ProgressFinish::AbandonWithMessage(m) => final(self).state.message.original() == m@ && final(self).state.message.tab_width() == old(self).tab_width, "
                       "_ => final(self).state.message.original() == old(self).state.message.original() && final(self).state.message.tab_width() == old(self).state.message.tab_width() }"),
                      ("frame", "final(self).state.prefix.original() == old(self).state.prefix.original() && final(self).state.prefix.tab_width() == old(self).state.prefix.tab_width() "
                                "&& final(self).tab_width == old(self).tab_width && final(self).style.tab_width() == old(self).style.tab_width() && final(self).state.tick == old(self).state.tick"),
                  ])

LIMITER_SPEC = r"""
// ---- abstract token bucket (written from the property text: burst B, one token per interval I)
pub struct LS { pub cap: nat, pub prev: int }
spec fn credit(s: LS, t: int, I: int) -> int { s.cap * I + (t - s.prev) }
// one call of allow() at time `now` (for `now` not earlier than the bucket's reference time)
spec fn step(s: LS, now: int, s2: LS, res: bool, I: int) -> bool {
    &&& (!res ==> s2 == s)                                            // (a) a refused request changes nothing
    &&& (res && s.prev <= now ==> credit(s, now, I) >= I               // (b) a paint needs one interval of credit
                 && credit(s2, now, I) <= credit(s, now, I) - I        //     and consumes it
                 && s2.prev <= now)
    &&& (s.prev <= now && now - s.prev >= I ==> res)                   // (d) one interval after the last paint => painted
}
// (c) "burst B": right after a paint less than B intervals of credit are left
spec fn burst_ok(s2: LS, now: int, I: int, B: int) -> bool { credit(s2, now, I) < B * I }

impl AtomicPosition {
    spec fn ls(&self) -> LS { LS { cap: self.capacity@ as nat, prev: self.prev@ as int } }
}
spec fn rel(now: Instant, start: Instant) -> int { now.ns() - start.ns() }
"""


RATELIMITER_SPEC = r"""
impl RateLimiter {
    spec fn ls(&self) -> LS { LS { cap: self.capacity as nat, prev: self.prev.ns() as int } }
    spec fn ival(&self) -> int { self.interval as int * 1_000_000 }
    spec fn wf(&self) -> bool { self.interval >= 1 }
}
"""

POS_ALLOW = dict(file="src/state.rs", container="AtomicPosition", name="allow", ret="res", props=["C05"],
           sig_rewrites=[Rw("R2", r"&self", "&mut self")],
           rewrites=[Rw("R2", r"\bOrdering::", "AOrd::", count=4),
                     Rw("R14", r"\bMAX_BURST\b", "MAX_BURST_POS", count=1)],
           requires=[("time-range", "now.ns() - old(self).start.ns() < 0x1_0000_0000_0000_0000")],
           ensures=[
               ("frame", "final(self).start == old(self).start && final(self).pos@ == old(self).pos@"),
               ("C05-step", "step(old(self).ls(), rel(now, old(self).start), final(self).ls(), res, 1_000_000)"),
               ("C05-burst", "res ==> burst_ok(final(self).ls(), rel(now, old(self).start), 1_000_000, 10)"),
           ],
           proofs=[(r"capacity = Ord::min", "before", r"""
        proof {
            let d = diff as int;
            assert(d == 1_000_000 * (d / 1_000_000) + d % 1_000_000) by (nonlinear_arith);
            assert(0 <= d % 1_000_000 < 1_000_000) by (nonlinear_arith);
            assert(d >= 1_000_000 ==> d / 1_000_000 >= 1) by (nonlinear_arith);
            assert(d / 1_000_000 <= d) by (nonlinear_arith) requires d >= 0;
        }
""")])

_POS_FRAME = ("frame", "final(self).capacity@ == old(self).capacity@ && final(self).prev@ == old(self).prev@ && final(self).start == old(self).start")
POS_INC = dict(file="src/state.rs", container="AtomicPosition", name="inc", sig_rewrites=[SELF_MUT], rewrites=[AORD(1)],
               ensures=[("C07-inc-wraps", "final(self).pos@ as nat == (old(self).pos@ as nat + delta as nat) % 0x1_0000_0000_0000_0000"), _POS_FRAME,
                        ("C07-inc-is-one-atomic-read-modify-write", "final(self).pos.rmws@ == old(self).pos.rmws@ + 1 && final(self).pos.stores == old(self).pos.stores")])
POS_DEC = dict(file="src/state.rs", container="AtomicPosition", name="dec", sig_rewrites=[SELF_MUT], rewrites=[AORD(1)],
               ensures=[("C07-dec-wraps", "final(self).pos@ as int == (old(self).pos@ as int - delta as int) % 0x1_0000_0000_0000_0000"), _POS_FRAME,
                        ("C07-dec-is-one-atomic-read-modify-write", "final(self).pos.rmws@ == old(self).pos.rmws@ + 1 && final(self).pos.stores == old(self).pos.stores")])

LIMITER_SPEC_NOPOS = r"""
// ---- abstract token bucket (written from the property text: burst B, one token per interval I)
pub struct LS { pub cap: nat, pub prev: int }
spec fn credit(s: LS, t: int, I: int) -> int { s.cap * I + (t - s.prev) }
// one call of allow() at time `now` (for `now` not earlier than the bucket's reference time)
spec fn step(s: LS, now: int, s2: LS, res: bool, I: int) -> bool {
    &&& (!res ==> s2 == s)                                            // (a) a refused request changes nothing
    &&& (res && s.prev <= now ==> credit(s, now, I) >= I               // (b) a paint needs one interval of credit
                 && credit(s2, now, I) <= credit(s, now, I) - I        //     and consumes it
                 && s2.prev <= now)
    &&& (s.prev <= now && now - s.prev >= I ==> res)                   // (d) one interval after the last paint => painted
}
// (c) "burst B": right after a paint less than B intervals of credit are left
spec fn burst_ok(s2: LS, now: int, I: int, B: int) -> bool { credit(s2, now, I) < B * I }

spec fn rel(now: Instant, start: Instant) -> int { now.ns() - start.ns() }
"""

RL_NEW = dict(file="src/draw_target.rs", container="RateLimiter", name="new", ret="r",
              requires=[("rate-nonzero", "rate >= 1")],   # documented: "Will panic if refresh_rate is 0"
              ensures=[("wf", "r.wf()"),
                       ("full-bucket", "r.capacity == 20"),
                       ("C05-interval-upper", "(r.interval as int - 1) * (rate as int) < 1000"),
                       ("C05-interval-lower", "(r.interval as int) * (rate as int) >= 1000"),
                       ("clock", "r.prev.ns() < 0x8000_0000_0000_0000")])   # prev is a reading of the clock

RL_ALLOW = dict(file="src/draw_target.rs", container="RateLimiter", name="allow", ret="res", props=["C05"],
                requires=[("wf", "old(self).wf()"), ("time-range", "now.ns() - old(self).prev.ns() <= DURATION_MAX_NS()")],
                ensures=[("wf", "final(self).wf() && final(self).interval == old(self).interval"),
                         ("C05-step", "step(old(self).ls(), now.ns() as int, final(self).ls(), res, old(self).ival())"),
                         ("C05-burst", "res ==> burst_ok(final(self).ls(), now.ns() as int, old(self).ival(), 20)"),
                         ("reference-time", "final(self).prev.ns() <= (if res { now.ns() } else { old(self).prev.ns() })")])

# R20: `b |= e;` on bools (Verus rejects the non-short-circuit `|`): evaluate e first, then `||`
BOOL_OR_ASSIGN = Rw("R20", r"(\w+) \|= ([^;]+);", r"{ let __or = \2; \1 = \1 || __or; }", count="any")
