"""ProgressStyle::format_bar (src/style.rs) over the reals (R6: f32 as a mathematical real): the
bar has floor(width / char_width) cells, floor(fraction * cells) of them filled, one partial cell
exactly when the bar is neither empty nor full, the partial cell is one of the configured progress
characters, background cells fill the rest (C13).  The float side (rounding of fraction * cells,
full-iff-complete up to 2^24) is decided bit-precisely by the Kani harnesses of the thorough tier."""
from vlib.unit import Unit, Fn, Decl, Raw, Lemma, Rw, RwFn, r6_float_literals
from specs import c16_tabs as T
from specs.format_state import STYLE_DECL_RW

SHIMS = r"""
#[verifier::external_body]
struct Style { _p: core::marker::PhantomData<()> }
struct StyledObject<D> { val: D, style: Ghost<int> }
impl Style {
    uninterp spec fn id(&self) -> int;
    #[verifier::external_body]
    fn new() -> (r: Style) { unimplemented!() }
    #[verifier::external_body]
    fn apply_to<D>(&self, val: D) -> (r: StyledObject<D>) ensures r.val == val, r.style@ == self.id() { unimplemented!() }
}
#[verifier::external_body]
struct FormatMap { _p: core::marker::PhantomData<()> }
// R5: `alt_style.unwrap_or(&Style::new())`, `usize::from(bool)`
#[verifier::external_body]
fn style_or_default<'a>(alt: Option<&'a Style>) -> (r: &'a Style) ensures alt matches Some(s) ==> r == s { unimplemented!() }
fn usize_from_bool(b: bool) -> (r: usize) ensures r == (if b { 1usize } else { 0usize }) { if b { 1 } else { 0 } }

// renderable style (the invariant established by the builders, c14_style)
spec fn bar_wf(s: ProgressStyle) -> bool { s.char_width >= 1 && s.progress_chars@.len() >= 2 }
"""

UNIT = Unit(
    name="c13_format_bar",
    properties=["C13"],
    prelude=["time", "atomics", "tabs", "realf"],
    rlimit=40,
    trusted=[
        "prelude/realf.rs (R6): f32 as a mathematical real; `x as usize` on a non-negative value is the floor; fract() is x - floor(x) (the IEEE-754 side is decided by the Kani harnesses of the thorough tier)",
        "console::Style opaque; Style::apply_to keeps the wrapped value",
    ],
    items=[
        Decl("src/state.rs", "enum", "TabExpandedString", rewrites=[T.COW]),
        Decl("src/style.rs", "enum", "Alignment", attrs="#[derive(Copy, Clone, PartialEq, Eq)]"),
        Decl("src/style.rs", "enum", "TemplatePart"),
        Decl("src/style.rs", "struct", "Template"),
        Decl("src/style.rs", "struct", "ProgressStyle", rewrites=STYLE_DECL_RW),
        Decl("src/style.rs", "struct", "RepeatedStringDisplay", rewrites=[Rw("R15", r"&'a str", "&'a String")]),
        Decl("src/style.rs", "struct", "BarDisplay", rewrites=[Rw("R15", r"&'a \[Box<str>\]", "&'a Vec<String>"), Rw("R10", r"console::StyledObject", "StyledObject")]),
        Raw(SHIMS),
        Fn("src/style.rs", "ProgressStyle", "format_bar", ret="r",
           sig_rewrites=[Rw("R6", r"\bf32\b", "F64")],
           rewrites=[Rw("R6", r"(\w+) as f32", r"F64::from_usize(\1)", count="any"),
                     # `EXPR as usize` on a float expression (every `as usize` in this function is one)
                     Rw("R6", r"(\((?:[^()]|\((?:[^()]|\([^()]*\))*\))*\)|\b\w+) as usize", r"\1.trunc_usize()", count="any"),
                     RwFn("R6", r6_float_literals, count=None),
                     Rw("R5", r"usize::from\(", "usize_from_bool("),
                     Rw("R5", r"alt_style\.unwrap_or\(&Style::new\(\)\)", "style_or_default(alt_style)")],
           requires=[("wf", "bar_wf(*self)"), ("fraction", "0real <= fract.r() <= 1real")],
           ensures=[("C13-cells", "r.filled + (if r.cur is Some { 1int } else { 0int }) + r.rest.val.num == (width / self.char_width) as int"),
                    ("C13-filled-is-floor", "r.filled as int == rfloor(fract.r() * ((width / self.char_width) as real))"),
                    ("C13-partial-cell-iff-neither-empty-nor-full", "r.cur is Some <==> (fract.r() * ((width / self.char_width) as real) > 0real && (r.filled as int) < (width / self.char_width) as int)"),
                    ("C13-empty-at-zero", "fract.r() == 0real ==> r.filled == 0 && r.cur is None"),
                    ("C13-full-at-one", "fract.r() == 1real ==> r.filled as int == (width / self.char_width) as int && r.cur is None"),
                    ("C13-partial-cell-is-a-progress-char", "r.cur matches Some(c) ==> 1 <= c < self.progress_chars@.len() - 1 || (c == 1 && self.progress_chars@.len() == 2)"),
                    ("C13-chars", "r.chars@ == self.progress_chars@ && r.rest.val.str@ == self.progress_chars@[self.progress_chars@.len() - 1]@")],
           proofs=[(r"let entirely_filled", "before", """        let ghost cells = (width as int);
        proof {
            assert(0real <= fill.r() <= width as real) by (nonlinear_arith) requires fill.r() == fract.r() * (width as real), 0real <= fract.r() <= 1real, width >= 0;
        }"""),
                   (r"let n = self\.progress_chars\.len\(\)\.saturating_sub\(2\);", "after", """            proof {
                let fr = fill.r() - rfloor(fill.r()) as real;
                assert(0real <= fr < 1real);
                assert(0real <= fr * (n as real) < 18446744073709551616real) by (nonlinear_arith) requires 0real <= fr < 1real, 0 <= n < 18446744073709551616;
                assert(fr * (n as real) < n as real || n == 0) by (nonlinear_arith) requires 0real <= fr < 1real, 0 <= n;
            }""")]),
        Lemma("filled_monotone", "(f1: real, f2: real, cells: int)",
              requires=[("order", "0real <= f1 <= f2"), ("cells", "cells >= 0")],
              ensures=[("C13-filled-monotone-in-the-fraction", "rfloor(f1 * (cells as real)) <= rfloor(f2 * (cells as real))")],
              body="{ assert(f1 * (cells as real) <= f2 * (cells as real)) by (nonlinear_arith) requires 0real <= f1 <= f2, cells >= 0; }"),
    ],
)
