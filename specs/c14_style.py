"""C14 -- every style the builder accepts can be rendered.  ProgressStyle builders establish the
type invariant style_wf; the renderers' index / remainder / division sites are safe under it."""
from vlib.unit import Unit, Fn, Decl, Raw, Lemma, Rw
from specs import contracts as K
import re

SHIMS = r"""
#[verifier::external_body]
struct Template { _p: core::marker::PhantomData<()> }
#[verifier::external_body]
struct TemplateError { _p: core::marker::PhantomData<()> }
impl Template {
    #[verifier::external_body]
    fn from_str(s: &str) -> (r: Result<Template, TemplateError>) { unimplemented!() }   // totality: C10
}
#[verifier::external_body]
struct FormatMap { _p: core::marker::PhantomData<()> }
impl FormatMap {
    #[verifier::external_body]
    fn default() -> FormatMap { unimplemented!() }
}
const DEFAULT_TAB_WIDTH: usize = 8;

// the type invariant every builder must establish (from the statement: at least two tick
// strings, at least two progress characters, all of one width -- and a width a bar can be
// divided by)
spec fn style_wf(s: ProgressStyle) -> bool {
    &&& s.tick_strings@.len() >= 2
    &&& s.progress_chars@.len() >= 2
    &&& s.char_width >= 1
    &&& forall|i: int| 0 <= i < s.progress_chars@.len() ==> swidth(#[trigger] s.progress_chars@[i]@) == s.char_width
}
// ASSUMED about unicode-width: the two default progress characters are one column wide
#[verifier::external_body]
proof fn axiom_default_chars()
    ensures swidth(seq!['█']) == 1, swidth(seq!['░']) == 1
{}
"""

DECL_RW = [Rw("R15", r"Vec<Box<str>>", "Vec<String>", count=2),
           Rw("R10", r"HashMap<&'static str, Box<dyn ProgressTracker>>", "FormatMap")]

ASSERT_TICKS = Rw("R8", r'assert!\(\s*([^;]*?),\s*"[^"]*"\s*\);', r'if !(\1) { explicit_panic(); }', count=None, flags=re.S)

WIDTH = dict(file="src/style.rs", container=None, name="width", stub=True,
             sig_rewrites=[Rw("R15", r"&\[Box<str>\]", "&Vec<String>")],
             # explicit panics inside: empty slice (unwrap) and unequal widths (assert_eq!) -- the
             # normal return guarantees one common width
             ensures=[("common-width", "forall|i: int| 0 <= i < c@.len() ==> swidth(#[trigger] c@[i]@) == r"),
                      ("nonempty", "c@.len() >= 1")])

UNIT = Unit(
    name="c14_style",
    properties=["C14"],
    prelude=["strings"],
    trusted=[
        "default feature set (unicode-width on, unicode-segmentation off): `segment` is the chars() variant, `measure` is unicode_width (uninterpreted swidth)",
        "R5 helpers chars_to_strings / strs_to_strings stand for `.chars().map(|c| c.to_string().into()).collect()` / `.iter().map(|s| s.to_string().into()).collect()`",
        "R15: Box<str> as String; R10: the custom-key map is opaque",
        "style::width (closure fold with assert_eq!) is a stubbed callee: returns the common width or panics explicitly; bounded Kani stand-in in the thorough tier",
        "unicode_width of the default progress characters is 1 (axiom_default_chars)",
        "format_bar's float arithmetic is outside Verus: its division / index sites are decided by Kani (kani/style.rs) under the same style_wf",
    ],
    items=[
        Decl("src/style.rs", "struct", "ProgressStyle", rewrites=DECL_RW),
        Raw(SHIMS),
        Fn("src/style.rs", None, "segment", nth=1, ret="r",
           sig_rewrites=[Rw("R15", r"Vec<Box<str>>", "Vec<String>")],
           rewrites=[Rw("R5", r"s\.chars\(\)\.map\(\|x\| x\.to_string\(\)\.into\(\)\)\.collect\(\)", "chars_to_strings(s)")],
           ensures=[("per-char", "r@.len() == s@.len() && forall|i: int| 0 <= i < r@.len() ==> (#[trigger] r@[i])@ == seq![s@[i]]")]),
        Fn(**WIDTH),
        Fn("src/style.rs", "ProgressStyle", "new", ret="r",
           rewrites=[Rw("R5", r"\"([^\"]+)\"\s*\.chars\(\)\s*\.map\(\|c\| c\.to_string\(\)\.into\(\)\)\s*\.collect\(\)", r'chars_to_strings("\1")'),
                     Rw("R10", r"HashMap::default\(\)", "FormatMap::default()")],
           proofs=[(r"let progress_chars = segment", "before",
                    'proof { reveal_strlit("█░"); reveal_strlit("⠁⠁⠉⠙⠚⠒⠂⠂⠒⠲⠴⠤⠄⠄⠤⠠⠠⠤⠦⠖⠒⠐⠐⠒⠓⠋⠉⠈⠈ "); axiom_default_chars(); }'),
                   (r"Self \{", "before", r"""
        proof {
            assert("█░"@.len() == 2 && "█░"@[0] == '█' && "█░"@[1] == '░');
            assert(progress_chars@[0]@ =~= seq!['█']);
            assert(progress_chars@[1]@ =~= seq!['░']);
            assert("⠁⠁⠉⠙⠚⠒⠂⠂⠒⠲⠴⠤⠄⠄⠤⠠⠠⠤⠦⠖⠒⠐⠐⠒⠓⠋⠉⠈⠈ "@.len() >= 2);
        }
""")],
           ensures=[("C14-wf", "style_wf(r)")]),
        Fn("src/style.rs", "ProgressStyle", "tick_chars", ret="r",
           rewrites=[Rw("R5", r"s\.chars\(\)\.map\(\|c\| c\.to_string\(\)\.into\(\)\)\.collect\(\)", "chars_to_strings(s)"), ASSERT_TICKS],
           requires=[("wf", "style_wf(self)")], ensures=[("C14-wf", "style_wf(r)"),
                     ("C11-C14-ticks-are-the-given-characters", "r.tick_strings@.len() == s@.len() && forall|i: int| 0 <= i < s@.len() ==> (#[trigger] r.tick_strings@[i])@ == seq![s@[i]]")]),
        Fn("src/style.rs", "ProgressStyle", "tick_strings", ret="r",
           rewrites=[Rw("R5", r"s\.iter\(\)\.map\(\|s\| s\.to_string\(\)\.into\(\)\)\.collect\(\)", "strs_to_strings(s)"), ASSERT_TICKS],
           requires=[("wf", "style_wf(self)")], ensures=[("C14-wf", "style_wf(r)"),
                     ("C11-C14-ticks-are-the-given-strings", "r.tick_strings@.len() == s@.len() && forall|i: int| 0 <= i < s@.len() ==> (#[trigger] r.tick_strings@[i])@ == s@[i]@")]),
        Fn("src/style.rs", "ProgressStyle", "progress_chars", ret="r",
           rewrites=[ASSERT_TICKS],
           requires=[("wf", "style_wf(self)")], ensures=[("C14-wf", "style_wf(r)", ["C14", "C13"])]),
        Fn("src/style.rs", "ProgressStyle", "template", ret="r",
           requires=[("wf", "style_wf(self)")], ensures=[("C14-wf", "r matches Ok(st) ==> style_wf(st)")]),
        Fn("src/style.rs", "ProgressStyle", "with_template", ret="r",
           ensures=[("C14-wf", "r matches Ok(st) ==> style_wf(st)")]),
        Fn("src/style.rs", "ProgressStyle", "get_tick_str", ret="r",
           sig_rewrites=[Rw("R15", r"-> &str", "-> &String")],
           requires=[("wf", "style_wf(*self)")],
           ensures=[("C14-tick-index", "exists|i: int| 0 <= i < self.tick_strings@.len() - 1 && *r == self.tick_strings@[i]"),
                    ("C11-running-frame", "*r == self.tick_strings@[(idx as usize as int) % (self.tick_strings@.len() - 1)]")]),
        Fn("src/style.rs", "ProgressStyle", "get_final_tick_str", ret="r",
           sig_rewrites=[Rw("R15", r"-> &str", "-> &String")],
           requires=[("wf", "style_wf(*self)")],
           ensures=[("C14-final-tick", "*r == self.tick_strings@[self.tick_strings@.len() - 1]", ["C14", "C11"])]),
    ],
)
