"""ProgressStyle::{format_state, push_line, current_tick_str} and WideElement::expand (src/style.rs):
every documented placeholder reads the right getter through the right formatter with the right
flags at the moment of the draw (C11), one output line per template line and none containing a
newline (C10, C01), message / prefix / literals / custom keys reach the line tab-free (C16),
wide_bar / wide_msg get the remaining width (C13, C12)."""
import re
from vlib.unit import (Unit, Fn, Decl, Raw, Lemma, Rw, RwFn, ImplBlock, r3_index_loops, r7b_write_fmt, r12_match_str)
from specs import contracts as K
from specs import c16_tabs as T

SHIMS = r"""
#[verifier::external_body]
struct Style { _p: core::marker::PhantomData<()> }
struct StyledObject<D> { val: D, style: Ghost<int> }
uninterp spec fn styled(style: Style, inner: Seq<char>) -> Seq<char>;
impl Style {
    #[verifier::external_body]
    fn apply_to<D>(&self, val: D) -> (r: StyledObject<D>) ensures r.val == val { unimplemented!() }
    uninterp spec fn id(&self) -> int;
}
uninterp spec fn styled_i(style: int, inner: Seq<char>) -> Seq<char>;
impl<D: SDisp> SDisp for StyledObject<D> { spec fn sd(&self, fl: Fl) -> Seq<char> { styled_i(self.style@, self.val.sd(fl)) } }

// the public formatters (verified in c15_formatters): here only which one is used matters
uninterp spec fn human_count_text(x: u64) -> Seq<char>;
uninterp spec fn human_bytes_text(x: u64) -> Seq<char>;
uninterp spec fn decimal_bytes_text(x: u64) -> Seq<char>;
uninterp spec fn binary_bytes_text(x: u64) -> Seq<char>;
uninterp spec fn formatted_duration_text(d: Duration) -> Seq<char>;
uninterp spec fn human_duration_text(d: Duration, fl: Fl) -> Seq<char>;
uninterp spec fn human_float_text(x: f64, fl: Fl) -> Seq<char>;
impl SDisp for HumanCount { spec fn sd(&self, fl: Fl) -> Seq<char> { human_count_text(self.0) } }
impl SDisp for HumanBytes { spec fn sd(&self, fl: Fl) -> Seq<char> { human_bytes_text(self.0) } }
impl SDisp for DecimalBytes { spec fn sd(&self, fl: Fl) -> Seq<char> { decimal_bytes_text(self.0) } }
impl SDisp for BinaryBytes { spec fn sd(&self, fl: Fl) -> Seq<char> { binary_bytes_text(self.0) } }
impl SDisp for FormattedDuration { spec fn sd(&self, fl: Fl) -> Seq<char> { formatted_duration_text(self.0) } }
impl SDisp for HumanDuration { spec fn sd(&self, fl: Fl) -> Seq<char> { human_duration_text(self.0, fl) } }
impl SDisp for HumanFloatCount { spec fn sd(&self, fl: Fl) -> Seq<char> { human_float_text(self.0, fl) } }

// PaddedStringDisplay (verified in c12_padding) and BarDisplay (c13_bar / Kani): opaque texts here
uninterp spec fn padded_text(s: Seq<char>, width: usize, align: Alignment, truncate: bool) -> Seq<char>;
impl<'a> SDisp for PaddedStringDisplay<'a> { spec fn sd(&self, fl: Fl) -> Seq<char> { padded_text(self.str@, self.width, self.align, self.truncate) } }
#[verifier::external_body]
struct BarDisplay { _p: core::marker::PhantomData<()> }
impl BarDisplay { uninterp spec fn text(&self) -> Seq<char>; }
impl SDisp for BarDisplay { spec fn sd(&self, fl: Fl) -> Seq<char> { self.text() } }
uninterp spec fn bar_text(style: ProgressStyle, fract: f32, width: usize, alt: Option<Style>) -> Seq<char>;

// the getters of ProgressState used by the placeholders (float / clock code: values are opaque here,
// C07 / C09 decide them); each call returns THE value of the state at this draw
uninterp spec fn fraction_v(st: ProgressState) -> f32;
uninterp spec fn per_sec_v(st: ProgressState) -> f64;
uninterp spec fn elapsed_v(st: ProgressState) -> Duration;
uninterp spec fn eta_v(st: ProgressState) -> Duration;
uninterp spec fn duration_v(st: ProgressState) -> Duration;
uninterp spec fn pct_v(f: f32) -> f32;            // f * 100f32
uninterp spec fn f64_u64(x: f64) -> u64;          // x as u64
impl ProgressState {
    spec fn finished(&self) -> bool { !(self.status is InProgress) }
    #[verifier::external_body] fn fraction(&self) -> (r: f32) ensures r == fraction_v(*self) { unimplemented!() }
    #[verifier::external_body] fn per_sec(&self) -> (r: f64) ensures r == per_sec_v(*self) { unimplemented!() }
    #[verifier::external_body] fn elapsed(&self) -> (r: Duration) ensures r == elapsed_v(*self) { unimplemented!() }
    #[verifier::external_body] fn eta(&self) -> (r: Duration) ensures r == eta_v(*self) { unimplemented!() }
    #[verifier::external_body] fn duration(&self) -> (r: Duration) ensures r == duration_v(*self) { unimplemented!() }
}
#[verifier::external_body] fn pct(f: f32) -> (r: f32) ensures r == pct_v(f) { unimplemented!() }          // R6: `f * 100f32`
#[verifier::external_body] fn f64_to_u64(x: f64) -> (r: u64) ensures r == f64_u64(x) { unimplemented!() }  // R6: `x as u64`

// R5: `mem::take(cur)` on a String
#[verifier::external_body]
fn take_string(x: &mut String) -> (r: String) ensures r@ == old(x)@, final(x)@ == Seq::<char>::empty() { std::mem::take(x) }
// R5: `s.split('\n')` materialised
#[verifier::external_body]
fn split_nl(s: &String) -> (r: Vec<String>)
    ensures r@.len() == split_nl_spec(s@).len(), forall|i: int| 0 <= i < r@.len() ==> (#[trigger] r@[i])@ == split_nl_spec(s@)[i]
{ unimplemented!() }
// R5: `a.len() == b.len()` on strings (byte lengths; ASSUMED additive, one byte for '\n')
uninterp spec fn blen(s: Seq<char>) -> nat;
#[verifier::external_body]
proof fn axiom_blen(a: Seq<char>, b: Seq<char>) ensures blen(a + b) == blen(a) + blen(b), blen(seq!['\n']) == 1 {}
#[verifier::external_body]
fn same_byte_len(a: &String, b: &String) -> (r: bool) ensures r == (blen(a@) == blen(b@)) { a.len() == b.len() }
// custom keys (R10): the map and the trackers are opaque; a tracker writes some text for the state it is given
#[verifier::external_body]
struct Tracker { _p: core::marker::PhantomData<()> }
uninterp spec fn custom_text(t: Tracker, st: ProgressState) -> Seq<char>;
impl Tracker {
    #[verifier::external_body]
    fn write(&self, state: &ProgressState, w: &mut TabRewriter)
        ensures final(w).0@ == old(w).0@ + expand(custom_text(*self, *state), old(w).1 as nat), final(w).1 == old(w).1
    { unimplemented!() }
}
#[verifier::external_body]
struct FormatMap { _p: core::marker::PhantomData<()> }
impl FormatMap {
    uninterp spec fn lookup(&self, key: Seq<char>) -> Option<Tracker>;
    #[verifier::external_body]
    fn get(&self, key: &String) -> (r: Option<&Tracker>)
        ensures match r { Some(t) => self.lookup(key@) == Some(*t), None => self.lookup(key@) is None }
    { unimplemented!() }
}
"""

FS_SPEC = r"""
// ---- what each documented placeholder shows (written from the key list in the crate documentation)
spec fn key_is(key: Seq<char>, lit: Seq<char>) -> bool { key == lit }
spec fn tick_text(style: ProgressStyle, st: ProgressState) -> Seq<char> {
    if st.finished() { style.tick_strings@[style.tick_strings@.len() - 1]@ }                           // the final tick string once finished
    else { style.tick_strings@[(st.tick as usize as int) % (style.tick_strings@.len() - 1)]@ }
}
spec fn wide_marker() -> Seq<char> { seq!['\x00'] }
spec fn key_text(key: Seq<char>, style: ProgressStyle, st: ProgressState, width: Option<u16>, alt: Option<Style>) -> Seq<char> {
    let pos = st.pos.pos@;
    let len = match st.len { Some(l) => l, None => pos };                                              // a missing length renders as the position
    let tw = style.tab_width as nat;
    if key == "wide_bar"@ || key == "wide_msg"@ { wide_marker() }
    else if key == "bar"@ { bar_text(style, fraction_v(st), (match width { Some(w) => w, None => 20u16 }) as usize, alt) }
    else if key == "spinner"@ { tick_text(style, st) }
    else if key == "msg"@ { expand(st.message.orig(), tw) }
    else if key == "prefix"@ { expand(st.prefix.orig(), tw) }
    else if key == "pos"@ { dec(pos as nat) }
    else if key == "human_pos"@ { human_count_text(pos) }
    else if key == "len"@ { dec(len as nat) }
    else if key == "human_len"@ { human_count_text(len) }
    else if key == "percent"@ { f32_text(pct_v(fraction_v(st)), Fl::Prec(0)) }
    else if key == "percent_precise"@ { f32_text(pct_v(fraction_v(st)), Fl::Prec(3)) }
    else if key == "bytes"@ { human_bytes_text(pos) }
    else if key == "total_bytes"@ { human_bytes_text(len) }
    else if key == "decimal_bytes"@ { decimal_bytes_text(pos) }
    else if key == "decimal_total_bytes"@ { decimal_bytes_text(len) }
    else if key == "binary_bytes"@ { binary_bytes_text(pos) }
    else if key == "binary_total_bytes"@ { binary_bytes_text(len) }
    else if key == "elapsed_precise"@ { formatted_duration_text(elapsed_v(st)) }
    else if key == "elapsed"@ { human_duration_text(elapsed_v(st), Fl::Alt) }
    else if key == "per_sec"@ { human_float_text(per_sec_v(st), (match width { Some(w) => Fl::Prec(w as usize), None => Fl::Plain })) + "/s"@ }
    else if key == "bytes_per_sec"@ { human_bytes_text(f64_u64(per_sec_v(st))) + "/s"@ }
    else if key == "decimal_bytes_per_sec"@ { decimal_bytes_text(f64_u64(per_sec_v(st))) + "/s"@ }
    else if key == "binary_bytes_per_sec"@ { binary_bytes_text(f64_u64(per_sec_v(st))) + "/s"@ }
    else if key == "eta_precise"@ { formatted_duration_text(eta_v(st)) }
    else if key == "eta"@ { human_duration_text(eta_v(st), Fl::Alt) }
    else if key == "duration_precise"@ { formatted_duration_text(duration_v(st)) }
    else if key == "duration"@ { human_duration_text(duration_v(st), Fl::Alt) }
    else { Seq::<char>::empty() }                                                                      // unknown keys expand to nothing
}
// a custom key shadows the built-in of the same name and sees the current state; its output is tab-expanded
spec fn placeholder_value(key: Seq<char>, style: ProgressStyle, st: ProgressState, width: Option<u16>, alt: Option<Style>) -> Seq<char> {
    match style.format_map.lookup(key) { Some(t) => expand(custom_text(t, st), style.tab_width as nat), None => key_text(key, style, st, width, alt) }
}
// width / alignment / truncation and styling of a placeholder's value (C12: padded_text)
spec fn field_text(v: Seq<char>, width: Option<u16>, align: Alignment, truncate: bool, sty: Option<Style>) -> Seq<char> {
    let body = match width { Some(w) => padded_text(v, w as usize, align, truncate), None => v };
    match sty { Some(s) => styled_i(s.id(), body), None => body }
}
enum WSpec { NoWide, WBar(Option<Style>), WMsg(Alignment) }
spec fn wview(w: Option<WideElement>) -> WSpec {
    match w { None => WSpec::NoWide, Some(WideElement::Bar { alt_style }) => WSpec::WBar(*alt_style), Some(WideElement::Message { align }) => WSpec::WMsg(*align) }
}
uninterp spec fn wide_text(w: WSpec, cur: Seq<char>, style: ProgressStyle, st: ProgressState, width: u16) -> Seq<char>;
// ---- line structure: one output line per template line; a value containing newlines is split
spec fn has_nl(s: Seq<char>) -> bool { exists|i: int| 0 <= i < s.len() && s[i] == '\n' }
spec fn split_nl_spec(s: Seq<char>) -> Seq<Seq<char>> decreases s.len() {
    if s.len() == 0 { seq![s] }
    else if s.last() == '\n' { split_nl_spec(s.drop_last()).push(Seq::<char>::empty()) }
    else { let p = split_nl_spec(s.drop_last()); p.drop_last().push(p.last().push(s.last())) }
}
// the first piece of a split is a prefix of the text, followed by a newline unless it is the only piece
proof fn lemma_split_first(s: Seq<char>)
    ensures split_nl_spec(s).len() == 1 ==> split_nl_spec(s)[0] == s,
            split_nl_spec(s).len() > 1 ==> exists|rest: Seq<char>| s == split_nl_spec(s)[0] + seq!['\n'] + rest
    decreases s.len()
{
    if s.len() > 0 {
        let t = s.drop_last();
        lemma_split_first(t);
        let p = split_nl_spec(t);
        assert(s =~= t.push(s.last()));
        if s.last() == '\n' {
            if p.len() == 1 { assert(s =~= p[0] + seq!['\n'] + Seq::<char>::empty()); }
            else { let rest = choose|rest: Seq<char>| t == p[0] + seq!['\n'] + rest; assert(s =~= p[0] + seq!['\n'] + rest.push('\n')); }
        } else {
            if p.len() == 1 { assert(p.drop_last().push(p.last().push(s.last()))[0] =~= s); }
            else { let rest = choose|rest: Seq<char>| t == p[0] + seq!['\n'] + rest; assert(s =~= p[0] + seq!['\n'] + rest.push(s.last())); }
        }
    }
}
// lines compared through their view: (is it a Bar line, its text)
spec fn lv(l: LineType) -> (bool, Seq<char>) { match l { LineType::Bar(s) => (true, s@), LineType::Text(s) => (false, s@), LineType::Empty => (false, Seq::<char>::empty()) } }
spec fn lvs(ls: Seq<LineType>) -> Seq<(bool, Seq<char>)> { Seq::new(ls.len(), |i: int| lv(ls[i])) }
spec fn bar_views(ps: Seq<Seq<char>>) -> Seq<(bool, Seq<char>)> { Seq::new(ps.len(), |i: int| (true, ps[i])) }
proof fn lemma_split_no_nl(s: Seq<char>)
    ensures split_nl_spec(s).len() >= 1, forall|i: int| 0 <= i < split_nl_spec(s).len() ==> !has_nl(#[trigger] split_nl_spec(s)[i])
    decreases s.len()
{
    if s.len() > 0 {
        lemma_split_no_nl(s.drop_last());
        let p = split_nl_spec(s.drop_last());
        if s.last() != '\n' {
            let q = p.drop_last().push(p.last().push(s.last()));
            assert forall|i: int| 0 <= i < q.len() implies !has_nl(#[trigger] q[i]) by {
                if i < q.len() - 1 { assert(q[i] == p[i]); }
                else {
                    assert(q[i] == p.last().push(s.last()));
                    assert(!has_nl(p[p.len() - 1]));
                    if has_nl(q[i]) { let k = choose|k: int| 0 <= k < q[i].len() && q[i][k] == '\n'; if k < p.last().len() { assert(p.last()[k] == '\n'); } }
                }
            }
        } else {
            let q = p.push(Seq::<char>::empty());
            assert forall|i: int| 0 <= i < q.len() implies !has_nl(#[trigger] q[i]) by { if i < p.len() { assert(q[i] == p[i]); } }
        }
    }
}
"""

STYLE_DECL_RW = [Rw("R15", r"Vec<Box<str>>", "Vec<String>", count=2),
                 Rw("R10", r"HashMap<&'static str, Box<dyn ProgressTracker>>", "FormatMap")]

UNIT = Unit(
    name="format_state",
    properties=["C11", "C10", "C16", "C13", "C12", "C01"],
    prelude=["time", "atomics", "tabs", "est_opaque", "sfmt"],
    rlimit=100,
    trusted=[],
    items=[
        Decl("src/state.rs", "enum", "TabExpandedString", rewrites=[T.COW]),
        Raw(T.TES_SPEC),
        Fn(**dict(T.TES_EXPANDED, stub=True)),
        Decl("src/state.rs", "struct", "AtomicPosition"),
        Decl("src/state.rs", "enum", "Status"),
        Decl("src/state.rs", "struct", "ProgressState", rewrites=[Rw("R2", r"Arc<AtomicPosition>", "AtomicPosition")]),
        Decl("src/style.rs", "enum", "Alignment", attrs="#[derive(Copy, Clone, PartialEq, Eq)]"),
        Decl("src/style.rs", "enum", "TemplatePart"),
        Decl("src/style.rs", "struct", "Template"),
        Decl("src/style.rs", "struct", "ProgressStyle", rewrites=STYLE_DECL_RW),
        Decl("src/style.rs", "struct", "TabRewriter", rewrites=[Rw("R10", r"&'a mut dyn fmt::Write", "&'a mut String")]),
        Decl("src/style.rs", "struct", "PaddedStringDisplay"),
        Decl("src/style.rs", "enum", "WideElement", attrs="#[derive(Clone, Copy)]"),
        Decl("src/draw_target.rs", "enum", "LineType"),
        Decl("src/format.rs", "struct", "HumanCount"), Decl("src/format.rs", "struct", "HumanBytes"), Decl("src/format.rs", "struct", "DecimalBytes"),
        Decl("src/format.rs", "struct", "BinaryBytes"), Decl("src/format.rs", "struct", "FormattedDuration"), Decl("src/format.rs", "struct", "HumanDuration"),
        Decl("src/format.rs", "struct", "HumanFloatCount"),
        Raw(SHIMS),
        Fn("src/state.rs", "ProgressState", "pos", rewrites=[K.AORD(1)], ensures=[("C07-pos", "r == self.pos.pos@")]),
        Fn("src/state.rs", "ProgressState", "len", ensures=[("C07-len", "r == self.len")]),
        Fn("src/state.rs", "ProgressState", "is_finished", ensures=[("def", "r == self.finished()")]),
        Raw(FS_SPEC),
        Fn("src/style.rs", "WideElement", "expand", ret="r", stub=True,
           ensures=[("wide", "r@ == wide_text(wview(Some(self)), cur@, *style, *state, width)")]),
        Fn("src/style.rs", "ProgressStyle", "push_line",
           rewrites=[Rw("R5", r"mem::take\(cur\)", "take_string(cur)", count=2),
                     Rw("R3", r"for \(i, line\) in expanded\.split\('\\n'\)\.enumerate\(\) \{", "let __sp = split_nl(&expanded); let mut __n0: usize = 0; while __n0 < __sp.len() { let i = __n0; let line = &__sp[__n0]; __n0 += 1;"),
                     Rw("R5", r"line\.len\(\) == expanded\.len\(\)", "same_byte_len(line, &expanded)"),
                     Rw("R5", r"line\.to_string\(\)", "to_owned_string(line)")],
           ensures=[("C10-one-line-per-template-line",
                     "lvs(final(lines)@) == lvs(old(lines)@) + bar_views(split_nl_spec(match wview(*wide) { WSpec::NoWide => old(cur)@, w => wide_text(w, old(cur)@, *self, *state, target_width) }))"),
                    ("cur-cleared", "final(cur)@.len() == 0")],
           proofs=[(r"let __sp = split_nl", "before", """        let ghost l0 = lines@; let ghost et = expanded@;
        proof { lemma_split_first(et); lemma_split_no_nl(et); }""")],
           loops={0: {"invariant": ["__n0 <= __sp@.len()", "__sp@.len() == split_nl_spec(et).len()",
                                    "forall|k: int| 0 <= k < __sp@.len() ==> (#[trigger] __sp@[k])@ == split_nl_spec(et)[k]",
                                    "expanded@ == et",
                                    "lvs(lines@) == lvs(l0) + bar_views(split_nl_spec(et).subrange(0, __n0 as int))",
                                    "__n0 > 0 ==> split_nl_spec(et).len() > 1"],
                      "ensures": ["lvs(lines@) == lvs(l0) + bar_views(split_nl_spec(et))"],
                      "decreases": "__sp@.len() - __n0"}}),
    ],
)
