"""ProgressStyle::{format_state, push_line, current_tick_str} and WideElement::expand (src/style.rs):
every documented placeholder reads the right getter through the right formatter with the right
flags at the moment of the draw (C11), one output line per template line and none containing a
newline (C10, C01), message / prefix / literals / custom keys reach the line tab-free (C16),
wide_bar / wide_msg get the remaining width (C13, C12)."""
import re
from vlib.unit import (Unit, Fn, Decl, Raw, Lemma, Rw, RwFn, ImplBlock, r3_index_loops, r7b_write_fmt, r12_match_str)
from specs import contracts as K
from specs import c16_tabs as T

SHIMS = r"""
#[verifier::external_body]
struct Style { _p: core::marker::PhantomData<()> }
struct StyledObject<D> { val: D, style: Ghost<int> }
uninterp spec fn styled(style: Style, inner: Seq<char>) -> Seq<char>;
impl Style {
    #[verifier::external_body]
    fn apply_to<D>(&self, val: D) -> (r: StyledObject<D>) ensures r.val == val, r.style@ == self.id() { unimplemented!() }
    uninterp spec fn id(&self) -> int;
}
uninterp spec fn styled_i(style: int, inner: Seq<char>) -> Seq<char>;
impl<D: SDisp> SDisp for StyledObject<D> { spec fn sd(&self, fl: Fl) -> Seq<char> { styled_i(self.style@, self.val.sd(fl)) } }

// the public formatters (verified in c15_formatters): here only which one is used matters
uninterp spec fn human_count_text(x: u64) -> Seq<char>;
uninterp spec fn human_bytes_text(x: u64) -> Seq<char>;
uninterp spec fn decimal_bytes_text(x: u64) -> Seq<char>;
uninterp spec fn binary_bytes_text(x: u64) -> Seq<char>;
uninterp spec fn formatted_duration_text(d: Duration) -> Seq<char>;
uninterp spec fn human_duration_text(d: Duration, fl: Fl) -> Seq<char>;
uninterp spec fn human_float_text(x: f64, fl: Fl) -> Seq<char>;
impl SDisp for HumanCount { spec fn sd(&self, fl: Fl) -> Seq<char> { human_count_text(self.0) } }
impl SDisp for HumanBytes { spec fn sd(&self, fl: Fl) -> Seq<char> { human_bytes_text(self.0) } }
impl SDisp for DecimalBytes { spec fn sd(&self, fl: Fl) -> Seq<char> { decimal_bytes_text(self.0) } }
impl SDisp for BinaryBytes { spec fn sd(&self, fl: Fl) -> Seq<char> { binary_bytes_text(self.0) } }
impl SDisp for FormattedDuration { spec fn sd(&self, fl: Fl) -> Seq<char> { formatted_duration_text(self.0) } }
impl SDisp for HumanDuration { spec fn sd(&self, fl: Fl) -> Seq<char> { human_duration_text(self.0, fl) } }
impl SDisp for HumanFloatCount { spec fn sd(&self, fl: Fl) -> Seq<char> { human_float_text(self.0, fl) } }

// PaddedStringDisplay (verified in c12_padding) and BarDisplay (c13_bar / Kani): opaque texts here
uninterp spec fn padded_text(s: Seq<char>, width: usize, align: Alignment, truncate: bool) -> Seq<char>;
impl<'a> SDisp for PaddedStringDisplay<'a> { spec fn sd(&self, fl: Fl) -> Seq<char> { padded_text(self.str@, self.width, self.align, self.truncate) } }
#[verifier::external_body]
struct BarDisplay { _p: core::marker::PhantomData<()> }
impl BarDisplay { uninterp spec fn text(&self) -> Seq<char>; }
impl SDisp for BarDisplay { spec fn sd(&self, fl: Fl) -> Seq<char> { self.text() } }
uninterp spec fn bar_text(style: ProgressStyle, fract: f32, width: usize, alt: Option<Style>) -> Seq<char>;

// the getters of ProgressState used by the placeholders (float / clock code: values are opaque here,
// C07 / C09 decide them); each call returns THE value of the state at this draw
uninterp spec fn fraction_v(st: ProgressState) -> f32;
uninterp spec fn per_sec_v(st: ProgressState) -> f64;
uninterp spec fn elapsed_v(st: ProgressState) -> Duration;
uninterp spec fn eta_v(st: ProgressState) -> Duration;
uninterp spec fn duration_v(st: ProgressState) -> Duration;
uninterp spec fn pct_v(f: f32) -> f32;            // f * 100f32
uninterp spec fn f64_u64(x: f64) -> u64;          // x as u64
impl ProgressState {
    spec fn finished(&self) -> bool { !(self.status is InProgress) }
    #[verifier::external_body] fn fraction(&self) -> (r: f32) ensures r == fraction_v(*self) { unimplemented!() }
    #[verifier::external_body] fn per_sec(&self) -> (r: f64) ensures r == per_sec_v(*self) { unimplemented!() }
    #[verifier::external_body] fn elapsed(&self) -> (r: Duration) ensures r == elapsed_v(*self) { unimplemented!() }
    #[verifier::external_body] fn eta(&self) -> (r: Duration) ensures r == eta_v(*self) { unimplemented!() }
    #[verifier::external_body] fn duration(&self) -> (r: Duration) ensures r == duration_v(*self) { unimplemented!() }
}
#[verifier::external_body] fn pct(f: f32) -> (r: f32) ensures r == pct_v(f) { unimplemented!() }          // R6: `f * 100f32`
#[verifier::external_body] fn f64_to_u64(x: f64) -> (r: u64) ensures r == f64_u64(x) { unimplemented!() }  // R6: `x as u64`

// String building (R5; ASSUMED: std String operations append / clear as their names say)
#[verifier::external_body] fn s_new() -> (r: String) ensures r@ == Seq::<char>::empty() { String::new() }
#[verifier::external_body] fn s_push(b: &mut String, c: char) ensures final(b)@ == old(b)@.push(c) { b.push(c) }
#[verifier::external_body] fn s_push_str(b: &mut String, x: &String) ensures final(b)@ == old(b)@ + x@ { b.push_str(x) }
#[verifier::external_body] fn s_clear(b: &mut String) ensures final(b)@ == Seq::<char>::empty() { b.clear() }
#[verifier::external_body] fn s_is_empty(b: &String) -> (r: bool) ensures r == (b@.len() == 0) { b.is_empty() }
// R5: `cur.replace('\x00', X)`, `measure_text_width`, `format!("{}", x)`, `trim_end`, last-byte test (ASSUMED std / console behaviour)
#[verifier::external_body] fn s_replace_nul(s: &String, r: &String) -> (o: String) ensures o@ == replace_nul(s@, r@) { s.replace('\x00', r) }
#[verifier::external_body] fn s_replace_nul_empty(s: &String) -> (o: String) ensures o@ == replace_nul(s@, Seq::<char>::empty()) { s.replace('\x00', "") }
#[verifier::external_body] fn measure_text_width(s: &String) -> (n: usize) ensures n == text_cols(s@) { unimplemented!() }
#[verifier::external_body] fn fmt_to_string<T: SDisp>(x: T) -> (o: String) ensures o@ == x.sd(Fl::Plain) { unimplemented!() }
#[verifier::external_body] fn s_trim_end(s: &String) -> (o: &String) ensures o@ == trim_end_spec(s@) { unimplemented!() }
#[verifier::external_body] fn ends_with_nul(s: &String) -> (r: bool) ensures r == (s@.len() > 0 && s@.last() == '\x00') { s.as_bytes().last() == Some(&b'\x00') }
// R5: `mem::take(cur)` on a String
#[verifier::external_body]
fn take_string(x: &mut String) -> (r: String) ensures r@ == old(x)@, final(x)@ == Seq::<char>::empty() { std::mem::take(x) }
// R5: `s.split('\n')` materialised
#[verifier::external_body]
fn split_nl(s: &String) -> (r: Vec<String>)
    ensures r@.len() == split_nl_spec(s@).len(), forall|i: int| 0 <= i < r@.len() ==> (#[trigger] r@[i])@ == split_nl_spec(s@)[i]
{ unimplemented!() }
// R5: `a.len() == b.len()` on strings (byte lengths; ASSUMED additive, one byte for '\n')
uninterp spec fn blen(s: Seq<char>) -> nat;
#[verifier::external_body]
proof fn axiom_blen(a: Seq<char>, b: Seq<char>) ensures blen(a + b) == blen(a) + blen(b), blen(seq!['\n']) == 1 {}
#[verifier::external_body]
fn same_byte_len(a: &String, b: &String) -> (r: bool) ensures r == (blen(a@) == blen(b@)) { a.len() == b.len() }
// custom keys (R10): the map and the trackers are opaque; a tracker writes some text for the state it is given
#[verifier::external_body]
struct Tracker { _p: core::marker::PhantomData<()> }
uninterp spec fn custom_text(t: Tracker, st: ProgressState) -> Seq<char>;
impl Tracker {
    #[verifier::external_body]
    fn write(&self, state: &ProgressState, w: &mut TabRewriter)
        ensures final(w).0@ == old(w).0@ + expand(custom_text(*self, *state), old(w).1 as nat), final(w).1 == old(w).1
    { unimplemented!() }
}
// R5: `tracker.write(state, &mut TabRewriter(&mut buf, tab_width))` (TabRewriter::write_str is verified in c16_tabs;
// ASSUMED: the tracker writes only through the writer it is given)
#[verifier::external_body]
fn tracker_write(t: &Tracker, state: &ProgressState, buf: &mut String, tab_width: usize)
    ensures final(buf)@ == old(buf)@ + expand(custom_text(*t, *state), tab_width as nat)
{ unimplemented!() }
#[verifier::external_body]
struct FormatMap { _p: core::marker::PhantomData<()> }
impl FormatMap {
    uninterp spec fn lookup(&self, key: Seq<char>) -> Option<Tracker>;
    #[verifier::external_body]
    fn get(&self, key: &String) -> (r: Option<&Tracker>)
        ensures match r { Some(t) => self.lookup(key@) == Some(*t), None => self.lookup(key@) is None }
    { unimplemented!() }
}
"""

FS_SPEC = r"""
// ---- what each documented placeholder shows (written from the key list in the crate documentation)
spec fn key_is(key: Seq<char>, lit: Seq<char>) -> bool { key == lit }
spec fn tick_text(style: ProgressStyle, st: ProgressState) -> Seq<char> {
    if st.finished() { style.tick_strings@[style.tick_strings@.len() - 1]@ }                           // the final tick string once finished
    else { style.tick_strings@[(st.tick as usize as int) % (style.tick_strings@.len() - 1)]@ }
}
spec fn wide_marker() -> Seq<char> { seq!['\x00'] }
spec fn key_text(key: Seq<char>, style: ProgressStyle, st: ProgressState, width: Option<u16>, alt: Option<Style>) -> Seq<char> {
    let pos = st.pos.pos@;
    let len = match st.len { Some(l) => l, None => pos };                                              // a missing length renders as the position
    let tw = style.tab_width as nat;
    if key == "wide_bar"@ || key == "wide_msg"@ { wide_marker() }
    else if key == "bar"@ { bar_text(style, fraction_v(st), (match width { Some(w) => w, None => 20u16 }) as usize, alt) }
    else if key == "spinner"@ { tick_text(style, st) }
    else if key == "msg"@ { expand(st.message.orig(), tw) }
    else if key == "prefix"@ { expand(st.prefix.orig(), tw) }
    else if key == "pos"@ { dec(pos as nat) }
    else if key == "human_pos"@ { human_count_text(pos) }
    else if key == "len"@ { dec(len as nat) }
    else if key == "human_len"@ { human_count_text(len) }
    else if key == "percent"@ { f32_text(pct_v(fraction_v(st)), Fl::Prec(0)) }
    else if key == "percent_precise"@ { f32_text(pct_v(fraction_v(st)), Fl::Prec(3)) }
    else if key == "bytes"@ { human_bytes_text(pos) }
    else if key == "total_bytes"@ { human_bytes_text(len) }
    else if key == "decimal_bytes"@ { decimal_bytes_text(pos) }
    else if key == "decimal_total_bytes"@ { decimal_bytes_text(len) }
    else if key == "binary_bytes"@ { binary_bytes_text(pos) }
    else if key == "binary_total_bytes"@ { binary_bytes_text(len) }
    else if key == "elapsed_precise"@ { formatted_duration_text(elapsed_v(st)) }
    else if key == "elapsed"@ { human_duration_text(elapsed_v(st), Fl::Alt) }
    else if key == "per_sec"@ { human_float_text(per_sec_v(st), (match width { Some(w) => Fl::Prec(w as usize), None => Fl::Plain })) + "/s"@ }
    else if key == "bytes_per_sec"@ { human_bytes_text(f64_u64(per_sec_v(st))) + "/s"@ }
    else if key == "decimal_bytes_per_sec"@ { decimal_bytes_text(f64_u64(per_sec_v(st))) + "/s"@ }
    else if key == "binary_bytes_per_sec"@ { binary_bytes_text(f64_u64(per_sec_v(st))) + "/s"@ }
    else if key == "eta_precise"@ { formatted_duration_text(eta_v(st)) }
    else if key == "eta"@ { human_duration_text(eta_v(st), Fl::Alt) }
    else if key == "duration_precise"@ { formatted_duration_text(duration_v(st)) }
    else if key == "duration"@ { human_duration_text(duration_v(st), Fl::Alt) }
    else { Seq::<char>::empty() }                                                                      // unknown keys expand to nothing
}
// a custom key shadows the built-in of the same name and sees the current state; its output is tab-expanded
spec fn placeholder_value(key: Seq<char>, style: ProgressStyle, st: ProgressState, width: Option<u16>, alt: Option<Style>) -> Seq<char> {
    match style.format_map.lookup(key) { Some(t) => expand(custom_text(t, st), style.tab_width as nat), None => key_text(key, style, st, width, alt) }
}
// width / alignment / truncation and styling of a placeholder's value (C12: padded_text)
spec fn field_text(v: Seq<char>, width: Option<u16>, align: Alignment, truncate: bool, sty: Option<Style>) -> Seq<char> {
    let body = match width { Some(w) => padded_text(v, w as usize, align, truncate), None => v };
    match sty { Some(s) => styled_i(s.id(), body), None => body }
}
enum WSpec { NoWide, WBar(Option<Style>), WMsg(Alignment) }
spec fn wview(w: Option<WideElement>) -> WSpec {
    match w { None => WSpec::NoWide, Some(WideElement::Bar { alt_style }) => WSpec::WBar(*alt_style), Some(WideElement::Message { align }) => WSpec::WMsg(*align) }
}
// the wide element takes the columns the rest of the line leaves free (C13 / C12): the marker is replaced by a bar
// of exactly that width, or by the message padded / truncated to that width (trailing padding is dropped when the
// marker ends the line)
spec fn replace_nul(s: Seq<char>, r: Seq<char>) -> Seq<char> decreases s.len() {
    if s.len() == 0 { s } else if s.last() == '\x00' { replace_nul(s.drop_last(), r) + r } else { replace_nul(s.drop_last(), r).push(s.last()) }
}
uninterp spec fn text_cols(s: Seq<char>) -> nat;          // console::measure_text_width
uninterp spec fn trim_end_spec(s: Seq<char>) -> Seq<char>;   // str::trim_end
spec fn wide_left(cur: Seq<char>, width: u16) -> usize {
    let used = text_cols(replace_nul(cur, Seq::<char>::empty()));
    if used >= width as nat { 0usize } else { (width as nat - used) as usize }
}
spec fn wide_text(w: WSpec, cur: Seq<char>, style: ProgressStyle, st: ProgressState, width: u16) -> Seq<char> {
    let left = wide_left(cur, width);
    match w {
        WSpec::NoWide => cur,
        WSpec::WBar(alt) => replace_nul(cur, bar_text(style, fraction_v(st), left, alt)),
        WSpec::WMsg(align) => {
            let padded = padded_text(expand(st.message.orig(), style.tab_width as nat), left, align, true);
            replace_nul(cur, if cur.len() > 0 && cur.last() == '\x00' { trim_end_spec(padded) } else { padded })
        },
    }
}
// ---- line structure: one output line per template line; a value containing newlines is split
spec fn has_nl(s: Seq<char>) -> bool { exists|i: int| 0 <= i < s.len() && s[i] == '\n' }
spec fn split_nl_spec(s: Seq<char>) -> Seq<Seq<char>> decreases s.len() {
    if s.len() == 0 { seq![s] }
    else if s.last() == '\n' { split_nl_spec(s.drop_last()).push(Seq::<char>::empty()) }
    else { let p = split_nl_spec(s.drop_last()); p.drop_last().push(p.last().push(s.last())) }
}
// the first piece of a split is a prefix of the text, followed by a newline unless it is the only piece
spec fn nl_cat(s: Seq<char>, a: Seq<char>, rest: Seq<char>) -> bool { s == a + seq!['\n'] + rest }
proof fn lemma_split_first(s: Seq<char>)
    ensures split_nl_spec(s).len() >= 1,
            split_nl_spec(s).len() == 1 ==> split_nl_spec(s)[0] == s,
            split_nl_spec(s).len() > 1 ==> exists|rest: Seq<char>| #[trigger] nl_cat(s, split_nl_spec(s)[0], rest)
    decreases s.len()
{
    if s.len() > 0 {
        let t = s.drop_last();
        let c = s.last();
        lemma_split_first(t);
        let p = split_nl_spec(t);
        let q = split_nl_spec(s);
        assert(s =~= t.push(c));
        if c == '\n' {
            assert(q == p.push(Seq::<char>::empty()));
            assert(q[0] == p[0]);
            if p.len() == 1 {
                assert(s =~= p[0] + seq!['\n'] + Seq::<char>::empty());
                assert(nl_cat(s, q[0], Seq::<char>::empty()));
            } else {
                let rest = choose|rest: Seq<char>| #[trigger] nl_cat(t, p[0], rest);
                assert(s =~= p[0] + seq!['\n'] + rest.push('\n'));
                assert(nl_cat(s, q[0], rest.push('\n')));
            }
        } else {
            assert(q == p.drop_last().push(p.last().push(c)));
            if p.len() == 1 {
                assert(q[0] == p[0].push(c));
                assert(q[0] =~= s);
            } else {
                assert(q[0] == p[0]);
                let rest = choose|rest: Seq<char>| #[trigger] nl_cat(t, p[0], rest);
                assert(s =~= p[0] + seq!['\n'] + rest.push(c));
                assert(nl_cat(s, q[0], rest.push(c)));
            }
        }
    }
}
// lines compared through their view: (is it a Bar line, its text)
spec fn lv(l: LineType) -> (bool, Seq<char>) { match l { LineType::Bar(s) => (true, s@), LineType::Text(s) => (false, s@), LineType::Empty => (false, Seq::<char>::empty()) } }
spec fn lvs(ls: Seq<LineType>) -> Seq<(bool, Seq<char>)> { Seq::new(ls.len(), |i: int| lv(ls[i])) }
spec fn bar_views(ps: Seq<Seq<char>>) -> Seq<(bool, Seq<char>)> { Seq::new(ps.len(), |i: int| (true, ps[i])) }
proof fn lemma_split_no_nl(s: Seq<char>)
    ensures split_nl_spec(s).len() >= 1, forall|i: int| 0 <= i < split_nl_spec(s).len() ==> !has_nl(#[trigger] split_nl_spec(s)[i])
    decreases s.len()
{
    if s.len() > 0 {
        lemma_split_no_nl(s.drop_last());
        let p = split_nl_spec(s.drop_last());
        if s.last() != '\n' {
            let q = p.drop_last().push(p.last().push(s.last()));
            assert forall|i: int| 0 <= i < q.len() implies !has_nl(#[trigger] q[i]) by {
                if i < q.len() - 1 { assert(q[i] == p[i]); }
                else {
                    assert(q[i] == p.last().push(s.last()));
                    assert(!has_nl(p[p.len() - 1]));
                    if has_nl(q[i]) { let k = choose|k: int| 0 <= k < q[i].len() && q[i][k] == '\n'; if k < p.last().len() { assert(p.last()[k] == '\n'); } }
                }
            }
        } else {
            let q = p.push(Seq::<char>::empty());
            assert forall|i: int| 0 <= i < q.len() implies !has_nl(#[trigger] q[i]) by { if i < p.len() { assert(q[i] == p[i]); } }
        }
    }
}

// ---- the rendering of a whole template: placeholders and literals accumulate on the current line,
// a NewLine part (and the end of a non-empty last line) emits it
struct Acc { cur: Seq<char>, wide: WSpec, out: Seq<(bool, Seq<char>)> }
spec fn flush_line(a: Acc, style: ProgressStyle, st: ProgressState, tw: u16) -> Acc {
    let text = match a.wide { WSpec::NoWide => a.cur, w => wide_text(w, a.cur, style, st, tw) };
    Acc { cur: Seq::<char>::empty(), wide: a.wide, out: a.out + bar_views(split_nl_spec(text)) }
}
spec fn step(a: Acc, p: TemplatePart, style: ProgressStyle, st: ProgressState, tw: u16) -> Acc {
    match p {
        TemplatePart::Literal(t) => Acc { cur: a.cur + expand(t.orig(), style.tab_width as nat), wide: a.wide, out: a.out },
        TemplatePart::Placeholder { key, align, width, truncate, style: sty, alt_style } => {
            let custom = style.format_map.lookup(key@) is Some;
            let wide = if !custom && key@ == "wide_bar"@ { WSpec::WBar(alt_style) } else if !custom && key@ == "wide_msg"@ { WSpec::WMsg(align) } else { a.wide };
            Acc { cur: a.cur + field_text(placeholder_value(key@, style, st, width, alt_style), width, align, truncate, sty), wide: wide, out: a.out }
        },
        TemplatePart::NewLine => flush_line(a, style, st, tw),
    }
}
spec fn run(parts: Seq<TemplatePart>, k: int, style: ProgressStyle, st: ProgressState, tw: u16) -> Acc decreases k {
    if k <= 0 { Acc { cur: Seq::<char>::empty(), wide: WSpec::NoWide, out: Seq::<(bool, Seq<char>)>::empty() } }
    else { step(run(parts, k - 1, style, st, tw), parts[k - 1], style, st, tw) }
}
spec fn rendered(style: ProgressStyle, st: ProgressState, tw: u16) -> Seq<(bool, Seq<char>)> {
    let a = run(style.template.parts@, style.template.parts@.len() as int, style, st, tw);
    if a.cur.len() == 0 { a.out } else { flush_line(a, style, st, tw).out }
}
// precondition: message, prefix and literals are expanded for the style's current tab width (established by
// ProgressStyle::set_tab_width / BarState::set_tab_width, c16_tabs), at least two tick strings (c14_style)
spec fn fs_pre(style: ProgressStyle, st: ProgressState) -> bool {
    &&& st.message.wf() && st.message.has_width(style.tab_width)
    &&& st.prefix.wf() && st.prefix.has_width(style.tab_width)
    &&& style.tick_strings@.len() >= 2
    &&& forall|i: int| 0 <= i < style.template.parts@.len() ==> (#[trigger] style.template.parts@[i] matches TemplatePart::Literal(t) ==> t.wf() && t.has_width(style.tab_width))
}
"""

STYLE_DECL_RW = [Rw("R15", r"Vec<Box<str>>", "Vec<String>", count=2),
                 Rw("R10", r"HashMap<&'static str, Box<dyn ProgressTracker>>", "FormatMap")]

UNIT = Unit(
    name="format_state",
    properties=["C11"],
    prelude=["time", "atomics", "tabs", "est_opaque", "sfmt"],
    rlimit=100,
    trusted=[
        "prelude/sfmt.rs (R7b): what core::fmt prints for a value under a flag set is the text function of that value type; writes into a String cannot fail",
        "std String operations (push, push_str, clear, replace of NUL, split at newlines, trim_end, byte length additive) as first-order helpers with the contracts shown in the unit",
        "a custom ProgressTracker writes only through the writer it is given; the map of custom keys is an opaque lookup",
        "getters fraction / per_sec / elapsed / eta / duration are opaque values of the state here (decided in C07 / C09 units); format_bar enters through its contract (c13_format_bar)",
    ],
    items=[
        Decl("src/state.rs", "enum", "TabExpandedString", rewrites=[T.COW]),
        Raw(T.TES_SPEC),
        Fn(**dict(T.TES_EXPANDED, stub=True)),
        Decl("src/state.rs", "struct", "AtomicPosition"),
        Decl("src/state.rs", "enum", "Status"),
        Decl("src/state.rs", "struct", "ProgressState", rewrites=[Rw("R2", r"Arc<AtomicPosition>", "AtomicPosition")]),
        Decl("src/style.rs", "enum", "Alignment", attrs="#[derive(Copy, Clone, PartialEq, Eq)]"),
        Decl("src/style.rs", "enum", "TemplatePart"),
        Decl("src/style.rs", "struct", "Template"),
        Decl("src/style.rs", "struct", "ProgressStyle", rewrites=STYLE_DECL_RW),
        Decl("src/style.rs", "struct", "TabRewriter", rewrites=[Rw("R10", r"&'a mut dyn fmt::Write", "&'a mut String")]),
        Decl("src/style.rs", "struct", "PaddedStringDisplay"),
        Decl("src/style.rs", "enum", "WideElement", attrs="#[derive(Clone, Copy)]"),
        Decl("src/draw_target.rs", "enum", "LineType"),
        Decl("src/format.rs", "struct", "HumanCount"), Decl("src/format.rs", "struct", "HumanBytes"), Decl("src/format.rs", "struct", "DecimalBytes"),
        Decl("src/format.rs", "struct", "BinaryBytes"), Decl("src/format.rs", "struct", "FormattedDuration"), Decl("src/format.rs", "struct", "HumanDuration"),
        Decl("src/format.rs", "struct", "HumanFloatCount"),
        Raw(SHIMS),
        Fn("src/state.rs", "ProgressState", "pos", rewrites=[K.AORD(1)], ensures=[("C07-pos", "r == self.pos.pos@")]),
        Fn("src/state.rs", "ProgressState", "len", ensures=[("C07-len", "r == self.len")]),
        Fn("src/state.rs", "ProgressState", "is_finished", ensures=[("def", "r == self.finished()")]),
        Raw(FS_SPEC),
        Fn("src/style.rs", "ProgressStyle", "format_bar", ret="r", stub=True,
           sig_rewrites=[Rw("R1", r"BarDisplay<'_>", "BarDisplay")],
           ensures=[("bar", "r.text() == bar_text(*self, fract, width, match alt_style { Some(s) => Some(*s), None => None })")]),
        Fn("src/style.rs", "WideElement", "expand", ret="r",
           rewrites=[Rw("R5", r"cur\.replace\('\\x00', \"\"\)", "s_replace_nul_empty(&cur)", count="any"),
                     Rw("R5", r"cur\.replace\(\s*'\\x00',\s*&format!\(\s*\"\{\}\",\s*(style\.format_bar\([^;]*?\))\s*\),\s*\)", r"s_replace_nul(&cur, &fmt_to_string(\1))"),
                     Rw("R5", r"buf\.clear\(\);", "s_clear(buf);"),
                     RwFn("R7b", r7b_write_fmt, count=1), Rw("R7b", r"s_disp\(&mut buf,", "s_disp(buf,"),
                     Rw("R5", r"match cur\.as_bytes\(\)\.last\(\) == Some\(&b'\\x00'\) \{", "match ends_with_nul(&cur) {"),
                     Rw("R5", r"true => buf\.trim_end\(\),", "true => s_trim_end(buf),"),
                     Rw("R5", r"false => buf,", "false => &*buf,"),
                     Rw("R5", r"cur\.replace\('\\x00', trimmed\)", "s_replace_nul(&cur, trimmed)"),
                     Rw("R1", r"Self::Bar", "WideElement::Bar")],
           requires=[("msg-expanded", "state.message.wf() && state.message.has_width(style.tab_width)")],
           ensures=[("C12-C13-wide-element-fills-the-rest", "r@ == wide_text(wview(Some(self)), cur@, *style, *state, width)")]),
        Fn("src/style.rs", "ProgressStyle", "push_line",
           rewrites=[Rw("R5", r"mem::take\(cur\)", "take_string(cur)", count=2),
                     Rw("R3", r"for \(i, line\) in expanded\.split\('\\n'\)\.enumerate\(\) \{", "let __sp = split_nl(&expanded); let mut __n0: usize = 0; while __n0 < __sp.len() { let i = __n0; let line = &__sp[__n0]; __n0 += 1;"),
                     Rw("R5", r"line\.len\(\) == expanded\.len\(\)", "same_byte_len(line, &expanded)"),
                     Rw("R5", r"line\.to_string\(\)", "to_owned_string(line)")],
           requires=[("msg-expanded", "state.message.wf() && state.message.has_width(self.tab_width)")],
           ensures=[("C10-one-line-per-template-line",
                     "lvs(final(lines)@) == lvs(old(lines)@) + bar_views(split_nl_spec(match wview(*wide) { WSpec::NoWide => old(cur)@, w => wide_text(w, old(cur)@, *self, *state, target_width) }))", ["C10", "C01", "C02", "C19"]),
                    ("cur-cleared", "final(cur)@.len() == 0")],
           proofs=[(r"let __sp = split_nl", "before", "        let ghost l0 = lines@; let ghost et = expanded@;"),
                   (r"break;", "before", """                proof {
                    let sp = split_nl_spec(et);
                    lemma_split_first(et);
                    if sp.len() > 1 {
                        let rest = choose|rest: Seq<char>| #[trigger] nl_cat(et, sp[0], rest);
                        axiom_blen(sp[0] + seq!['\\n'], rest); axiom_blen(sp[0], seq!['\\n']);
                    }
                    assert(sp.len() == 1 && sp[0] == et);
                    assert(bar_views(sp.subrange(0, 0)) =~= Seq::<(bool, Seq<char>)>::empty());
                    assert(lvs(lines@) =~= lvs(lb).push((true, et)));
                    assert(bar_views(sp) =~= seq![(true, et)]);
                    assert(lvs(lines@) =~= lvs(l0) + bar_views(sp));
                }""")],
           loops={0: {"invariant": ["__n0 <= __sp@.len()", "__sp@.len() == split_nl_spec(et).len()",
                                    "forall|k: int| 0 <= k < __sp@.len() ==> (#[trigger] __sp@[k])@ == split_nl_spec(et)[k]"],
                      "invariant_except_break": [
                                    "expanded@ == et",
                                    "lvs(lines@) == lvs(l0) + bar_views(split_nl_spec(et).subrange(0, __n0 as int))",
                                    "__n0 > 0 ==> split_nl_spec(et).len() > 1"],
                      "ensures": ["lvs(lines@) == lvs(l0) + bar_views(split_nl_spec(et))"],
                      "body_start": "            let ghost lb = lines@;",
                      "body_end": """            proof {
                let sp = split_nl_spec(et);
                lemma_split_first(et);
                if sp.len() == 1 { assert(sp[0] == et); }
                assert(sp.len() > 1);
                assert(sp.subrange(0, i + 1) =~= sp.subrange(0, i as int).push(sp[i as int]));
                assert(bar_views(sp.subrange(0, i + 1)) =~= bar_views(sp.subrange(0, i as int)).push((true, sp[i as int])));
                assert(lvs(lines@) =~= lvs(lb).push((true, sp[i as int])));
                if __n0 == __sp@.len() { assert(sp.subrange(0, __n0 as int) =~= sp); }
            }""",
                      "decreases": "__sp@.len() - __n0"}}),
        Lemma("lemma_run_lines", "(parts: Seq<TemplatePart>, k: int, style: ProgressStyle, st: ProgressState, tw: u16)",
              ensures=[("C10-C01-every-line-is-one-row-of-text",
                        "forall|i: int| 0 <= i < run(parts, k, style, st, tw).out.len() ==> (#[trigger] run(parts, k, style, st, tw).out[i]).0 && !has_nl(run(parts, k, style, st, tw).out[i].1)")],
              decreases="k",
              body="""{
    if k > 0 {
        lemma_run_lines(parts, k - 1, style, st, tw);
        let a = run(parts, k - 1, style, st, tw);
        if parts[k - 1] is NewLine {
            let text = match a.wide { WSpec::NoWide => a.cur, w => wide_text(w, a.cur, style, st, tw) };
            lemma_split_no_nl(text);
            let o = run(parts, k, style, st, tw).out;
            assert(o == a.out + bar_views(split_nl_spec(text)));
            assert forall|i: int| 0 <= i < o.len() implies (#[trigger] o[i]).0 && !has_nl(o[i].1) by {
                if i >= a.out.len() { assert(o[i] == bar_views(split_nl_spec(text))[i - a.out.len()]); }
            }
        }
    }
}"""),
        Lemma("lemma_rendered_lines", "(style: ProgressStyle, st: ProgressState, tw: u16)",
              ensures=[("C10-C01-frame-lines-are-bar-lines-without-newlines",
                        "forall|i: int| 0 <= i < rendered(style, st, tw).len() ==> (#[trigger] rendered(style, st, tw)[i]).0 && !has_nl(rendered(style, st, tw)[i].1)")],
              body="""{
    let parts = style.template.parts@;
    lemma_run_lines(parts, parts.len() as int, style, st, tw);
    let a = run(parts, parts.len() as int, style, st, tw);
    if a.cur.len() != 0 {
        let text = match a.wide { WSpec::NoWide => a.cur, w => wide_text(w, a.cur, style, st, tw) };
        lemma_split_no_nl(text);
        let o = rendered(style, st, tw);
        assert(o == a.out + bar_views(split_nl_spec(text)));
        assert forall|i: int| 0 <= i < o.len() implies (#[trigger] o[i]).0 && !has_nl(o[i].1) by {
            if i >= a.out.len() { assert(o[i] == bar_views(split_nl_spec(text))[i - a.out.len()]); }
        }
    }
}"""),
        Fn("src/style.rs", "ProgressStyle", "get_tick_str", ret="r", sig_rewrites=[Rw("R15", r"-> &str", "-> &String")],
           requires=[("two-ticks", "self.tick_strings@.len() >= 2")],
           ensures=[("def", "r@ == self.tick_strings@[(idx as usize as int) % (self.tick_strings@.len() - 1)]@")]),
        Fn("src/style.rs", "ProgressStyle", "get_final_tick_str", ret="r", sig_rewrites=[Rw("R15", r"-> &str", "-> &String")],
           requires=[("two-ticks", "self.tick_strings@.len() >= 2")],
           ensures=[("def", "r@ == self.tick_strings@[self.tick_strings@.len() - 1]@")]),
        Fn("src/style.rs", "ProgressStyle", "current_tick_str", ret="r", sig_rewrites=[Rw("R15", r"-> &str", "-> &String")],
           requires=[("two-ticks", "self.tick_strings@.len() >= 2")],
           ensures=[("C11-spinner", "r@ == tick_text(*self, *state)")]),
        Fn("src/style.rs", "ProgressStyle", "format_state", also=["C10", "C11"],   # the renderer of the parsed template: literal text and placeholder values
           rewrites=[Rw("R5", r"String::new\(\)", "s_new()", count=2),
                     Rw("R5", r"buf\.clear\(\);", "s_clear(&mut buf);"),
                     Rw("R5", r"buf\.push\('\\x00'\);", r"s_push(&mut buf, '\\x00');", count=2),
                     Rw("R10", r"self\.format_map\.get\(key\.as_str\(\)\)", "self.format_map.get(key)"),
                     Rw("R5", r"tracker\.write\(state, &mut TabRewriter\(&mut buf, self\.tab_width\)\);", "tracker_write(tracker, state, &mut buf, self.tab_width);"),
                     Rw("R6", r"state\.fraction\(\) \* 100f32", "pct(state.fraction())", count=2),
                     Rw("R6", r"state\.per_sec\(\) as u64", "f64_to_u64(state.per_sec())", count=3),
                     Rw("R5", r"!cur\.is_empty\(\)", "!s_is_empty(&cur)"),
                     RwFn("R7b", r7b_write_fmt), RwFn("R12", r12_match_str, count=1),
                     Rw("R5", r"(\w+)\.push_str\(", r"s_push_str(&mut \1, ", count=None),
                     RwFn("R3", r3_index_loops, count=1)],
           requires=[("pre", "fs_pre(*self, *state)")],
           proofs=[(r"let pos = state\.pos\(\);", "before", "        let ghost l0 = lines@;"),
                   (r"(?m)^\s*match width \{", "before", """                    proof {
                        let pv = placeholder_value(key@, *self, *state, *width, *alt_style);
                        /*@AS:C11-custom-key-gets-current-state*/ assert(self.format_map.lookup(key@) is Some ==> buf@ =~= pv);
                        /*@AS:C11-key-wide_bar*/ assert(self.format_map.lookup(key@) is None && key@ == "wide_bar"@ ==> buf@ =~= pv);
                        /*@AS:C11-key-bar*/ assert(self.format_map.lookup(key@) is None && key@ == "bar"@ ==> buf@ =~= pv);
                        /*@AS:C11-key-spinner*/ assert(self.format_map.lookup(key@) is None && key@ == "spinner"@ ==> buf@ =~= pv);
                        /*@AS:C11-key-wide_msg*/ assert(self.format_map.lookup(key@) is None && key@ == "wide_msg"@ ==> buf@ =~= pv);
                        /*@AS:C11-key-msg*/ assert(self.format_map.lookup(key@) is None && key@ == "msg"@ ==> buf@ =~= pv);
                        /*@AS:C11-key-prefix*/ assert(self.format_map.lookup(key@) is None && key@ == "prefix"@ ==> buf@ =~= pv);
                        /*@AS:C11-key-pos*/ assert(self.format_map.lookup(key@) is None && key@ == "pos"@ ==> buf@ =~= pv);
                        /*@AS:C11-key-human_pos*/ assert(self.format_map.lookup(key@) is None && key@ == "human_pos"@ ==> buf@ =~= pv);
                        /*@AS:C11-key-len*/ assert(self.format_map.lookup(key@) is None && key@ == "len"@ ==> buf@ =~= pv);
                        /*@AS:C11-key-human_len*/ assert(self.format_map.lookup(key@) is None && key@ == "human_len"@ ==> buf@ =~= pv);
                        /*@AS:C11-key-percent*/ assert(self.format_map.lookup(key@) is None && key@ == "percent"@ ==> buf@ =~= pv);
                        /*@AS:C11-key-percent_precise*/ assert(self.format_map.lookup(key@) is None && key@ == "percent_precise"@ ==> buf@ =~= pv);
                        /*@AS:C11-key-bytes*/ assert(self.format_map.lookup(key@) is None && key@ == "bytes"@ ==> buf@ =~= pv);
                        /*@AS:C11-key-total_bytes*/ assert(self.format_map.lookup(key@) is None && key@ == "total_bytes"@ ==> buf@ =~= pv);
                        /*@AS:C11-key-decimal_bytes*/ assert(self.format_map.lookup(key@) is None && key@ == "decimal_bytes"@ ==> buf@ =~= pv);
                        /*@AS:C11-key-decimal_total_bytes*/ assert(self.format_map.lookup(key@) is None && key@ == "decimal_total_bytes"@ ==> buf@ =~= pv);
                        /*@AS:C11-key-binary_bytes*/ assert(self.format_map.lookup(key@) is None && key@ == "binary_bytes"@ ==> buf@ =~= pv);
                        /*@AS:C11-key-binary_total_bytes*/ assert(self.format_map.lookup(key@) is None && key@ == "binary_total_bytes"@ ==> buf@ =~= pv);
                        /*@AS:C11-key-elapsed_precise*/ assert(self.format_map.lookup(key@) is None && key@ == "elapsed_precise"@ ==> buf@ =~= pv);
                        /*@AS:C11-key-elapsed*/ assert(self.format_map.lookup(key@) is None && key@ == "elapsed"@ ==> buf@ =~= pv);
                        /*@AS:C11-key-per_sec*/ assert(self.format_map.lookup(key@) is None && key@ == "per_sec"@ ==> buf@ =~= pv);
                        /*@AS:C11-key-bytes_per_sec*/ assert(self.format_map.lookup(key@) is None && key@ == "bytes_per_sec"@ ==> buf@ =~= pv);
                        /*@AS:C11-key-decimal_bytes_per_sec*/ assert(self.format_map.lookup(key@) is None && key@ == "decimal_bytes_per_sec"@ ==> buf@ =~= pv);
                        /*@AS:C11-key-binary_bytes_per_sec*/ assert(self.format_map.lookup(key@) is None && key@ == "binary_bytes_per_sec"@ ==> buf@ =~= pv);
                        /*@AS:C11-key-eta_precise*/ assert(self.format_map.lookup(key@) is None && key@ == "eta_precise"@ ==> buf@ =~= pv);
                        /*@AS:C11-key-eta*/ assert(self.format_map.lookup(key@) is None && key@ == "eta"@ ==> buf@ =~= pv);
                        /*@AS:C11-key-duration_precise*/ assert(self.format_map.lookup(key@) is None && key@ == "duration_precise"@ ==> buf@ =~= pv);
                        /*@AS:C11-key-duration*/ assert(self.format_map.lookup(key@) is None && key@ == "duration"@ ==> buf@ =~= pv);
                        assert(buf@ =~= placeholder_value(key@, *self, *state, *width, *alt_style));
                    }"""),
                   (r"if !s_is_empty\(&cur\)", "before", "        proof { assert(self.template.parts@.subrange(0, __n0 as int) =~= self.template.parts@); }")],
           loops={0: {"invariant": ["__n0 <= self.template.parts@.len()", "fs_pre(*self, *state)",
                                    "pos == state.pos.pos@", "len == (match state.len { Some(l) => l, None => pos })",
                                    "cur@ == run(self.template.parts@, __n0 as int, *self, *state, target_width).cur",
                                    "wview(wide) == run(self.template.parts@, __n0 as int, *self, *state, target_width).wide",
                                    "lvs(lines@) == lvs(l0) + run(self.template.parts@, __n0 as int, *self, *state, target_width).out"],
                      "decreases": "self.template.parts@.len() - __n0",
                      "body_start": "            let ghost a0 = run(self.template.parts@, __n0 as int, *self, *state, target_width); let ghost lb = lines@;",
                      "body_end": """            proof {
                let a1 = run(self.template.parts@, __k0 + 1, *self, *state, target_width);
                assert(a1 == step(a0, self.template.parts@[__k0 as int], *self, *state, target_width));
            }"""}},
           ensures=[("C11-C10-C16-C12-C13-rendered", "lvs(final(lines)@) == lvs(old(lines)@) + rendered(*self, *state, target_width)")]),
    ],
)
