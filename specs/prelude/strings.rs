// @private
// String helpers (ASSUMED contracts on std, R5): closure-taking iterator chains of the source
// are rewritten to these first-order helpers.
#[verifier::external_body]
fn explicit_panic() -> ! { panic!() }   // R8: assert! in a builder = explicit, documented rejection

// R5: `s.chars().map(|c| c.to_string().into()).collect()`  (Vec<Box<str>>, one entry per char)
#[verifier::external_body]
fn chars_to_strings(s: &str) -> (r: Vec<String>)
    ensures r@.len() == s@.len(), forall|i: int| 0 <= i < r@.len() ==> (#[trigger] r@[i])@ == seq![s@[i]]
{ unimplemented!() }

// R5: `s.iter().map(|s| s.to_string().into()).collect()`
#[verifier::external_body]
fn strs_to_strings(s: &[&str]) -> (r: Vec<String>)
    ensures r@.len() == s@.len(), forall|i: int| 0 <= i < r@.len() ==> (#[trigger] r@[i])@ == s@[i]@
{ unimplemented!() }

// unicode_width::UnicodeWidthStr::width (default feature set): uninterpreted
uninterp spec fn swidth(s: Seq<char>) -> nat;
#[verifier::external_body]
fn measure(s: &str) -> (r: usize) ensures r == swidth(s@) { unimplemented!() }
