// @private
// What core::fmt prints for the argument types used by indicatif's formatters (ASSUMED, R7).
spec fn digit(d: nat) -> char { if d == 0 { '0' } else if d == 1 { '1' } else if d == 2 { '2' } else if d == 3 { '3' } else if d == 4 { '4' }
    else if d == 5 { '5' } else if d == 6 { '6' } else if d == 7 { '7' } else if d == 8 { '8' } else { '9' } }
// canonical decimal representation (what `{}` prints for an unsigned integer)
spec fn dec(x: nat) -> Seq<char> decreases x { if x < 10 { seq![digit(x)] } else { dec(x / 10).push(digit(x % 10)) } }
spec fn is_digit(c: char) -> bool { '0' <= c <= '9' }
spec fn all_digits(s: Seq<char>) -> bool { forall|i: int| 0 <= i < s.len() ==> is_digit(#[trigger] s[i]) }
// `{:02}`: at least two digits, zero padded
spec fn pad2(x: nat) -> Seq<char> { if x < 10 { seq!['0'] + dec(x) } else { dec(x) } }

proof fn lemma_dec_digits(x: nat)
    ensures all_digits(dec(x)), dec(x).len() >= 1
    decreases x
{
    if x >= 10 { lemma_dec_digits(x / 10); }
}

trait Disp { spec fn disp(&self) -> Seq<char>; }
impl Disp for u64 { spec fn disp(&self) -> Seq<char> { dec(*self as nat) } }
impl Disp for usize { spec fn disp(&self) -> Seq<char> { dec(*self as nat) } }
impl<'a> Disp for &'a str { spec fn disp(&self) -> Seq<char> { self@ } }

impl Formatter {
    #[verifier::external_body]
    fn w_display<T: Disp>(&mut self, x: T) -> (r: Result<(), FmtError>)
        ensures r.is_ok() ==> final(self).text() == old(self).text() + x.disp(),
                final(self).alternate == old(self).alternate, final(self).precision == old(self).precision
    { unimplemented!() }
    #[verifier::external_body]
    fn w_pad2(&mut self, x: u64) -> (r: Result<(), FmtError>)
        ensures r.is_ok() ==> final(self).text() == old(self).text() + pad2(x as nat),
                final(self).alternate == old(self).alternate, final(self).precision == old(self).precision
    { unimplemented!() }
}
// R5: u64::to_string
#[verifier::external_body]
fn u64_to_string(x: u64) -> (r: String) ensures r@ == dec(x as nat) { x.to_string() }
// strings by value or by reference (helpers below take either)
trait StrLike { spec fn sv(&self) -> Seq<char>; }
impl StrLike for String { spec fn sv(&self) -> Seq<char> { self@ } }
impl<'a> StrLike for &'a str { spec fn sv(&self) -> Seq<char> { self@ } }
// R5: the characters of a string, materialised (for `s.chars().enumerate()` loops)
#[verifier::external_body]
fn chars_of<T: StrLike>(s: &T) -> (r: Vec<char>) ensures r@ == s.sv() { unimplemented!() }
// R5: str::len / String::len (bytes) -- equal to the number of chars for ASCII text
#[verifier::external_body]
fn ascii_len<T: StrLike>(s: &T) -> (r: usize) ensures all_ascii(s.sv()) ==> r == s.sv().len() { unimplemented!() }
spec fn all_ascii(s: Seq<char>) -> bool { forall|i: int| 0 <= i < s.len() ==> (#[trigger] s[i] as u32) < 128 }
