// R10 (ASSUMED model): the wrapped iterator / reader / writer / seeker is ONE model type `Src` whose
// every method has arbitrary behaviour (results unconstrained) and appends an event holding its
// arguments and its result to a ghost log.  "Transparent" = the wrapper performs exactly that one
// inner call and hands its result (and buffer contents) to the caller unchanged.  Item type u64
// stands for the generic item type (the wrapper is parametric in it).
pub struct IoError { pub kind: u8 }
pub enum SeekFrom { Start(u64), End(i64), Current(i64) }
impl PartialEq for SeekFrom { #[verifier::external_body] fn eq(&self, o: &SeekFrom) -> bool { unimplemented!() } }
impl PartialEqSpecImpl for SeekFrom {
    open spec fn obeys_eq_spec() -> bool { true }
    open spec fn eq_spec(&self, o: &SeekFrom) -> bool { *self == *o }
}
pub enum Ev {
    Next(Option<u64>), NextBack(Option<u64>), Len(usize),
    Read(Seq<u8>, Result<usize, IoError>), ReadVectored(Result<usize, IoError>),
    ReadToString(Seq<char>, Result<usize, IoError>), ReadExact(Seq<u8>, Result<(), IoError>),
    FillBuf(Result<Seq<u8>, IoError>), Consume(usize),
    Seek(SeekFrom, Result<u64, IoError>), StreamPosition(Result<u64, IoError>),
    Write(Seq<u8>, Result<usize, IoError>), WriteVectored(Result<usize, IoError>), Flush(Result<(), IoError>),
}
pub struct Src { pub log: Ghost<Seq<Ev>> }
#[verifier::external_body]
pub struct IoSliceMut<'a> { _p: core::marker::PhantomData<&'a ()> }
#[verifier::external_body]
pub struct IoSlice<'a> { _p: core::marker::PhantomData<&'a ()> }
pub open spec fn fill_view(r: Result<&[u8], IoError>) -> Result<Seq<u8>, IoError> { match r { Ok(b) => Ok(b@), Err(e) => Err(e) } }
impl Src {
    #[verifier::external_body] pub fn next(&mut self) -> (r: Option<u64>) ensures final(self).log@ == old(self).log@.push(Ev::Next(r)) { unimplemented!() }
    #[verifier::external_body] pub fn next_back(&mut self) -> (r: Option<u64>) ensures final(self).log@ == old(self).log@.push(Ev::NextBack(r)) { unimplemented!() }
    #[verifier::external_body] pub fn len(&self) -> (r: usize) { unimplemented!() }
    #[verifier::external_body] pub fn read(&mut self, buf: &mut [u8]) -> (r: Result<usize, IoError>)
        ensures final(self).log@ == old(self).log@.push(Ev::Read(final(buf)@, r)), final(buf)@.len() == old(buf)@.len() { unimplemented!() }
    #[verifier::external_body] pub fn read_vectored(&mut self, bufs: &mut [IoSliceMut<'_>]) -> (r: Result<usize, IoError>)
        ensures final(self).log@ == old(self).log@.push(Ev::ReadVectored(r)) { unimplemented!() }
    #[verifier::external_body] pub fn read_to_string(&mut self, buf: &mut String) -> (r: Result<usize, IoError>)
        ensures final(self).log@ == old(self).log@.push(Ev::ReadToString(final(buf)@, r)) { unimplemented!() }
    #[verifier::external_body] pub fn read_exact(&mut self, buf: &mut [u8]) -> (r: Result<(), IoError>)
        ensures final(self).log@ == old(self).log@.push(Ev::ReadExact(final(buf)@, r)), final(buf)@.len() == old(buf)@.len() { unimplemented!() }
    #[verifier::external_body] pub fn fill_buf(&mut self) -> (r: Result<&[u8], IoError>)
        ensures final(self).log@ == old(self).log@.push(Ev::FillBuf(fill_view(r))) { unimplemented!() }
    #[verifier::external_body] pub fn consume(&mut self, amt: usize) ensures final(self).log@ == old(self).log@.push(Ev::Consume(amt)) { unimplemented!() }
    #[verifier::external_body] pub fn seek(&mut self, f: SeekFrom) -> (r: Result<u64, IoError>) ensures final(self).log@ == old(self).log@.push(Ev::Seek(f, r)) { unimplemented!() }
    #[verifier::external_body] pub fn stream_position(&mut self) -> (r: Result<u64, IoError>) ensures final(self).log@ == old(self).log@.push(Ev::StreamPosition(r)) { unimplemented!() }
    #[verifier::external_body] pub fn write(&mut self, buf: &[u8]) -> (r: Result<usize, IoError>) ensures final(self).log@ == old(self).log@.push(Ev::Write(buf@, r)) { unimplemented!() }
    #[verifier::external_body] pub fn write_vectored(&mut self, bufs: &[IoSlice<'_>]) -> (r: Result<usize, IoError>) ensures final(self).log@ == old(self).log@.push(Ev::WriteVectored(r)) { unimplemented!() }
    #[verifier::external_body] pub fn flush(&mut self) -> (r: Result<(), IoError>) ensures final(self).log@ == old(self).log@.push(Ev::Flush(r)) { unimplemented!() }
}
// The bar as seen from the adaptors (contracts of ProgressBar::{inc, set_position, is_finished,
// finish_using_style}: C07 / C04 units): position, finished flag, number of finish calls.
pub struct ProgressBar { pub pos: u64, pub finished: bool, pub finishes: Ghost<nat> }
impl ProgressBar {
    #[verifier::external_body] pub fn inc(&mut self, delta: u64)
        ensures final(self).pos as nat == (old(self).pos as nat + delta as nat) % 0x1_0000_0000_0000_0000nat, final(self).finished == old(self).finished, final(self).finishes == old(self).finishes { unimplemented!() }
    #[verifier::external_body] pub fn set_position(&mut self, pos: u64)
        ensures final(self).pos == pos, final(self).finished == old(self).finished, final(self).finishes == old(self).finishes { unimplemented!() }
    #[verifier::external_body] pub fn is_finished(&self) -> (r: bool) ensures r == self.finished { unimplemented!() }
    #[verifier::external_body] pub fn finish_using_style(&mut self)
        ensures final(self).finished, final(self).finishes@ == old(self).finishes@ + 1 { unimplemented!() }
}
// ---- tokio / futures side of the model (R10): Poll, Context, ReadBuf; Pin::new(&mut x) is the identity on Unpin values
pub enum Poll<T> { Ready(T), Pending }
#[verifier::external_body]
pub struct Context<'a> { _p: core::marker::PhantomData<&'a ()> }
pub struct ReadBuf<'a> { pub filled: Ghost<Seq<u8>>, pub _p: core::marker::PhantomData<&'a ()> }
impl<'a> ReadBuf<'a> {
    #[verifier::external_body] pub fn filled(&self) -> (r: &[u8]) ensures r@ == self.filled@ { unimplemented!() }
}
pub enum AEv {
    PollWrite(Seq<u8>, Poll<Result<usize, IoError>>), PollFlush(Poll<Result<(), IoError>>), PollShutdown(Poll<Result<(), IoError>>),
    PollRead(Seq<u8>, Poll<Result<(), IoError>>), StartSeek(SeekFrom, Result<(), IoError>), PollComplete(Poll<Result<u64, IoError>>),
    PollFillBuf(Poll<Result<Seq<u8>, IoError>>), Consume(usize), PollNext(Poll<Option<u64>>),
}
pub struct ASrc { pub log: Ghost<Seq<AEv>> }
pub open spec fn pfill_view(r: Poll<Result<&[u8], IoError>>) -> Poll<Result<Seq<u8>, IoError>> {
    match r { Poll::Ready(Ok(b)) => Poll::Ready(Ok(b@)), Poll::Ready(Err(e)) => Poll::Ready(Err(e)), Poll::Pending => Poll::Pending }
}
impl ASrc {
    #[verifier::external_body] pub fn poll_write(&mut self, cx: &mut Context<'_>, buf: &[u8]) -> (r: Poll<Result<usize, IoError>>)
        ensures final(self).log@ == old(self).log@.push(AEv::PollWrite(buf@, r)) { unimplemented!() }
    #[verifier::external_body] pub fn poll_flush(&mut self, cx: &mut Context<'_>) -> (r: Poll<Result<(), IoError>>)
        ensures final(self).log@ == old(self).log@.push(AEv::PollFlush(r)) { unimplemented!() }
    #[verifier::external_body] pub fn poll_shutdown(&mut self, cx: &mut Context<'_>) -> (r: Poll<Result<(), IoError>>)
        ensures final(self).log@ == old(self).log@.push(AEv::PollShutdown(r)) { unimplemented!() }
    // AsyncRead contract: a poll only appends to the filled part of the buffer
    #[verifier::external_body] pub fn poll_read(&mut self, cx: &mut Context<'_>, buf: &mut ReadBuf<'_>) -> (r: Poll<Result<(), IoError>>)
        ensures final(self).log@ == old(self).log@.push(AEv::PollRead(final(buf).filled@, r)), final(buf).filled@.len() >= old(buf).filled@.len(),
                r is Pending ==> final(buf).filled@ == old(buf).filled@ { unimplemented!() }
    #[verifier::external_body] pub fn start_seek(&mut self, position: SeekFrom) -> (r: Result<(), IoError>)
        ensures final(self).log@ == old(self).log@.push(AEv::StartSeek(position, r)) { unimplemented!() }
    #[verifier::external_body] pub fn poll_complete(&mut self, cx: &mut Context<'_>) -> (r: Poll<Result<u64, IoError>>)
        ensures final(self).log@ == old(self).log@.push(AEv::PollComplete(r)) { unimplemented!() }
    #[verifier::external_body] pub fn poll_fill_buf(&mut self, cx: &mut Context<'_>) -> (r: Poll<Result<&[u8], IoError>>)
        ensures final(self).log@ == old(self).log@.push(AEv::PollFillBuf(pfill_view(r))) { unimplemented!() }
    #[verifier::external_body] pub fn consume(&mut self, amt: usize) ensures final(self).log@ == old(self).log@.push(AEv::Consume(amt)) { unimplemented!() }
    #[verifier::external_body] pub fn poll_next(&mut self, cx: &mut Context<'_>) -> (r: Poll<Option<u64>>)
        ensures final(self).log@ == old(self).log@.push(AEv::PollNext(r)) { unimplemented!() }
}
