// @private
// Opaque draw target (ASSUMED).
pub struct IoError { pub kind: u8 }

#[verifier::external_body]
pub struct ProgressDrawTarget { _p: core::marker::PhantomData<()> }
impl ProgressDrawTarget {
    #[verifier::external_body]
    pub fn mark_zombie(&mut self) { unimplemented!() }
}

