// @private
// Opaque draw target (ASSUMED).
pub struct IoError { pub kind: u8 }

#[verifier::external_body]
pub struct ProgressDrawTarget { _p: core::marker::PhantomData<()> }
impl ProgressDrawTarget {
    uninterp spec fn wf2(&self) -> bool;     // the target's type invariant (defined in the bar_draw unit)
    uninterp spec fn hidden(&self) -> bool;
    #[verifier::external_body]
    pub fn is_hidden(&self) -> (r: bool) ensures r == self.hidden() { unimplemented!() }
    #[verifier::external_body]
    pub fn mark_zombie(&mut self) { unimplemented!() }
}

