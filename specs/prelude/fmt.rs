// @private
// core::fmt shim (ASSUMED): a Formatter is a ghost character sink; every write may fail, and a
// successful write appends exactly the text.
struct FmtError { k: u8 }
struct Formatter { out: Ghost<Seq<char>>, alternate: bool, precision: Option<usize> }
impl Formatter {
    spec fn text(&self) -> Seq<char> { self.out@ }
    #[verifier::external_body]
    fn write_str(&mut self, s: &str) -> (r: Result<(), FmtError>)
        ensures r.is_ok() ==> final(self).text() == old(self).text() + s@,
                final(self).alternate == old(self).alternate, final(self).precision == old(self).precision
    { unimplemented!() }
    #[verifier::external_body]
    fn write_char(&mut self, c: char) -> (r: Result<(), FmtError>)
        ensures r.is_ok() ==> final(self).text() == old(self).text().push(c),
                final(self).alternate == old(self).alternate, final(self).precision == old(self).precision
    { unimplemented!() }
    fn alternate(&self) -> (r: bool) ensures r == self.alternate { self.alternate }
    fn precision(&self) -> (r: Option<usize>) ensures r == self.precision { self.precision }
}
