// R6 (ASSUMED): f64 as a mathematical real plus a finiteness flag.  IEEE-754 rounding, overflow to
// infinity and NaN propagation are NOT modelled; the only way to lose finiteness here is a division
// by zero.  `powf` is uninterpreted (see the axioms on W in the unit).
#[derive(Clone, Copy)]
pub struct F64 { pub g: Ghost<(real, bool)> }
pub uninterp spec fn powr(b: real, e: real) -> real;
impl F64 {
    pub open spec fn r(self) -> real { self.g@.0 }
    pub open spec fn fin(self) -> bool { self.g@.1 }
    #[verifier::external_body]
    pub fn ratio(n: u64, d: u64) -> (r: F64) requires d > 0 ensures r.r() == n as real / d as real, r.fin() { unimplemented!() }
    #[verifier::external_body]
    pub fn from_u64(n: u64) -> (r: F64) ensures r.r() == n as real, r.fin() { unimplemented!() }
    #[verifier::external_body]
    pub fn from_u32(n: u32) -> (r: F64) ensures r.r() == n as real, r.fin() { unimplemented!() }
    #[verifier::external_body]
    pub fn powf(self, e: F64) -> (r: F64) ensures r.r() == powr(self.r(), e.r()), r.fin() == (self.fin() && e.fin()) { unimplemented!() }
}
impl core::ops::Mul<F64> for F64 { type Output = F64; #[verifier::external_body] fn mul(self, o: F64) -> F64 { unimplemented!() } }
impl MulSpecImpl<F64> for F64 {
    open spec fn obeys_mul_spec() -> bool { true }
    open spec fn mul_req(self, o: F64) -> bool { true }
    open spec fn mul_spec(self, o: F64) -> F64 { F64 { g: Ghost((self.r() * o.r(), self.fin() && o.fin())) } }
}
impl core::ops::Add<F64> for F64 { type Output = F64; #[verifier::external_body] fn add(self, o: F64) -> F64 { unimplemented!() } }
impl AddSpecImpl<F64> for F64 {
    open spec fn obeys_add_spec() -> bool { true }
    open spec fn add_req(self, o: F64) -> bool { true }
    open spec fn add_spec(self, o: F64) -> F64 { F64 { g: Ghost((self.r() + o.r(), self.fin() && o.fin())) } }
}
impl core::ops::Sub<F64> for F64 { type Output = F64; #[verifier::external_body] fn sub(self, o: F64) -> F64 { unimplemented!() } }
impl SubSpecImpl<F64> for F64 {
    open spec fn obeys_sub_spec() -> bool { true }
    open spec fn sub_req(self, o: F64) -> bool { true }
    open spec fn sub_spec(self, o: F64) -> F64 { F64 { g: Ghost((self.r() - o.r(), self.fin() && o.fin())) } }
}
// IEEE division never panics; a zero divisor loses finiteness (NaN / infinity)
impl core::ops::Div<F64> for F64 { type Output = F64; #[verifier::external_body] fn div(self, o: F64) -> F64 { unimplemented!() } }
impl DivSpecImpl<F64> for F64 {
    open spec fn obeys_div_spec() -> bool { true }
    open spec fn div_req(self, o: F64) -> bool { true }
    open spec fn div_spec(self, o: F64) -> F64 { F64 { g: Ghost((self.r() / o.r(), self.fin() && o.fin() && o.r() != 0real)) } }
}
impl PartialEq for F64 { #[verifier::external_body] fn eq(&self, o: &F64) -> bool { unimplemented!() } }
impl PartialEqSpecImpl for F64 {
    open spec fn obeys_eq_spec() -> bool { true }
    open spec fn eq_spec(&self, o: &F64) -> bool { self.r() == o.r() }
}
impl PartialOrd for F64 { #[verifier::external_body] fn partial_cmp(&self, o: &F64) -> Option<Ordering> { unimplemented!() } }
impl PartialOrdSpecImpl for F64 {
    open spec fn obeys_partial_cmp_spec() -> bool { true }
    open spec fn partial_cmp_spec(&self, o: &F64) -> Option<Ordering> {
        if self.r() < o.r() { Some(Ordering::Less) } else if self.r() == o.r() { Some(Ordering::Equal) } else { Some(Ordering::Greater) }
    }
}
pub open spec fn rfloor(x: real) -> int { x.floor() }
impl F64 {
    #[verifier::external_body]
    pub fn from_usize(n: usize) -> (r: F64) ensures r.r() == n as real, r.fin() { unimplemented!() }
    // `x as usize` (saturating float-to-int cast) on a non-negative finite value below 2^64: the floor
    #[verifier::external_body]
    pub fn trunc_usize(self) -> (r: usize) requires 0real <= self.r() < 18446744073709551616real ensures r as int == rfloor(self.r()) { unimplemented!() }
    #[verifier::external_body]
    pub fn fract(self) -> (r: F64) ensures self.r() >= 0real ==> r.r() == self.r() - rfloor(self.r()) as real, -1real < r.r() < 1real, r.fin() == self.fin() { unimplemented!() }
}
impl F64 {
    // `x as u64` / `x as u32`: saturating float-to-int casts (negative and NaN give 0)
    #[verifier::external_body]
    pub fn trunc_u64(self) -> (r: u64)
        ensures self.r() >= 18446744073709551615real ==> r == u64::MAX, 0real <= self.r() < 18446744073709551615real ==> r as int == rfloor(self.r()), self.r() < 0real ==> r == 0
    { unimplemented!() }
    #[verifier::external_body]
    pub fn trunc_u32(self) -> (r: u32)
        ensures self.r() >= 4294967295real ==> r == u32::MAX, 0real <= self.r() < 4294967295real ==> r as int == rfloor(self.r()), self.r() < 0real ==> r == 0
    { unimplemented!() }
    // f64::trunc on a non-negative value: the floor, as a float
    #[verifier::external_body]
    pub fn trunc(self) -> (r: F64) ensures self.r() >= 0real ==> r.r() == rfloor(self.r()) as real, self.r() < 0real ==> r.r() <= 0real, r.fin() == self.fin() { unimplemented!() }
}
pub open spec fn rceil(x: real) -> int { -((-x).floor()) }
impl F64 {
    #[verifier::external_body]
    pub fn ceil(self) -> (r: F64) ensures r.r() == rceil(self.r()) as real, r.fin() == self.fin() { unimplemented!() }
}
impl F64 {
    #[verifier::external_body]
    pub fn floor(self) -> (r: F64) ensures r.r() == rfloor(self.r()) as real, r.fin() == self.fin() { unimplemented!() }
    #[verifier::external_body]
    pub fn round(self) -> (r: F64) ensures self.r() >= 0real ==> r.r() == rfloor(self.r() + 0.5real) as real, r.fin() == self.fin() { unimplemented!() }
}
impl F64 {
    // f32/f64::clamp on finite bounds lo <= hi
    #[verifier::external_body]
    pub fn clamp(self, lo: F64, hi: F64) -> (r: F64) requires lo.r() <= hi.r()
        ensures r.r() == (if self.r() < lo.r() { lo.r() } else if self.r() > hi.r() { hi.r() } else { self.r() }), r.fin() == self.fin()
    { unimplemented!() }
}
