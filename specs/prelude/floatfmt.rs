// @private
// Float printing of core::fmt (ASSUMED, R6/R7): `format!("{:.*}", p, x)` is an uninterpreted
// text of the documented shape; Verus has no float arithmetic, so f64 values are only passed on.
uninterp spec fn fixed(x: f64, p: nat) -> Seq<char>;      // format!("{:.*}", p, x)
uninterp spec fn truncs(x: f64) -> Seq<char>;             // x.trunc().to_string()
spec fn str_nan() -> Seq<char> { seq!['N', 'a', 'N'] }
spec fn str_inf() -> Seq<char> { seq!['i', 'n', 'f'] }
spec fn no_dot(s: Seq<char>) -> bool { forall|i: int| 0 <= i < s.len() ==> s[i] != '.' }
// shape of a fixed-precision rendering: [-] digits [. p digits]  |  NaN | inf | -inf
spec fn fixed_shape(t: Seq<char>, p: nat, neg: bool, ip: Seq<char>, fp: Seq<char>) -> bool {
    &&& ip.len() >= 1 && (all_digits(ip) || ip == str_nan() || ip == str_inf())
    &&& all_digits(fp) && fp.len() == (if all_digits(ip) { p } else { 0 })
    &&& t == (if neg { seq!['-'] } else { Seq::<char>::empty() }) + ip + (if fp.len() > 0 { seq!['.'] + fp } else { Seq::<char>::empty() })
}
#[verifier::external_body]
proof fn axiom_fixed_shape(x: f64, p: nat) -> (w: (bool, Seq<char>, Seq<char>))
    ensures fixed_shape(fixed(x, p), p, w.0, w.1, w.2)
{ arbitrary() }

#[verifier::external_body]
fn f64_fixed(x: f64, p: usize) -> (r: String) ensures r@ == fixed(x, p as nat) { unimplemented!() }
#[verifier::external_body]
fn f64_trunc_string(x: f64) -> (r: String) ensures r@ == truncs(x) { unimplemented!() }
// R5: `num.split_once('.')`
#[verifier::external_body]
fn split_once_dot<'a>(s: &'a String) -> (r: Option<(&'a str, &'a str)>)
    ensures match r {
        Some((a, b)) => s@ == a@ + seq!['.'] + b@ && no_dot(a@),
        None => no_dot(s@),
    }
{ unimplemented!() }
#[verifier::external_body]
fn str_to_string(s: &str) -> (r: String) ensures r@ == s@ { s.to_string() }
// R5: `s.trim_end_matches('0')`
spec fn trim0(s: Seq<char>) -> Seq<char> decreases s.len() {
    if s.len() > 0 && s.last() == '0' { trim0(s.drop_last()) } else { s }
}
#[verifier::external_body]
fn trim_end_zeros(s: &str) -> (r: &str) ensures r@ == trim0(s@) { s.trim_end_matches('0') }
#[verifier::external_body]
fn str_is_empty(s: &str) -> (r: bool) ensures r == (s@.len() == 0) { s.is_empty() }
// R5: `s.strip_prefix('-')`
#[verifier::external_body]
fn strip_minus<'a>(s: &'a String) -> (r: Option<&'a str>)
    ensures match r {
        Some(d) => s@.len() >= 1 && s@[0] == '-' && d@ == s@.subrange(1, s@.len() as int),
        None => s@.len() == 0 || s@[0] != '-',
    }
{ unimplemented!() }
// R5: String::clone
#[verifier::external_body]
fn string_clone(s: &String) -> (r: String) ensures r@ == s@ { s.clone() }

// number_prefix (ASSUMED dependency, R6): NumberPrefix::{binary,decimal}(x as f64) as uninterpreted
// functions of the integer; Prefix prints its symbol (Ki, Mi, .. / k, M, ..)
#[verifier::external_body]
struct Prefix { _p: core::marker::PhantomData<()> }
impl Prefix { uninterp spec fn symbol(&self) -> Seq<char>; }
impl Disp for Prefix { spec fn disp(&self) -> Seq<char> { self.symbol() } }
enum NumberPrefix { Standalone(f64), Prefixed(Prefix, f64) }
uninterp spec fn np_binary_spec(x: u64) -> NumberPrefix;
uninterp spec fn np_decimal_spec(x: u64) -> NumberPrefix;
#[verifier::external_body]
fn np_binary(x: u64) -> (r: NumberPrefix) ensures r == np_binary_spec(x) { unimplemented!() }
#[verifier::external_body]
fn np_decimal(x: u64) -> (r: NumberPrefix) ensures r == np_decimal_spec(x) { unimplemented!() }
impl Formatter {
    #[verifier::external_body]
    fn w_fixed(&mut self, x: f64, p: usize) -> (r: Result<(), FmtError>)
        ensures r.is_ok() ==> final(self).text() == old(self).text() + fixed(x, p as nat),
                final(self).alternate == old(self).alternate, final(self).precision == old(self).precision
    { unimplemented!() }
}
spec fn bytes_text(np: NumberPrefix) -> Seq<char> {
    match np {
        NumberPrefix::Standalone(n) => fixed(n, 0) + seq![' ', 'B'],                       // whole number of plain bytes
        NumberPrefix::Prefixed(p, n) => fixed(n, 2) + seq![' '] + p.symbol() + seq!['B'],  // two decimals + prefix + B
    }
}
