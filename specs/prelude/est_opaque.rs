// @private
// Opaque Estimator (ASSUMED): its internals are float code, see c09 units.
#[verifier::external_body]
pub struct Estimator { _p: core::marker::PhantomData<()> }
impl Estimator {
    // the instant since which the estimate counts (its start_time; verified in c09_estimator: reset / new leave a fresh
    // estimator anchored at `now`)
    pub uninterp spec fn anchor(&self) -> Instant;
    #[verifier::external_body]
    pub fn new(now: Instant) -> (r: Estimator) ensures r.anchor() == now { unimplemented!() }
    #[verifier::external_body]
    pub fn record(&mut self, new_steps: u64, now: Instant) { unimplemented!() }
    #[verifier::external_body]
    pub fn reset(&mut self, now: Instant) ensures final(self).anchor() == now { unimplemented!() }
}

