// @private
// Opaque Estimator (ASSUMED): its internals are float code, see c09 units.
#[verifier::external_body]
pub struct Estimator { _p: core::marker::PhantomData<()> }
impl Estimator {
    #[verifier::external_body]
    pub fn new(now: Instant) -> Estimator { unimplemented!() }
    #[verifier::external_body]
    pub fn record(&mut self, new_steps: u64, now: Instant) { unimplemented!() }
    #[verifier::external_body]
    pub fn reset(&mut self, now: Instant) { unimplemented!() }
}

