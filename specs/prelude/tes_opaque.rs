// @private
// TabExpandedString as an abstract pair (original text, tab width); C16 verifies the real one.
#[verifier::external_body]
pub struct TabExpandedString { _p: core::marker::PhantomData<()> }
impl TabExpandedString {
    pub uninterp spec fn original(&self) -> Seq<char>;
    pub uninterp spec fn tab_width(&self) -> usize;
    #[verifier::external_body]
    pub fn new(s: String, tab_width: usize) -> (r: TabExpandedString)
        ensures r.original() == s@, r.tab_width() == tab_width
    { unimplemented!() }
    #[verifier::external_body]
    pub fn set_tab_width(&mut self, new_tab_width: usize)
        ensures final(self).original() == old(self).original(), final(self).tab_width() == new_tab_width
    { unimplemented!() }
}

