// @private
// console::measure_text_width (ASSUMED, uninterpreted) and the byte-level str API, with their
// meaning fixed only on printable ASCII, where columns == chars == bytes.
uninterp spec fn cols(s: Seq<char>) -> nat;
uninterp spec fn blen(s: Seq<char>) -> nat;                                  // str::len (bytes)
uninterp spec fn byte_slice(s: Seq<char>, a: nat, b: nat) -> Option<Seq<char>>;  // str::get(a..b)
spec fn printable_ascii(s: Seq<char>) -> bool { forall|i: int| 0 <= i < s.len() ==> ' ' <= #[trigger] s[i] <= '~' }

#[verifier::external_body]
proof fn axiom_ascii(s: Seq<char>)
    requires printable_ascii(s)
    ensures cols(s) == s.len(), blen(s) == s.len(),
            forall|a: nat, b: nat| a <= b <= s.len() ==> #[trigger] byte_slice(s, a, b) == Some(s.subrange(a as int, b as int)),
            forall|a: nat, b: nat| !(a <= b <= s.len()) ==> #[trigger] byte_slice(s, a, b) == None::<Seq<char>>
{}
#[verifier::external_body]
fn measure_text_width(s: &str) -> (r: usize) ensures r == cols(s@) { unimplemented!() }
// R5: `s.len()` on a &str
#[verifier::external_body]
fn byte_len(s: &str) -> (r: usize) ensures r == blen(s@) { s.len() }
// R5: `s.get(a..b)`
#[verifier::external_body]
fn str_get(s: &str, a: usize, b: usize) -> (r: Option<&str>)
    ensures match r { Some(x) => byte_slice(s@, a as nat, b as nat) == Some(x@), None => byte_slice(s@, a as nat, b as nat) == None::<Seq<char>> }
{ s.get(a..b) }
spec fn spaces(n: nat) -> Seq<char> { Seq::new(n, |i: int| ' ') }
// ASSUMED about unicode-width / UTF-8: no text is wider in columns than it is long in bytes
// (a 2-column character needs at least 3 bytes; ANSI escapes count 0 columns)
#[verifier::external_body]
proof fn axiom_cols_le_bytes(s: Seq<char>) ensures cols(s) <= blen(s) {}
