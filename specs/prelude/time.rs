// Shim of std::time (ASSUMED model, DESIGN 1.2): Instant / Duration are natural numbers of
// nanoseconds; Duration is additionally bounded like std's (u64 seconds + < 1e9 ns).
#[derive(Clone, Copy)]
pub struct Duration { pub ns: Ghost<nat> }
#[derive(Clone, Copy)]
pub struct Instant { pub ns: Ghost<nat> }

pub open spec fn DURATION_MAX_NS() -> nat { 18446744073709551615 * 1_000_000_000 + 999_999_999 }

impl Duration {
    pub open spec fn ns(self) -> nat { self.ns@ }
    pub open spec fn wf(self) -> bool { self.ns() <= DURATION_MAX_NS() }
    #[verifier::external_body]
    pub fn from_millis(ms: u64) -> (r: Duration) ensures r.ns() == ms as nat * 1_000_000, r.wf() { unimplemented!() }
    #[verifier::external_body]
    pub fn from_nanos(n: u64) -> (r: Duration) ensures r.ns() == n as nat, r.wf() { unimplemented!() }
    #[verifier::external_body]
    pub fn from_secs(s: u64) -> (r: Duration) ensures r.ns() == s as nat * 1_000_000_000, r.wf() { unimplemented!() }
    #[verifier::external_body]
    pub fn as_millis(&self) -> (r: u128) ensures r == self.ns() / 1_000_000 { unimplemented!() }
    #[verifier::external_body]
    pub fn as_nanos(&self) -> (r: u128) requires self.wf() ensures r == self.ns() { unimplemented!() }
    #[verifier::external_body]
    pub fn as_secs(&self) -> (r: u64) requires self.wf() ensures r == self.ns() / 1_000_000_000 { unimplemented!() }
    #[verifier::external_body]
    pub fn subsec_nanos(&self) -> (r: u32) ensures r == self.ns() % 1_000_000_000 { unimplemented!() }
}
impl Instant {
    pub open spec fn ns(self) -> nat { self.ns@ }
    #[verifier::external_body]
    pub fn checked_sub(&self, d: Duration) -> (r: Option<Instant>)
        ensures self.ns() >= d.ns() ==> r.is_some() && r.unwrap().ns() == self.ns() - d.ns(),
                self.ns() < d.ns() ==> r.is_none()
    { unimplemented!() }
    #[verifier::external_body]
    pub fn saturating_duration_since(&self, earlier: Instant) -> (r: Duration)
        ensures r.ns() == (if self.ns() >= earlier.ns() { self.ns() - earlier.ns() } else { 0 }) as nat, r.wf()  // every std Duration value is in range
    { unimplemented!() }
}
impl PartialEq for Instant { #[verifier::external_body] fn eq(&self, o: &Instant) -> bool { unimplemented!() } }
impl PartialEqSpecImpl for Instant {
    open spec fn obeys_eq_spec() -> bool { true }
    open spec fn eq_spec(&self, o: &Instant) -> bool { self.ns() == o.ns() }
}
impl PartialOrd for Instant { #[verifier::external_body] fn partial_cmp(&self, o: &Instant) -> Option<Ordering> { unimplemented!() } }
impl PartialOrdSpecImpl for Instant {
    open spec fn obeys_partial_cmp_spec() -> bool { true }
    open spec fn partial_cmp_spec(&self, o: &Instant) -> Option<Ordering> {
        if self.ns() < o.ns() { Some(Ordering::Less) } else if self.ns() == o.ns() { Some(Ordering::Equal) } else { Some(Ordering::Greater) }
    }
}
impl core::ops::Sub<Instant> for Instant {
    type Output = Duration;
    #[verifier::external_body]
    fn sub(self, o: Instant) -> Duration { unimplemented!() }
}
impl SubSpecImpl<Instant> for Instant {
    open spec fn obeys_sub_spec() -> bool { true }
    // std: `Instant - Instant` panics (or saturates, platform dependent) when o is later; the
    // model makes it a precondition, i.e. an obligation at every use.
    open spec fn sub_req(self, o: Instant) -> bool { self.ns() >= o.ns() }
    open spec fn sub_spec(self, o: Instant) -> Duration { Duration { ns: Ghost((self.ns() - o.ns()) as nat) } }
}
impl PartialEq for Duration { #[verifier::external_body] fn eq(&self, o: &Duration) -> bool { unimplemented!() } }
impl PartialEqSpecImpl for Duration {
    open spec fn obeys_eq_spec() -> bool { true }
    open spec fn eq_spec(&self, o: &Duration) -> bool { self.ns() == o.ns() }
}
impl PartialOrd for Duration { #[verifier::external_body] fn partial_cmp(&self, o: &Duration) -> Option<Ordering> { unimplemented!() } }
impl PartialOrdSpecImpl for Duration {
    open spec fn obeys_partial_cmp_spec() -> bool { true }
    open spec fn partial_cmp_spec(&self, o: &Duration) -> Option<Ordering> {
        if self.ns() < o.ns() { Some(Ordering::Less) } else if self.ns() == o.ns() { Some(Ordering::Equal) } else { Some(Ordering::Greater) }
    }
}
