// @private
// Formatting into a String (ASSUMED, R7b): what core::fmt prints for a value under a flag set
// is the uninterpreted/defined `sd`; a write into a String cannot fail.
enum Fl { Plain, Alt, Prec(usize) }
trait SDisp { spec fn sd(&self, fl: Fl) -> Seq<char>; }
#[verifier::external_body]
fn s_disp<T: SDisp>(buf: &mut String, x: T, fl: Fl) ensures final(buf)@ == old(buf)@ + x.sd(fl) { unimplemented!() }
#[verifier::external_body]
fn s_lit(buf: &mut String, t: &str) ensures final(buf)@ == old(buf)@ + t@ { unimplemented!() }
// R12: string-literal patterns
#[verifier::external_body]
fn str_eq(a: &String, b: &str) -> (r: bool) ensures r == (a@ == b@) { a.as_str() == b }

spec fn digit(d: nat) -> char { if d == 0 { '0' } else if d == 1 { '1' } else if d == 2 { '2' } else if d == 3 { '3' } else if d == 4 { '4' }
    else if d == 5 { '5' } else if d == 6 { '6' } else if d == 7 { '7' } else if d == 8 { '8' } else { '9' } }
spec fn dec(x: nat) -> Seq<char> decreases x { if x < 10 { seq![digit(x)] } else { dec(x / 10).push(digit(x % 10)) } }
impl SDisp for u64 { spec fn sd(&self, fl: Fl) -> Seq<char> { dec(*self as nat) } }
uninterp spec fn f32_text(x: f32, fl: Fl) -> Seq<char>;
impl SDisp for f32 { spec fn sd(&self, fl: Fl) -> Seq<char> { f32_text(*self, fl) } }
impl<'a> SDisp for &'a String { spec fn sd(&self, fl: Fl) -> Seq<char> { self@ } }
