// @private
// The ghost terminal (ASSUMED contract of the TermLike dependency, DESIGN section 3).
// The screen is a linear map: cell (r, c) lives at r*w + c; col == w is the pending-wrap
// position, so (r, w) and (r+1, 0) are the same linear position.  Every operation may fail
// (C18): then only geometry and well-formedness are guaranteed.
struct IoError { k: u8 }
impl std::fmt::Debug for IoError { #[verifier::external_body] fn fmt(&self, f: &mut std::fmt::Formatter<'_>) -> std::fmt::Result { unimplemented!() } }
enum Cell { Blank, Vis(Seq<char>, nat) }     // Vis(s, j): the j-th visible column of the string s that was written
struct GTerm {
    w: nat, h: nat, tty: bool,
    row: int, col: nat,
    cells: spec_fn(int) -> Cell,
    ops: nat,                  // number of cursor / write / clear operations performed (silence, C06)
    flushed: nat,
    errs: nat,                 // number of operations that returned an I/O error (C18: errors are reported)
}
impl GTerm {
    spec fn wf(self) -> bool { 1 <= self.w <= 65535 && 1 <= self.h <= 65535 && self.col <= self.w }   // width()/height() return u16
    spec fn lin(self) -> int { self.row * self.w + self.col }
    spec fn same_geom(self, o: GTerm) -> bool { self.w == o.w && self.h == o.h && self.tty == o.tty }
}
uninterp spec fn cols(s: Seq<char>) -> nat;     // console::measure_text_width
#[verifier::external_body]
proof fn axiom_cols_empty() ensures cols(Seq::<char>::empty()) == 0 {}
spec fn spaces(n: nat) -> Seq<char> { Seq::new(n, |i: int| ' ') }
#[verifier::external_body]
proof fn axiom_cols_spaces(n: nat) ensures cols(spaces(n)) == n {}

spec fn after_write(t: GTerm, s: Seq<char>, t2: GTerm) -> bool {
    let c = cols(s);
    let p0 = t.lin();
    &&& t2.same_geom(t) && t2.flushed == t.flushed && t2.wf() && t2.ops == t.ops + 1
    &&& forall|p: int| p0 <= p < p0 + c ==> (#[trigger] (t2.cells)(p)) == Cell::Vis(s, (p - p0) as nat)
    &&& forall|p: int| !(p0 <= p < p0 + c) ==> (#[trigger] (t2.cells)(p)) == (t.cells)(p)
    &&& (c == 0 ==> t2.row == t.row && t2.col == t.col)
    &&& (c > 0 ==> t2.lin() == p0 + c && 1 <= t2.col <= t.w)
}
// "\r": carriage return
spec fn is_cr(s: Seq<char>) -> bool { s == seq!['\r'] }

// R10: `&(impl TermLike + ?Sized)`, `Box<dyn TermLike>`, `&dyn TermLike` and console::Term all
// become this one model type; R2: its &self methods take &mut self.
struct Term { g: Ghost<GTerm> }
impl Term {
    spec fn view(&self) -> GTerm { self.g@ }
    #[verifier::external_body]
    fn width(&self) -> (r: u16) requires self@.wf() ensures r as nat == self@.w { unimplemented!() }
    #[verifier::external_body]
    fn height(&self) -> (r: u16) requires self@.wf() ensures r as nat == self@.h { unimplemented!() }
    #[verifier::external_body]
    fn is_term(&self) -> (r: bool) ensures r == self@.tty { unimplemented!() }
    #[verifier::external_body]
    fn move_cursor_up(&mut self, n: usize) -> (r: Result<(), IoError>)
        requires old(self)@.wf()
        ensures final(self)@.errs == old(self)@.errs + (if r.is_err() { 1nat } else { 0nat }), final(self)@.same_geom(old(self)@), final(self)@.wf(), final(self)@.flushed == old(self)@.flushed,
            r.is_ok() ==> final(self)@.row == old(self)@.row - n && final(self)@.cells == old(self)@.cells
                && final(self)@.col == old(self)@.col && final(self)@.ops == old(self)@.ops + 1
    { unimplemented!() }
    #[verifier::external_body]
    fn move_cursor_down(&mut self, n: usize) -> (r: Result<(), IoError>)
        requires old(self)@.wf()
        ensures final(self)@.errs == old(self)@.errs + (if r.is_err() { 1nat } else { 0nat }), final(self)@.same_geom(old(self)@), final(self)@.wf(), final(self)@.flushed == old(self)@.flushed,
            r.is_ok() ==> final(self)@.row == old(self)@.row + n && final(self)@.cells == old(self)@.cells
                && final(self)@.col == old(self)@.col && final(self)@.ops == old(self)@.ops + 1
    { unimplemented!() }
    #[verifier::external_body]
    fn clear_line(&mut self) -> (r: Result<(), IoError>)
        requires old(self)@.wf()
        ensures final(self)@.errs == old(self)@.errs + (if r.is_err() { 1nat } else { 0nat }), final(self)@.same_geom(old(self)@), final(self)@.wf(), final(self)@.flushed == old(self)@.flushed,
            r.is_ok() ==> ({
                let t = old(self)@; let t2 = final(self)@;
                &&& t2.row == t.row && t2.col == 0 && t2.ops == t.ops + 1
                &&& forall|p: int| t.row * t.w <= p < (t.row + 1) * t.w ==> (#[trigger] (t2.cells)(p)) == Cell::Blank
                &&& forall|p: int| !(t.row * t.w <= p < (t.row + 1) * t.w) ==> (#[trigger] (t2.cells)(p)) == (t.cells)(p)
            })
    { unimplemented!() }
    #[verifier::external_body]
    fn write_str(&mut self, s: &str) -> (r: Result<(), IoError>)
        requires old(self)@.wf()
        ensures final(self)@.errs == old(self)@.errs + (if r.is_err() { 1nat } else { 0nat }), final(self)@.same_geom(old(self)@), final(self)@.wf(), final(self)@.flushed == old(self)@.flushed,
            r.is_ok() && !is_cr(s@) ==> after_write(old(self)@, s@, final(self)@),
            r.is_ok() && is_cr(s@) ==> final(self)@.row == old(self)@.row && final(self)@.col == 0
                && final(self)@.cells == old(self)@.cells && final(self)@.ops == old(self)@.ops + 1
    { unimplemented!() }
    #[verifier::external_body]
    fn write_line(&mut self, s: &str) -> (r: Result<(), IoError>)
        requires old(self)@.wf()
        ensures final(self)@.errs == old(self)@.errs + (if r.is_err() { 1nat } else { 0nat }), final(self)@.same_geom(old(self)@), final(self)@.wf(), final(self)@.flushed == old(self)@.flushed,
            r.is_ok() ==> exists|m: GTerm| after_write(old(self)@, s@, m)
                && final(self)@.row == m.row + 1 && final(self)@.col == 0
                && final(self)@.cells == m.cells && final(self)@.ops == m.ops
    { unimplemented!() }
    #[verifier::external_body]
    fn flush(&mut self) -> (r: Result<(), IoError>)
        requires old(self)@.wf()
        ensures final(self)@.errs == old(self)@.errs + (if r.is_err() { 1nat } else { 0nat }), final(self)@.same_geom(old(self)@), final(self)@.wf(),
            final(self)@.ops == old(self)@.ops,
            r.is_ok() ==> final(self)@.row == old(self)@.row && final(self)@.col == old(self)@.col
                && final(self)@.cells == old(self)@.cells && final(self)@.flushed == old(self)@.flushed + 1,
            r.is_err() ==> final(self)@.flushed == old(self)@.flushed
    { unimplemented!() }
}
// std::thread::panicking(): the process is not unwinding (panics of user callbacks are out of scope)
fn panicking() -> (r: bool) ensures !r { false }
// R5: `" ".repeat(n)`
#[verifier::external_body]
fn repeat_space(n: usize) -> (r: String) ensures r@ == spaces(n as nat) { " ".repeat(n) }
#[verifier::external_body]
fn measure_text_width(s: &str) -> (r: usize) ensures r == cols(s@) { unimplemented!() }
