// @private
// ProgressStyle: only the tab width and the custom-key trackers matter at BarState level.
#[verifier::external_body]
pub struct ProgressStyle { _p: core::marker::PhantomData<()> }
impl ProgressStyle {
    pub uninterp spec fn tab_width(&self) -> usize;
    // ghost log of tracker notifications: (is_reset, position seen, status finished?) per call
    pub uninterp spec fn tracker_log(&self) -> Seq<(bool, u64)>;
    #[verifier::external_body]
    pub fn set_tab_width(&mut self, new_tab_width: usize)
        ensures final(self).tab_width() == new_tab_width, final(self).tracker_log() == old(self).tracker_log()
    { unimplemented!() }
}
impl ProgressStyle {
    // R5: `for tracker in self.style.format_map.values_mut() { tracker.reset/tick(&self.state, now) }`
    #[verifier::external_body]
    pub fn reset_trackers(&mut self, state: &ProgressState, now: Instant)
        ensures final(self).tab_width() == old(self).tab_width(),
                final(self).tracker_log() == old(self).tracker_log().push((true, state.pos.pos@))
    { unimplemented!() }
    #[verifier::external_body]
    pub fn tick_trackers(&mut self, state: &ProgressState, now: Instant)
        ensures final(self).tab_width() == old(self).tab_width(),
                final(self).tracker_log() == old(self).tracker_log().push((false, state.pos.pos@))
    { unimplemented!() }
}
