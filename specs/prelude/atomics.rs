// Shim of portable_atomic (ASSUMED model, R2): atomics are plain cells, sequential semantics
// only; fetch_add / fetch_sub wrap like the hardware instruction and never panic.
pub enum AOrd { Relaxed, Acquire, Release, SeqCst, AcqRel }
// A 64-bit atomic cell.  Besides its value the model counts, as ghost state, the read-modify-write operations and the
// plain stores performed on it: "inc / dec are ONE atomic read-modify-write" is the code-level condition under which
// concurrent updates cannot be lost (the schedules themselves are outside the model).
pub struct AtomicU64 { pub v: u64, pub rmws: Ghost<nat>, pub stores: Ghost<nat> }
pub struct AtomicU8 { pub v: u8 }
impl AtomicU64 {
    pub open spec fn view(&self) -> u64 { self.v }
    pub fn new(v: u64) -> (r: Self) ensures r@ == v, r.rmws@ == 0, r.stores@ == 0 { AtomicU64 { v, rmws: Ghost(0), stores: Ghost(0) } }
    pub fn load(&self, o: AOrd) -> (r: u64) ensures r == self@ { self.v }
    #[verifier::external_body]
    pub fn store(&mut self, v: u64, o: AOrd) ensures final(self)@ == v, final(self).rmws == old(self).rmws, final(self).stores@ == old(self).stores@ + 1 { self.v = v; }
    #[verifier::external_body]
    pub fn fetch_add(&mut self, d: u64, o: AOrd) -> (r: u64)
        ensures r == old(self)@, final(self)@ as nat == (old(self)@ as nat + d as nat) % 0x1_0000_0000_0000_0000,
                final(self).rmws@ == old(self).rmws@ + 1, final(self).stores == old(self).stores
    { unimplemented!() }
    #[verifier::external_body]
    pub fn fetch_sub(&mut self, d: u64, o: AOrd) -> (r: u64)
        ensures r == old(self)@, final(self)@ as int == (old(self)@ as int - d as int) % 0x1_0000_0000_0000_0000,
                final(self).rmws@ == old(self).rmws@ + 1, final(self).stores == old(self).stores
    { unimplemented!() }
}
impl AtomicU8 {
    pub open spec fn view(&self) -> u8 { self.v }
    pub fn new(v: u8) -> (r: Self) ensures r@ == v { AtomicU8 { v } }
    pub fn load(&self, o: AOrd) -> (r: u8) ensures r == self@ { self.v }
    pub fn store(&mut self, v: u8, o: AOrd) ensures final(self)@ == v { self.v = v; }
}
