// Shim of portable_atomic (ASSUMED model, R2): atomics are plain cells, sequential semantics
// only; fetch_add / fetch_sub wrap like the hardware instruction and never panic.
pub enum AOrd { Relaxed, Acquire, Release, SeqCst, AcqRel }
pub struct AtomicU64 { pub v: u64 }
pub struct AtomicU8 { pub v: u8 }
impl AtomicU64 {
    pub open spec fn view(&self) -> u64 { self.v }
    pub fn new(v: u64) -> (r: Self) ensures r@ == v { AtomicU64 { v } }
    pub fn load(&self, o: AOrd) -> (r: u64) ensures r == self@ { self.v }
    pub fn store(&mut self, v: u64, o: AOrd) ensures final(self)@ == v { self.v = v; }
    #[verifier::external_body]
    pub fn fetch_add(&mut self, d: u64, o: AOrd) -> (r: u64)
        ensures r == old(self)@, final(self)@ as nat == (old(self)@ as nat + d as nat) % 0x1_0000_0000_0000_0000
    { unimplemented!() }
    #[verifier::external_body]
    pub fn fetch_sub(&mut self, d: u64, o: AOrd) -> (r: u64)
        ensures r == old(self)@, final(self)@ as int == (old(self)@ as int - d as int) % 0x1_0000_0000_0000_0000
    { unimplemented!() }
}
impl AtomicU8 {
    pub open spec fn view(&self) -> u8 { self.v }
    pub fn new(v: u8) -> (r: Self) ensures r@ == v { AtomicU8 { v } }
    pub fn load(&self, o: AOrd) -> (r: u8) ensures r == self@ { self.v }
    pub fn store(&mut self, v: u8, o: AOrd) ensures final(self)@ == v { self.v = v; }
}
