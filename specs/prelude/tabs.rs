// @private
// Tab expansion vocabulary (C16) and the std shims it needs.
spec fn spaces(n: nat) -> Seq<char> { Seq::new(n, |i: int| ' ') }
// replace every TAB by n spaces (written from the statement: "tabs ... are each replaced by
// tab-width spaces")
spec fn expand(s: Seq<char>, n: nat) -> Seq<char> decreases s.len() {
    if s.len() == 0 { Seq::<char>::empty() }
    else { expand(s.drop_last(), n) + (if s.last() == '\t' { spaces(n) } else { seq![s.last()] }) }
}
spec fn tab_free(s: Seq<char>) -> bool { forall|i: int| 0 <= i < s.len() ==> s[i] != '\t' }

proof fn lemma_expand_tab_free(s: Seq<char>, n: nat)
    ensures tab_free(expand(s, n))
    decreases s.len()
{
    if s.len() > 0 { lemma_expand_tab_free(s.drop_last(), n); }
}
proof fn lemma_expand_identity(s: Seq<char>, n: nat)
    requires tab_free(s)
    ensures expand(s, n) == s
    decreases s.len()
{
    if s.len() > 0 {
        lemma_expand_identity(s.drop_last(), n);
        assert(s.drop_last() + seq![s.last()] =~= s);
    }
}
proof fn lemma_expand_concat(a: Seq<char>, b: Seq<char>, n: nat)
    ensures expand(a + b, n) == expand(a, n) + expand(b, n)
    decreases b.len()
{
    if b.len() == 0 {
        assert(a + b =~= a);
        assert(expand(a, n) + expand(b, n) =~= expand(a, n));
    } else {
        lemma_expand_concat(a, b.drop_last(), n);
        assert((a + b).drop_last() =~= a + b.drop_last());
        let t = if b.last() == '\t' { spaces(n) } else { seq![b.last()] };
        assert((expand(a, n) + expand(b.drop_last(), n)) + t =~= expand(a, n) + (expand(b.drop_last(), n) + t));
    }
}

// std::sync::OnceLock<String> (R2): a cell holding at most one value.  Filling through &self
// is not modelled; soundness comes from quantifying over every cache state allowed by tes_wf.
struct OnceLock<T> { v: Option<T> }
impl<T> OnceLock<T> {
    fn new() -> (r: Self) ensures r.v is None { OnceLock { v: None } }
    fn take(&mut self) -> (r: Option<T>) ensures final(self).v is None { self.v.take() }
}
// R5: `s.contains('\t')`
#[verifier::external_body]
fn has_tab(s: &String) -> (r: bool) ensures r == !tab_free(s@) { s.contains('\t') }
// R5: `expanded.get_or_init(|| original.replace('\t', &" ".repeat(*tab_width)))`
#[verifier::external_body]
fn once_get_or_expand<'a>(cell: &'a OnceLock<String>, original: &String, tab_width: usize) -> (r: &'a String)
    ensures r@ == (match cell.v { Some(x) => x@, None => expand(original@, tab_width as nat) })
{ unimplemented!() }
// R5: `s.replace('\t', &" ".repeat(n))`
#[verifier::external_body]
fn expand_tabs(s: &str, n: usize) -> (r: String) ensures r@ == expand(s@, n as nat) { s.replace('\t', &" ".repeat(n)) }
// R5/R15: `.to_string()` on the &str returned by expanded() (here a &String)
#[verifier::external_body]
fn to_owned_string(s: &String) -> (r: String) ensures r@ == s@ { s.clone() }
