"""C10 -- template parsing is total.  Template::from_str_with_tab_width (the whole automaton)
extracted from src/style.rs; every unwrap / parse / index inside the loop is an obligation."""
import re
from vlib.unit import Unit, Fn, Decl, Raw, Lemma, Rw, RwFn, r4_split_or_guard_arms
from specs import contracts as K

SHIMS = r"""
use std::mem;
pub assume_specification [char::is_ascii_whitespace] (c: &char) -> (r: bool);
// R5: `mem::take(&mut buf)` on a String: returns the old text and leaves the empty string
#[verifier::external_body]
fn take_string(x: &mut String) -> (r: String)
    ensures r@ == old(x)@, final(x)@ == Seq::<char>::empty()
{ std::mem::take(x) }

// console::Style: opaque; from_dotted_str is total (it ignores unknown attributes)
#[verifier::external_body]
struct Style { _p: core::marker::PhantomData<()> }
impl Style {
    #[verifier::external_body]
    fn from_dotted_str(s: &str) -> Style { unimplemented!() }
}
// R5: `buf.parse::<u16>()` -- Ok exactly for 1..n ASCII digits whose value fits u16
spec fn is_digits(s: Seq<char>) -> bool { s.len() >= 1 && forall|i: int| 0 <= i < s.len() ==> '0' <= #[trigger] s[i] <= '9' }
spec fn dec_value(s: Seq<char>) -> nat decreases s.len() {
    if s.len() == 0 { 0 } else { dec_value(s.drop_last()) * 10 + (s.last() as nat - '0' as nat) as nat }
}
struct ParseIntError { k: u8 }
#[verifier::external_body]
fn parse_u16(s: &String) -> (r: Result<u16, ParseIntError>)
    ensures r.is_ok() <==> (is_digits(s@) && dec_value(s@) <= 65535),
            r.is_ok() ==> r.unwrap() as nat == dec_value(s@)
{ unimplemented!() }
// ---- literal text carried by the parser state (fidelity: order preservation)
spec fn part_lit(p: TemplatePart) -> Seq<char> {
    match p {
        TemplatePart::Literal(t) => t.original(),
        TemplatePart::NewLine => seq!['\n'],
        TemplatePart::Placeholder { .. } => Seq::<char>::empty(),
    }
}
spec fn parts_lit(ps: Seq<TemplatePart>) -> Seq<char> decreases ps.len() {
    if ps.len() == 0 { Seq::<char>::empty() } else { parts_lit(ps.drop_last()) + part_lit(ps.last()) }
}
// text already emitted plus text pending in `buf` while the automaton is outside a placeholder
spec fn lit_out(ps: Seq<TemplatePart>, st: State, buf: Seq<char>) -> Seq<char> {
    parts_lit(ps) + (if st is Literal || st is MaybeOpen || st is DoubleClose { buf } else { Seq::<char>::empty() })
}
proof fn lemma_parts_lit_push(ps: Seq<TemplatePart>, p: TemplatePart)
    ensures parts_lit(ps.push(p)) == parts_lit(ps) + part_lit(p)
{
    assert(ps.push(p).drop_last() =~= ps);
}
proof fn lemma_parts_lit_update_last(ps: Seq<TemplatePart>, qs: Seq<TemplatePart>)
    requires ps.len() == qs.len(), ps.len() > 0, ps.drop_last() =~= qs.drop_last(), part_lit(ps.last()) == part_lit(qs.last())
    ensures parts_lit(ps) == parts_lit(qs)
{
}
impl std::fmt::Debug for ParseIntError { #[verifier::external_body] fn fmt(&self, f: &mut std::fmt::Formatter<'_>) -> std::fmt::Result { unimplemented!() } }
"""

FROM_STR_RW = [
    RwFn("R4", r4_split_or_guard_arms, count=None),
    Rw("R5", r"vec!\[\]", "Vec::<TemplatePart>::new()", count=1),
    Rw("R15", r"\.into\(\)", "", count="any"),
    Rw("R5", r"mem::take\(&mut buf\)", "take_string(&mut buf)", count=None),
    Rw("R5", r"buf\.parse\(\)", "parse_u16(&buf)", count=None),
]

UNIT = Unit(
    name="c10_template",
    properties=["C10"],
    prelude=["tes_opaque"],
    trusted=[
        "str::parse::<u16> specified as: Ok exactly for 1..n ASCII digits with value <= 65535 (R5 parse_u16)",
        "console::Style::from_dotted_str is total; char::is_ascii_whitespace, mem::take via assume_specification",
        "TabExpandedString::new opaque (verified in c16_tabs); Cow<'static,str> as String (R15)",
        "R4: the arm `(MaybeOpen | Key, c) if c.is_ascii_whitespace()` is duplicated per alternative",
    ],
    items=[
        Raw(SHIMS),
        Decl("src/style.rs", "enum", "State", attrs="#[derive(Copy, Clone, PartialEq, Eq)]"),
        Decl("src/style.rs", "enum", "Alignment", attrs="#[derive(Copy, Clone, PartialEq, Eq)]"),
        Decl("src/style.rs", "struct", "TemplateError"),
        Decl("src/style.rs", "enum", "TemplatePart"),
        Decl("src/style.rs", "struct", "Template"),
        Fn("src/style.rs", "Template", "from_str_with_tab_width", ret="r", rewrites=FROM_STR_RW,
           ensures=[("C10-total", "true")],
           loops={0: {"invariant": [
               "(state is Align || state is Width || state is FirstStyle || state is AltStyle) ==> parts@.len() > 0 && parts@.last() is Placeholder",
               "state is Align ==> buf@.len() == 0",
               "state is Key ==> buf@.len() > 0"],
                      "body_start": "            let ghost pre_parts = parts@; let ghost pre_state = state; let ghost pre_buf = buf@; let ghost pre_out = lit_out(parts@, state, buf@);",
                      "body_end": """
            proof {
                // C10-literal-append-only: text already emitted (or pending) never changes and
                // new literal text only goes at the end -- in-order concatenation
                let ps = pre_parts; let qs = parts@;
                if qs.len() == ps.len() + 1 {
                    assert(qs =~= ps.push(qs.last()));
                    lemma_parts_lit_push(ps, qs.last());
                }
                if qs.len() == ps.len() + 2 {
                    let mid = qs.drop_last();
                    assert(mid =~= ps.push(mid.last()));
                    assert(qs =~= mid.push(qs.last()));
                    lemma_parts_lit_push(ps, mid.last());
                    lemma_parts_lit_push(mid, qs.last());
                }
                if qs.len() == ps.len() && qs.len() > 0 && ps.drop_last() =~= qs.drop_last() && part_lit(ps.last()) == part_lit(qs.last()) {
                    lemma_parts_lit_update_last(ps, qs);
                }
                let post_out = lit_out(parts@, state, buf@);
                /*@AS:C10-literal-append-only*/ assert(pre_out.len() <= post_out.len());
                /*@AS:C10-literal-append-only*/ assert(post_out =~= pre_out + post_out.subrange(pre_out.len() as int, post_out.len() as int));
                /*@AS:C10-literal-append-only*/ assert(pre_out.is_prefix_of(post_out));
            }
"""}}),
    ],
)
