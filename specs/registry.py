"""Property -> units / harnesses registry."""

GLOBAL_TRUSTED = [
    "Verus 0.2026.09.13 + bundled Z3; rustc front end of Verus",
    "the extractor /verif/vlib (its output is type-checked by rustc inside Verus; rewrites are enumerated per item in extracted_items)",
]
GLOBAL_ASSUMPTIONS = [
    "x86-64 only: `global size_of usize == 8`; cfg(target_arch = wasm32) alternatives dropped",
    "sequential semantics: locks transparent, atomics are cells (R2); no thread interleavings",
]

PROPERTIES = {
    "C05": {
        "units": ["c05_limiters"],
        "level": "proof",
        "explanation": "RateLimiter::{new,allow} and AtomicPosition::allow extracted from /repo/src and verified by Verus against the token-bucket step relation; window (20 + R*T + 1) and staleness bounds proved as lemmas by induction over call traces whose step relation is the conjunction of the code contracts.",
        "assumptions": [
            "machine time: Instant/Duration modelled as unbounded natural nanoseconds, differences bounded by Duration::MAX",
            "request times are non-decreasing along a history (Instant::now() is monotone)",
        ],
    },
}

# obligation-id prefix -> witness routines of /verif/replay (run on the REAL code)
WITNESS = {
    "c05_limiters/RateLimiter::allow": ["rl_allow", "rl_window"],
    "c05_limiters/RateLimiter::new": ["rl_new"],
    "c05_limiters/AtomicPosition::allow": ["pos_allow"],
}
