"""Property -> units / harnesses registry."""

GLOBAL_TRUSTED = [
    "Verus 0.2026.09.13 + bundled Z3; rustc front end of Verus",
    "the extractor /verif/vlib (its output is type-checked by rustc inside Verus; rewrites are enumerated per item in extracted_items)",
]
GLOBAL_ASSUMPTIONS = [
    "x86-64 only: `global size_of usize == 8`; cfg(target_arch = wasm32) alternatives dropped",
    "sequential semantics: locks transparent, atomics are cells (R2); no thread interleavings",
]

PROPERTIES = {
    "C01": {
        "units": ["draw_to_term", "bar_draw", "pins_bar", "format_state"],
        "level": "proof",
        "explanation": "draw_to_term verified against the ghost terminal: after a completed draw every cell from the top of the previous frame on shows exactly the lines handed in (text lines, then bars, each wrapped at the terminal width) or is blank, nothing above is touched, the cursor rests in the pending-wrap column of the last row (so later output starts on a fresh line), a cleared frame leaves nothing; BarState::{draw, println, finish_using_style, update_estimate_and_draw, tick, drop} verified to hand draw_to_term exactly [printed texts ++ current rendering] (or nothing once cleared) and to leave terminal, row count and draw state untouched when a draw is skipped.",
        "level_text": "Deductive proof (Verus) for all line lists, widths, heights, previous frames and bar states; the history-level statement follows by induction from the per-call contracts (each call re-establishes the layout precondition of the next).",
        "level_note": "Assumed: the ghost terminal model as TermLike's contract, format_state's output (Bar lines, size bounds) as a stubbed callee verified in its own unit, one-column cells. Known finding C01-first-line-advance (zero-width first line painted from the pending-wrap column) is excluded from the content clause and listed. ProgressBar::suspend's closure is not modelled; cursor-moving mode (set_move_cursor) is covered by the frame clause only.",
        "assumptions": ["R2 sequential; R10 one model terminal"],
    },
    "C02": {
        "units": ["multi_state", "draw_to_term", "pins_multi", "bar_draw", "format_state"],
        "level": "proof",
        "explanation": "MultiState::{insert, remove_idx, len} verified against the documented list operations (End / Index / IndexFromBack / Before / After; removal keeps the order of the others and touches no other member) under the slot invariant (ordering and free_set duplicate-free, disjoint, covering all slots; the runtime consistency assertion is proved never to fire); MultiState::draw verified to hand draw_to_term exactly [printed lines ++ pending member texts ++ every member's stored rendering once, in visual order] and to reap exactly the maximal prefix of dropped bars after painting them once more; draw_to_term's content clause puts that frame directly below the untouched rows above. For both alignments draw_to_term is proved to paint [text lines ++ padding rows ++ bar lines] (Bottom alignment keeps the rows the bars no longer use as blank rows BETWEEN text and bars), to account rows of painted bars + padding, and to leave the region that the next draw clears starting right below the last text line (clauses C02-C03-content-with-padding, C19-C02-rows-accounted-with-padding, C03-C02-text-stays-above-the-region; fix db0c506). MultiState::draw's own clauses remain stated for Top alignment; Bottom alignment histories are covered by the bounded routine multi_bottom.",
        "level_text": "Deductive proof (Verus) for every history of insert/remove (the contracts are per operation over the whole order view, with frames) and every member count; loops by inductive invariants.",
        "level_note": "NOT decided (schedules): the clause about frames painted while several threads update bars concurrently -- the argument is the single RwLock write guard, which the sequential model (R2) erases; only the sequential half (a frame is composed from the stored draw states, each written by that bar's own last draw) is proved. Assumed: ghost terminal, R5 helpers for position/retain/contains, size bounds (fewer than 2^28 rows).",
        "assumptions": ["R2 sequential semantics"],
    },
    "C03": {
        "units": ["multi_state", "draw_to_term", "bar_draw", "pins_bar", "pins_multi"],
        "level": "proof",
        "explanation": "draw_to_term never touches a cell above the top of the rows it is told to clear (frame clause, all three loops); DrawStateWrapper's drop moves Text/Empty lines of a member to the MultiProgress's pending lines in order and keeps the bars; BarState::println hands [texts ++ rendering] to one forced draw; a skipped single-bar draw changes neither terminal nor row count. For MultiState::draw the row accounting (rows to clear vs. rows of reaped zombies) is stated as three count-level clauses, each of which FAILS on the pinned tree and is listed as a known finding with a replayed witness history.",
        "level_text": "Deductive proof (Verus) of the frame / ordering clauses for all inputs; the three failing accounting clauses are reported as KNOWN-FINDING with their real-code witnesses, any other failing obligation is a violation.",
        "level_note": "Assumed: ghost terminal, sequential semantics. MultiState::{println, clear, suspend, mark_zombie} are covered at the level of their draw calls. The closure passed to suspend is not modelled.",
        "assumptions": ["R2 sequential semantics"],
    },
    "C04": {
        "units": ["bar_draw", "c07_position", "multi_state", "pins_bar", "pins_multi", "draw_to_term"],
        "level": "proof",
        "explanation": "BarState::finish_using_style verified: status finished, position == length for the finish variants and unchanged for the abandon variants, message set when supplied, and one forced draw whose frame is the rendering of the final state (nothing for the clearing variant) reaches draw_to_term regardless of the limiter (drawable grants every forced request on a visible target without touching the limiter); dropping a finished bar performs no draw; dropping an unfinished one finishes it with on_finish.",
        "level_text": "Deductive proof (Verus) over all bar states, limiter states and finish variants.",
        "level_note": "Assumed: ghost terminal, format_state stub, MultiState side of a member bar (MultiHandle stub; the MultiProgress clause of C04 is decided with the MultiState unit). ProgressBarIter::next finishing on exhaustion is covered by C17's unit.",
        "assumptions": ["R2 sequential; Drop::drop extracted as drop_impl (R9)"],
    },
    "C06": {
        "units": ["bar_draw", "c07_position", "pins_bar", "c16_tabs", "pins_multi"],
        "state_equivalence_units": ["c07_position", "c16_tabs", "pb_glue"],
        "level": "proof",
        "explanation": "Every draw-path function carries the frame clause 'hidden target => the count of terminal operations is unchanged' (ProgressDrawTarget::drawable returns None for Hidden and for a Term that is not a TTY; a member of a hidden MultiProgress goes through the MultiHandle whose contract keeps the count), and the logical-state postconditions (position, length, message, prefix, finished status) never mention the target, so they are the same for hidden and visible bars.",
        "level_text": "Deductive proof (Verus): silence as a frame condition on every function of the draw path, state equivalence by construction of the contracts.",
        "level_note": "Assumed: a hidden MultiProgress performs no terminal operation (contract of the MultiHandle stub, discharged in the MultiState unit). Term::is_term() is the model's tty flag.",
        "assumptions": ["ops counter of the ghost terminal counts cursor/write/clear operations; width()/height() are queries"],
    },
    "C18": {
        "units": ["bar_draw", "draw_to_term", "multi_state"],
        "level": "proof",
        "explanation": "Every terminal operation of the ghost terminal may return Err at any call; all functions of the draw path (draw_to_term, Drawable::{draw, clear}, BarState::{draw, println, finish_using_style, update_estimate_and_draw, tick, drop}, ProgressBar::{set_tab_width, force_draw}) are verified panic-free under that model (an unwrap on a draw result cannot be discharged), keep the logical state (same postconditions on Ok and Err paths), and draw_to_term leaves the accounted row count unchanged on Err.",
        "level_text": "Deductive proof (Verus) of panic-freedom and state preservation for every failure point and any number of failures (each operation's failure is an unconstrained Result in the model).",
        "level_note": "Assumed: sequential semantics (lock poisoning = a panic while a guard is alive, hence panic-freedom). MultiProgress::{println, clear, suspend} are decided with the MultiState unit.",
        "assumptions": ["R2 sequential"],
    },
    "C05": {
        "units": ["c05_limiters", "pb_glue", "bar_draw", "pins_bar", "c07_position"],
        "level": "proof",
        "explanation": "RateLimiter::{new,allow} and AtomicPosition::allow extracted from /repo/src and verified by Verus against the token-bucket step relation; window (20 + R*T + 1) and staleness bounds proved as lemmas by induction over call traces whose step relation is the conjunction of the code contracts.",
        "level_text": "Deductive proof (Verus/Z3), for every limiter state and request time, that RateLimiter::new/allow and AtomicPosition::allow as they stand in /repo/src satisfy the token-bucket step relation taken from the property text; the frame bound 20 + R*T + 1 and the staleness bound are proved once and for all as lemmas by induction over arbitrary call histories whose step relation is exactly those contracts. No bound on history length, times or counters.",
        "level_note": "Assumed: std::time modelled as natural-number nanoseconds (differences within Duration::MAX, request times non-decreasing), atomics as sequential cells, Instant::now() arbitrary. ProgressBar::{inc,dec,set_position} are verified against the same law with tick_inner stubbed (ghost request log). Not covered by a contract yet: ProgressDrawTarget::drawable consulting the target limiter only for non-forced draws.",
        "assumptions": [
            "machine time: Instant/Duration modelled as unbounded natural nanoseconds, differences bounded by Duration::MAX",
            "request times are non-decreasing along a history (Instant::now() is monotone)",
        ],
    },
    "C11": {
        "units": ["format_state", "bar_draw", "c07_position", "c09_estimator"],
        "level": "proof",
        "explanation": "ProgressStyle::{format_state, push_line, current_tick_str, get_tick_str, get_final_tick_str} and WideElement::expand extracted from src/style.rs and verified: the frame produced by format_state equals, line for line, a rendering function written from the crate's documented key table (key_text: pos/len families through Display of u64 / HumanCount / HumanBytes / DecimalBytes / BinaryBytes of the position and of the length-or-position; percent families from fraction()*100 with precision 0 / 3; elapsed / eta / duration through FormattedDuration and alternate HumanDuration of the getters; per_sec families from per_sec(); msg / prefix from the tab-expanded message / prefix; spinner from tick and finished status; unknown keys empty), a custom key shadows the built-in and is written with the state of this very draw; each key has its own named obligation. The getters are evaluated on the one &ProgressState passed in, i.e. at the instant of the draw. Trackers are ticked (bar_draw) and reset (c07_position) together with the bar.",
        "level_text": "Deductive proof (Verus) for every template, state, width and key: the loop over template parts carries an inductive invariant against the fold `run`, the 28-way key dispatch is checked key by key.",
        "level_note": "Assumed: what core::fmt prints for a value under given flags is the uninterpreted text function of that value type (the formatters themselves are C15's unit), getters fraction/per_sec/elapsed/eta/duration are opaque values of the state (C07/C09), std String operations (push, push_str, clear, replace, split, trim_end) as first-order helpers, the custom tracker writes only through the writer it receives. ProgressState::{eta, per_sec, duration} bodies are not part of this unit.",
        "assumptions": ["R7b write_fmt(format_args!) translation; R12 string-literal match as if-chain; R3 loops"],
    },
    "C09": {
        "units": ["c09_estimator", "c07_position"],
        "level": "proof",
        "explanation": "Estimator::{new, record, reset, steps_per_second}, estimator_weight, duration_to_secs and ProgressState::{eta, duration, per_sec} extracted from src/state.rs and verified over the reals (f64 as a real with a finiteness flag that only a division by zero clears): the reported rate is the documented doubly-smoothed, age-weighted, normalised average (rate_at); it is finite at every instant strictly after creation / reset, lies between zero and the largest sample rate recorded since the last reset (invariant inv(M), preserved by every accepted sample), equals r exactly after any number of samples of rate r at any cadence (invariant steady(r)), a reset or a backwards seek leaves exactly the state of a new estimator (prev_steps aside); eta is remaining/rate through the float-to-Duration conversion and zero when finished / length unknown / rate zero; duration is elapsed + eta (saturating); per_sec of a finished bar is position/elapsed. The clause 'the rate never increases while progress stalls' is a separate obligation that FAILS (known finding, witness replayed on the f64 code).",
        "level_text": "Deductive proof (Verus, nonlinear real arithmetic) for every history of samples (inductive invariants inv / steady over record), every gap and every query instant; NOT a proof about IEEE-754: rounding, overflow to infinity and NaN are outside the model.",
        "level_note": "Assumed: W(a) = 0.1^(a/15) satisfies W(0)=1, W(a+b)=W(a)W(b), 0<W(a)<1 for a>0 (f64::powf); machine arithmetic treated as mathematical (R6); the clock is frozen during one getter call and not earlier than any stored instant; secs_to_duration / as_secs_f64 opaque. The replay driver evaluates the same laws on the real f64 code for a grid of rates 1e-3..1e12 and gaps 1 ms..1 day as a sanity check of the real-arithmetic assumption (bounded, not counted as proof).",
        "assumptions": ["R6: f64 as mathematical reals (no rounding / overflow / NaN)", "frozen monotone clock within one getter call"],
    },
    "C17": {
        "units": ["c17_adaptors", "pins_iter", "c07_position"],
        "level": "proof",
        "explanation": "ProgressBarIter's impls of Iterator, DoubleEndedIterator, io::Read (read, read_vectored, read_to_string, read_exact), io::BufRead (fill_buf, consume), io::Seek (seek, stream_position), io::Write (write, write_vectored, flush), tokio AsyncWrite / AsyncRead / AsyncSeek / AsyncBufRead and futures Stream extracted from src/iter.rs and verified against a model source whose every method has arbitrary behaviour and logs its arguments and result: each wrapper method performs exactly that one inner call and returns its result (and leaves the caller's buffer as the inner call left it), the bar advances by exactly the items / bytes the inner call reports (nothing on errors, on Pending, on fill_buf, flush or position queries), a seek moves the bar to the returned offset, exhaustion finishes an unfinished bar exactly once and leaves a finished one alone.",
        "level_text": "Deductive proof (Verus) for every behaviour of the wrapped object (results are unconstrained: short reads and writes, errors, interleaved fill_buf / consume, any seek) and every bar state.",
        "level_note": "Assumed: one model source type stands for the generic parameter (the wrappers are parametric in it), Pin::new(&mut x) on an Unpin value is the identity, ProgressBar::{inc, set_position, is_finished, finish_using_style} enter through their C07 / C04 contracts. NOT covered: the rayon producer / consumer / folder wrappers (src/rayon.rs: splitting across worker threads is a schedule-level claim and the plumbing traits are outside what the model expresses) and ProgressIterator's constructors. The tokio and futures crates are not available offline: those impls are verified at source level, and the two defects found there (repaired) were reproduced on the real code compiled against a signature-only stand-in for tokio::io (/verif/replay-async).",
        "assumptions": ["R10 model source; R13 trait methods as inherent methods of the instantiated wrapper; R5 Result::map / Poll::map with a closure desugared to match"],
    },
    "C10": {
        "units": ["c10_template", "format_state"],
        "level": "proof",
        "explanation": "Template::from_str_with_tab_width (the whole parsing automaton, every arm) extracted from src/style.rs and verified by Verus: no unwrap / parse / index can panic for any input string (totality), with the automaton invariants (a placeholder is the last part while its options are parsed; the key is non-empty) and the order-preservation obligation that literal text already emitted or pending is never changed and new literal text is only appended.",
        "level_text": "Deductive proof (Verus), for every input string and every loop iteration, that parsing returns Ok or Err without panicking and that the literal output of the parser state only ever grows at its end (in-order concatenation); the loop is covered by an inductive invariant, not by a bound.",
        "level_note": "Assumed: str::parse::<u16> (Ok exactly for digit strings with value <= 65535), console::Style::from_dotted_str total, char::is_ascii_whitespace, TabExpandedString::new opaque. Not decided here: that exactly the grammar's literal characters and placeholder fields are produced (the full automaton-equals-grammar proof) The line structure of format_state (one output line per template line, no line contains a newline) is decided in the format_state unit (push_line, lemma_rendered_lines).",
        "assumptions": ["R4 arm duplication, R5 helpers (parse_u16, take_string), R15 Cow as String"],
    },
    "C16": {
        "units": ["c16_tabs", "format_state"],
        "level": "proof",
        "explanation": "TabExpandedString::{new, expanded, set_tab_width}, Template::set_tab_width, ProgressStyle::set_tab_width, BarState::{set_tab_width, set_style, finish_using_style}, TabRewriter::write_str and ProgressBar::{set_message, set_prefix, with_message, with_prefix, with_tab_width, message, prefix} extracted and verified against expand(s, n) = 'every TAB replaced by n spaces'; the bar-level invariant tabs_wf (message, prefix, every template literal and the custom-key rewriter use the bar's current tab width; a cached expansion is the expansion for the current width) is preserved by every mutator, which discharges the 'any order of calls' quantifier once per operation.",
        "level_text": "Deductive proof (Verus) for all texts, tab widths and call orders: expanded()/message()/prefix() return exactly expand(original, current tab width), which provably contains no TAB; every mutator re-establishes the invariant, so the result holds after any sequence of calls, not a sampled one.",
        "level_note": "Assumed: str::contains / str::replace / String::repeat / OnceLock::get_or_init replaced by first-order helpers with contracts (R5); the OnceLock cache is not filled in the model, instead every cache state allowed by the invariant is considered (sound for the returned text). Cow<'static,str> as String. BarState::draw / update_estimate_and_draw enter through their frame contract. That format_state pushes only texts obtained through expanded()/TabRewriter into bar lines is decided with C11's unit, not here.",
        "assumptions": ["R2: Arc<Mutex<BarState>> as a plain field (sequential)"],
    },
    "C12": {
        "units": ["c12_padding", "format_state", "c10_template"],
        "level": "proof",
        "explanation": "PaddedStringDisplay::fmt extracted from src/style.rs and verified against the padding / truncation functions written from the statement: exact output for content that fits (pad side by alignment), unshortened output when too wide without truncation, and on printable ASCII exactly W characters from the start / middle / end with truncation; both padding loops carry inductive invariants; the byte arithmetic (len - excess) is proved free of underflow.",
        "level_text": "Deductive proof (Verus) for every text, width, alignment and truncate flag of the three clauses above; the 'exactly W columns' clause for arbitrary (non-ASCII) text is a separate obligation that fails on the pinned tree and is listed as a known finding with its witness.",
        "level_note": "Assumed: core::fmt::Formatter as a ghost sink; console::measure_text_width / str::len / str::get uninterpreted with their meaning fixed on printable ASCII only (columns == chars == bytes) and cols <= bytes in general. wide_msg (WideElement::expand) is covered with C13's unit, not here.",
        "assumptions": ["R13: Display::fmt verified as an inherent method"],
    },
    "C15": {
        "units": ["c15_formatters"],
        "level": "proof",
        "explanation": "HumanCount::fmt and FormattedDuration::fmt extracted from src/format.rs and verified: the comma loop writes exactly group3(dec(x)) for every u64 (group3 is defined from the right, independently of the left-to-right loop; the connection is the inductive lemma emit_is_group3), FormattedDuration writes [Dd ]HH:MM:SS of the whole seconds for every Duration; no subtraction underflows.",
        "level_text": "Deductive proof (Verus) over all u64 / Duration values with an inductive loop invariant and an induction over the digit string; what core::fmt prints for an integer argument is an assumed contract.",
        "level_note": "Assumed: `{}`/to_string of an unsigned integer is the canonical decimal string, `{:02}` zero-pads to two digits; Formatter is a ghost sink. HumanBytes/BinaryBytes/DecimalBytes: only the body shape is covered (see DESIGN: prefix choice and two-decimal float printing live in number_prefix and core::fmt). HumanFloatCount and HumanDuration: see the units listed in the evidence.",
        "assumptions": ["R7 write! translation, R3 chars().enumerate() as an index loop over the materialised characters"],
    },
    "C13": {
        "units": ["c13_bar", "c13_format_bar", "format_state", "c09_estimator", "c14_style", "bar_draw"],
        "kani_thorough": [
            {"harness": "c13_format_bar_geometry", "timeout": 2400, "complete": True,
             "obligation": "kani/style::ProgressStyle::format_bar",
             "what": "filled == floor(fraction*cells) <= cells; a partial cell exists iff 0 < fill and filled < cells; empty at 0, full at 1; the partial-cell index is a valid progress character -- ALL f32 fractions in [0,1] x widths <= 65535 x cell width 1..2 x 2..5 progress chars",
             "trusted": ["Kani/CBMC float model", "RandomState::new stubbed (the custom-key map is not touched by format_bar)", "fixture loop unwound 7 times (2..5 chars)"]},
            {"harness": "c13_full_iff_complete", "timeout": 7200, "complete": True,
             "obligation": "kani/style::format_bar-after-fraction",
             "what": "filled == cells exactly when position >= length, 0 at position 0 -- ALL positions, lengths <= 2^24, widths 1..65535",
             "trusted": ["Kani/CBMC float model", "Instant::now and RandomState::new stubbed"]},
        ],
        "level": "proof",
        "explanation": "BarDisplay::fmt and RepeatedStringDisplay::fmt extracted and verified by Verus: the bar text is filled cells, then at most one partial cell (one of the configured progress characters), then background cells, in that order; cell-budget and wide_bar width arithmetic as lemmas. format_bar itself is verified by Verus over the reals (cells = floor(width / char_width), filled = floor(fraction * cells), partial cell iff neither empty nor full and always a configured progress character, background fills the rest; monotone in the fraction) and, for its f32 arithmetic, decided on the unmodified function by loop-free Kani harnesses over the full stated domains (thorough tier).",
        "level_text": "Deductive proof (Verus) of the cell order and the integer arithmetic for all inputs; bit-precise proof (Kani/CBMC) of floor(fraction*cells), the partial-cell condition, index validity, full-iff-complete up to 2^24 over all inputs of the stated domains. Monotonicity of the filled count is proved over the reals (Verus lemma filled_monotone: floor(f * cells) is monotone in f, and fraction is monotone in the position) and checked on the real f32 code by the bounded routine bar_cells; a Kani harness for it (c13_filled_monotone, kept in kani/style.rs) did not terminate within two hours even on a 2^10 x 2^10 x 2^8 box and is not part of any tier.",
        "level_note": "Assumed: console::StyledObject printing, core::fmt sink. The quick tier runs the Verus unit only; the three Kani harnesses take 5 to 60 minutes and run in the thorough tier (a timeout there is reported as undecided). That WideElement::expand hands format_bar the remaining width is decided in C11's unit (format_state).",
        "assumptions": ["cell widths 1..2 and 2..5 progress characters in the Kani fixture", "IEEE-754 semantics as implemented by CBMC"],
    },
    "C19": {
        "units": ["draw_to_term", "multi_state", "format_state"],
        "kani_thorough": [
            {"harness": "c19_wrapped_height_bounded", "timeout": 900, "complete": False, "bound": "cols <= 4096, 1 <= width <= 256",
             "obligation": "kani/draw_target::LineType::wrapped_height",
             "what": "wrapped_height == max(1, ceil(cols/width)) (f64 division + ceil)",
             "trusted": ["console::measure_text_width stubbed by a mock returning the symbolic column count"]},
        ],
        "level": "proof",
        "explanation": "DrawState::draw_to_term, visual_line_count, LineType::{console_width, as_ref}, VisualLines operators extracted from src/draw_target.rs and verified against the ghost terminal: rows are accounted as max(1, ceil(cols/width)) per line, the clear loop blanks exactly the rows of the previous frame, bars are painted only while their accumulated height fits the terminal height, the stored row count equals the rows of the painted bars and never exceeds the height, for every width >= 1, every number of lines and every previous frame height (three loops with inductive invariants).",
        "level_text": "Deductive proof (Verus) over all line lists, widths, heights and previous frame sizes. wrapped_height is verified over the reals (R6: the f64 quotient rounded up equals the integer ceiling division, lemma_ceil_div); its IEEE-754 side is checked by a bounded Kani stand-in (thorough tier; bounded, not counted as proved).",
        "level_note": "Assumed: the ghost terminal model (DESIGN section 3) as the contract of TermLike; console::measure_text_width uninterpreted; wrapped_height's float arithmetic outside the Kani box; line widths < 2^32, terminal width <= 65535, frame heights < 2^31.",
        "assumptions": ["R10: one model terminal type; R2 &self -> &mut self; R3 loop desugarings; R11 derived comparisons field-wise"],
    },
    "C14": {
        "units": ["c14_style", "c12_padding", "c13_bar", "c13_format_bar", "format_state"],
        "safety_units": ["c12_padding", "c13_bar", "c13_format_bar", "format_state"],
        "level": "proof",
        "explanation": "ProgressStyle::{new, tick_chars, tick_strings, progress_chars, template, with_template} extracted and verified to establish the type invariant style_wf (>= 2 tick strings, >= 2 progress characters of one common width >= 1) or to reject explicitly; get_tick_str / get_final_tick_str are index- and remainder-safe under style_wf for every tick count.",
        "level_text": "Deductive proof (Verus) that every builder either panics explicitly (assert!) or returns a style satisfying the invariant under which every index, remainder and division site of the renderers is safe, for all inputs and all tick counts; a style that is accepted but cannot be rendered shows up as a failed builder postcondition.",
        "level_note": "Assumed: std iterator chains replaced by first-order helpers with contracts (R5), Box<str> as String, unicode-width uninterpreted (default chars one column wide), style::width stubbed (explicit panic or common width). format_bar's float arithmetic (division by char_width, progress_chars index) is decided by the Kani harness of C13 under the same invariant, not here. core::fmt writes into a String are infallible (unwrap on write_fmt).",
        "assumptions": ["default cargo features (unicode-width on, unicode-segmentation off)"],
    },
    "C07": {
        "units": ["c07_position", "pb_glue", "c09_estimator"],
        "kani_thorough": [
            {"harness": "c07_fraction_full_domain", "solver": "kissat", "timeout": 1500, "complete": True,
             "obligation": "kani/state::ProgressState::fraction",
             "what": "fraction() in [0,1]; == 1 for len 0; == 0 for unknown length; == 1 for pos >= len > 0; == 0 for pos == 0 < len -- ALL u64 positions x ALL Option<u64> lengths, loop-free",
             "trusted": ["Kani 0.68 / CBMC 6.11 float model (IEEE-754 binary32 division, round-to-nearest)", "kani harness builds ProgressState with mem::zeroed::<Instant>()"]},
        ],
        "level": "proof",
        "explanation": "AtomicPosition::{inc,dec,set,reset}, ProgressState getters/setters and BarState::{set_length,inc_length,dec_length,unset_length,tick,reset,finish_using_style} extracted from /repo/src and verified by Verus against wrap-around / saturation equations written from the property text, with frame clauses (nothing else writes position or length). fraction() is verified over the reals in the c09_estimator unit (in [0,1], 0 for unknown length and at position 0, 1 for length 0 and exactly when position >= length > 0, otherwise the quotient); its f32 side is decided by a loop-free full-domain Kani harness in the thorough tier.",
        "level_text": "Deductive proof (Verus) for every position, length, delta and bar state that each bookkeeping operation computes exactly the documented value (wrapping at 2^64 without panicking for the position, saturating for the length) and touches nothing else; the completed fraction is proved within [0,1] with its corner cases for all 2^64 x (2^64+1) inputs by Kani/CBMC on the unmodified function (thorough tier).",
        "level_note": "Schedules are outside contract-based verification; what is proved instead is the code-level condition under which concurrent inc / dec cannot be lost: each performs exactly one atomic read-modify-write on the position and no plain store (ghost operation counters in the atomics shim). The atomicity of portable_atomic's fetch_add / fetch_sub themselves is assumed. Arc sharing between ProgressBar.pos and BarState.state.pos is modelled as a plain field. Callees BarState::draw / update_estimate_and_draw enter through their frame contract (see stubbed_callees in the evidence). Quick tier runs the Verus unit only; the Kani fraction harness (several minutes) runs in the thorough tier.",
        "assumptions": ["atomics are sequential cells; concurrent schedules not modelled", "IEEE-754 semantics as implemented by CBMC (thorough tier)"],
    },
}

# obligation-id prefix -> witness routines of /verif/replay (run on the REAL code)
WITNESS = {
    "c05_limiters/RateLimiter::allow": ["rl_allow", "rl_window"],
    "c05_limiters/RateLimiter::new": ["rl_new"],
    "c05_limiters/AtomicPosition::allow": ["pos_allow"],
    "c10_template/Template::from_str_with_tab_width#safety": ["template_total", "template_order"],
    "c10_template/Template::from_str_with_tab_width#C10-literal": ["template_order"],
    "c10_template/Template::from_str_with_tab_width": ["template_order", "template_total"],
    "c12_padding/PaddedStringDisplay::fmt": ["pad_field ascii"],
    "c12_padding/PaddedStringDisplay::fmt__F_": ["pad_field"],
    "c15_formatters/HumanFloatCount::fmt": ["human_float"],
    "c15_formatters/HumanCount::fmt": ["human_count"],
    "c15_formatters/FormattedDuration::fmt": ["formatted_duration"],
    "c17_adaptors/ProgressBarIter::poll_fill_buf": ["async_fill_buf"],
    "c17_adaptors/ProgressBarIter::seek": ["iter_adaptors"],
    "c17_adaptors/ProgressBarIter::next": ["iter_adaptors"],
    "c17_adaptors/ProgressBarIter::read": ["iter_adaptors"],
    "c17_adaptors/ProgressBarIter::write": ["iter_adaptors"],
    "c17_adaptors/ProgressBarIter::consume": ["iter_adaptors"],
    "c17_adaptors/ProgressBarIter::async_consume": ["async_fill_buf"],
    "c17_adaptors/ProgressBarIter::poll_complete": ["async_seek"],
    "c09_estimator/Estimator::steps_per_second__F_": ["est_decay"],
    "c09_estimator/": ["est_laws"],
    "c13_format_bar/": ["bar_cells"],
    "format_state/ProgressStyle::push_line": ["render_lines"],
    "format_state/WideElement::expand": ["render_wide"],
    "format_state/ProgressStyle::": ["render_keys", "render_lines", "render_wide"],
    "multi_state/MultiState::suspend": ["io_fail_multi"],
    "multi_state/MultiState::draw__F_C03_log": ["c03_clear_overshoot"],
    "multi_state/MultiState::draw__F_C03_text": ["c03_text_below_zombies"],
    "multi_state/MultiState::draw__F_C03_skip": ["c03_skip_recount"],
    "multi_state/MultiState::": ["c03_clear_overshoot", "c03_text_below_zombies", "c03_skip_recount", "io_fail_multi"],
    "bar_draw/ProgressBar::set_tab_width": ["io_fail_bar"],
    "bar_draw/ProgressBar::": ["io_fail_bar"],
    "bar_draw/BarState::": ["io_fail_bar"],
    "draw_to_term/DrawState::draw_to_term#C03": ["cr_hazard", "first_line_hazard"],
    "draw_to_term/DrawState::draw_to_term": ["first_line_hazard", "cr_hazard"],
    "c14_style/ProgressStyle::tick_strings": ["style_build tick_strings"],
    "c14_style/ProgressStyle::progress_chars": ["style_build progress_chars"],
    "c14_style/ProgressStyle::tick_chars": ["style_build tick_chars"],
    "c14_style/ProgressStyle::": ["style_build"],
}

# unit -> [(replay routine, properties, what it evaluates)]: bounded stand-ins run ONLY when the unit cannot be
# extracted from the current tree (restructured code).  They evaluate the executable form of the unit's contracts on
# the real code over a finite input family; routines whose family contains a listed known finding are not used here.
FALLBACK = {
    "c05_limiters": [("rl_allow", ["C05"], "token-bucket step relation of RateLimiter::allow on a grid of states and times"),
                     ("rl_new", ["C05"], "RateLimiter::new starts with the documented capacity"),
                     ("pos_allow", ["C05"], "AtomicPosition::allow token bucket on a grid of states and times"),
                     ("rl_window", ["C05"], "window bound 20 + R*T + 1 on generated request traces")],
    "bar_draw": [("bar_screen", ["C01", "C03", "C04"], "screen = printed lines + frame after each of 3 operations out of 11 (inc, messages short / wrapping / multi-line / empty, println short / wrapping, set_length, set_position, reset, suspend) + 5 finishing variants + drop, lengths known / unknown: 3872 states"),
                 ("bar_forced", ["C04", "C05", "C03", "C01"], "finish*, abandon, drop, println, suspend paint with an exhausted 1 Hz limiter"),
                 ("bar_reuse", ["C04"], "finish behaviour at the second completion of a reused bar: 3 finish behaviours x 3 ways to complete again"),
                 ("multi_rate", ["C05"], "a skipped update of one bar of a 2 Hz MultiProgress is shown by the next frame another bar triggers (one history, one 700 ms lower-bound sleep)"),
                 ("multi_logs", ["C03"], "see multi_state"),
                 ("bar_frames", ["C05"], "400 ordinary updates paint at most 20 + rate*T + 1 frames (6 position/length pairs x 2 rates)"),
                 ("bar_hidden", ["C06"], "getters of a hidden bar vs a visible bar after 2 operations + 6 finishing / reset variants: 726 histories"),
                 ("tracker_ticks", ["C11"], "a custom tracker's tick / reset log after each of up to 4 public operations out of 12 (inc, tick, set_message, set_prefix, length setters, set_position, reset, finish), hidden and visible bar: 55296 states"),
                 ("io_fail_bar", ["C18"], "every ProgressBar call under a terminal failing after 0 / 1 / 3 / 8 / 20 operations"),
                 ("io_fail_state", ["C18"], "MultiProgress::println / clear report the error (3 histories incl. a reaped dropped bar); getters after every pair of 10 operations equal those on a working terminal")],
    "draw_to_term": [("bar_screen", ["C01", "C03", "C19"], "as above (wrapping messages and printed lines exercise the row accounting)"),
                     ("multi_finish", ["C04", "C19"], "finished bars of a MultiProgress stay, in order, for every finish and drop order of three bars"),
                     ("multi_bottom", ["C03", "C02"], "Bottom alignment: printed lines stay above the region and the live bars follow in order, only blank rows between them, after each of 4 operations out of 10 (println through the MultiProgress or a bar, remove, finish_and_clear + drop) on three bars: 26350 states")],
    "multi_state": [("multi_logs", ["C03", "C02"], "lines printed through the MultiProgress or a member bar ('' / text / two lines) after each of 3 operations out of 6, three unfinished bars: 1944 states"),
                    ("multi_rate", ["C05"], "see bar_draw"),
                    ("multi_order", ["C02"], "documented order after up to 5 add / insert / insert_from_back / insert_before / insert_after / remove operations: 13204 states"),
                    ("multi_finish", ["C04", "C02", "C19", "C03"], "finished bars of a MultiProgress (one-row and wrapping) stay, in order, for every finish and drop order of three bars"),
                    ("io_fail_multi", ["C18"], "MultiProgress calls under a failing terminal"),
                    ("multi_bottom", ["C03", "C02"], "see draw_to_term"),
                    ("multi_move", ["C02"], "see pins_multi"),
                    ("io_fail_state", ["C18"], "see bar_draw")],
    "c07_position": [("bar_hidden", ["C06", "C07"], "getters after operation histories, hidden vs visible"),
                     ("pos_arith", ["C07", "C04", "C05"], "inc / dec wrap, inc_length / dec_length saturate, finish variants vs position: 5 x 5 boundary values"),
                     ("pos_history", ["C07"], "position() / length() against the history-defined model after each of up to 4 operations out of 15 (inc, dec, set_position, set_length, inc_length, dec_length, unset_length, reset, finish, abandon with boundary arguments), hidden and visible bar: 135000 states"),
                     ("bar_reuse", ["C04", "C17"], "finish behaviour at the second completion of a reused bar"),
                     ("est_laws", ["C09"], "see c09_estimator"), ("tracker_ticks", ["C11"], "see bar_draw")],
    "pb_glue": [("pos_arith", ["C07", "C05"], "see c07_position"), ("pos_history", ["C07"], "see c07_position"), ("bar_frames", ["C05"], "see bar_draw")],
    "c17_adaptors": [("iter_adaptors", ["C17"], "external / reverse / internal iteration (8 modes x 3 lengths, second handle on the bar), Read with 5 chunk scripts x 3 buffer sizes incl. errors, read_exact, read_to_string, interleaved fill_buf / consume, 9 seeks x 2 bar offsets, Write / write_vectored with 4 chunk scripts")],
    "c13_format_bar": [("bar_cells", ["C13"], "{bar:N} geometry for 6 widths x 9 lengths (up to 2^24) x 8 positions on the real f32 code")],
    "c16_tabs": [("tabs_everywhere", ["C16", "C06"], "message / prefix / literal tabs after every sequence of 3 operations out of 7 (set_message, set_prefix, set_tab_width x2, set_style x2, finish_with_message) x 2 initial widths; custom keys writing a tab as str, char and format argument")],
    "pins_bar": [("bar_screen", ["C01", "C03", "C04"], "see bar_draw"), ("bar_forced", ["C04", "C05", "C03", "C01"], "see bar_draw"),
                 ("bar_frames", ["C05"], "see bar_draw"), ("bar_hidden", ["C06"], "see bar_draw"), ("bar_reuse", ["C04"], "see bar_draw")],
    "pins_multi": [("multi_removed", ["C06"], "a bar removed from its MultiProgress (unfinished / finished / abandoned / cleared) performs no terminal operation on six later calls"),
                   ("multi_order", ["C02"], "see multi_state"), ("multi_finish", ["C04", "C02", "C03"], "see multi_state"), ("multi_logs", ["C03", "C02"], "see multi_state"),
                   ("multi_bottom", ["C03", "C02"], "see draw_to_term"),
                   ("multi_move", ["C02"], "a bar handed to a second MultiProgress (add / insert / insert_after, drawn or not) leaves the first and shows up once in the second: 6 histories")],
    "pins_iter": [("iter_adaptors", ["C17"], "see c17_adaptors")],
    "c09_estimator": [("time_keys", ["C11"], "see format_state"), ("bar_cells", ["C13"], "see c13_format_bar (ProgressState::fraction feeds the bar geometry)"), ("est_laws", ["C09"], "finite / non-negative / bounded / steady-exact / reset-forgets on the real f64 estimator: 5 rates x 6 gap patterns x 40 samples")],
    "c14_style": [("style_build", ["C14"], "builders reject or produce a renderable style (family of tick/progress strings)")],
    "c10_template": [("template_fields", ["C10", "C12"], "width / alignment / truncation options of a placeholder reach the renderer as written: 14 templates"),
                     ("template_total", ["C10"], "parser totality on generated strings up to length 6 over the grammar alphabet"),
                     ("template_order", ["C10"], "literal order / one line per template line on generated templates")],
    "format_state": [("tracker_ticks", ["C11"], "see bar_draw"),
                     ("time_keys", ["C11"], "elapsed / eta / duration keys against the formatted getters for known / unknown / zero length, running and finished bars, 0 s .. 25 h of elapsed time: 32 states"), ("render_keys", ["C11"], "every documented key against the getters through the public formatters, 9 position/length pairs x 3 statuses x 4 tick counts; custom key shadowing"),
                     ("render_wide", ["C12", "C13", "C11"], "lines with wide_bar / wide_msg fill exactly the terminal width (4 widths x 7 templates)"),
                     ("render_lines", ["C10", "C11", "C01"], "frame line structure for 8 templates x 9 messages with embedded / trailing newlines")],
    "c12_padding": [("pad_field ascii", ["C12"], "padding / truncation on printable ASCII, widths 0..12"),
                    ("pad_no_panic", ["C12", "C14"], "the field formatter never panics: 13 texts (double-width, combining, emoji, ANSI) x widths 0..10 x 3 alignments x truncate")],
    "c15_formatters": [("byte_formatters", ["C15"], "HumanBytes / BinaryBytes / DecimalBytes against the 1024 / 1000 prefix families around every threshold up to u64::MAX: 225 values"),
                       ("human_count", ["C15"], "digit grouping on boundary values"),
                       ("formatted_duration", ["C15"], "HH:MM:SS on boundary durations"),
                       ("human_float", ["C15"], "HumanFloatCount shape on boundary values"),
                       ("human_duration", ["C15"], "HumanDuration rounding rule, unit switch and monotonicity at every unit boundary k*U, (k+0.5)*U, switch points, each +- 1 ms (444 durations up to Duration::MAX)")],
}

NOT_APPLICABLE = [
    {"property_id": "C08", "reason": "quantifies over thread schedules and liveness (no deadlock, ticker thread stops promptly); Kani has no threads, Verus cannot reason about std Mutex/RwLock/Condvar/thread::spawn, and per-call contracts cannot express 'cannot block forever' (DESIGN.md section 6)"},
]
NOTES = "Every check: ./check <id> --tier quick|thorough; exit 0 held / 1 VIOLATION / 2 undecided (drift, unsupported construct, resource limit, vacuity canary - never an alarm). A unit that cannot be extracted from the current tree falls back to bounded routines on the real code, which can only add a VIOLATION with a replayable input; the thorough tier adds the Kani harnesses (C07, C13, C19) and runs the same bounded routines as a check of the modelling assumptions. Known findings: /verif/known_findings.json."


def _verified_in():
    import importlib
    out = {}
    names = set()
    for p in PROPERTIES.values():
        names.update(p.get("units", []))
        names.update(p.get("units_thorough", []))
    for n in sorted(names):
        u = importlib.import_module("specs." + n).UNIT
        for it in u.items:
            if it.__class__.__name__ == "Fn" and not it.stub:
                out[(it.file, it.container, it.name)] = n
    return out


VERIFIED_IN = _verified_in()
