"""Property -> units / harnesses registry."""

GLOBAL_TRUSTED = [
    "Verus 0.2026.09.13 + bundled Z3; rustc front end of Verus",
    "the extractor /verif/vlib (its output is type-checked by rustc inside Verus; rewrites are enumerated per item in extracted_items)",
]
GLOBAL_ASSUMPTIONS = [
    "x86-64 only: `global size_of usize == 8`; cfg(target_arch = wasm32) alternatives dropped",
    "sequential semantics: locks transparent, atomics are cells (R2); no thread interleavings",
]

PROPERTIES = {
    "C05": {
        "units": ["c05_limiters"],
        "level": "proof",
        "explanation": "RateLimiter::{new,allow} and AtomicPosition::allow extracted from /repo/src and verified by Verus against the token-bucket step relation; window (20 + R*T + 1) and staleness bounds proved as lemmas by induction over call traces whose step relation is the conjunction of the code contracts.",
        "level_text": "Deductive proof (Verus/Z3), for every limiter state and request time, that RateLimiter::new/allow and AtomicPosition::allow as they stand in /repo/src satisfy the token-bucket step relation taken from the property text; the frame bound 20 + R*T + 1 and the staleness bound are proved once and for all as lemmas by induction over arbitrary call histories whose step relation is exactly those contracts. No bound on history length, times or counters.",
        "level_note": "Assumed: std::time modelled as natural-number nanoseconds (differences within Duration::MAX, request times non-decreasing), atomics as sequential cells, Instant::now() arbitrary. Not covered by a contract yet: the three-line glue in ProgressBar::{inc,dec,set_position} and ProgressDrawTarget::drawable that routes requests through the limiters (see DESIGN.md).",
        "assumptions": [
            "machine time: Instant/Duration modelled as unbounded natural nanoseconds, differences bounded by Duration::MAX",
            "request times are non-decreasing along a history (Instant::now() is monotone)",
        ],
    },
}

# obligation-id prefix -> witness routines of /verif/replay (run on the REAL code)
WITNESS = {
    "c05_limiters/RateLimiter::allow": ["rl_allow", "rl_window"],
    "c05_limiters/RateLimiter::new": ["rl_new"],
    "c05_limiters/AtomicPosition::allow": ["pos_allow"],
}

NOT_APPLICABLE = [
    {"property_id": "C08", "reason": "quantifies over thread schedules and liveness (no deadlock, ticker thread stops promptly); Kani has no threads, Verus cannot reason about std Mutex/RwLock/Condvar/thread::spawn, and per-call contracts cannot express 'cannot block forever' (DESIGN.md section 6)"},
]
NOTES = "Every check: ./check <id> --tier quick|thorough; exit 0 held / 1 VIOLATION / 2 undecided (drift, unsupported construct, resource limit, vacuity canary - never an alarm). Known findings: /verif/known_findings.json."
