"""MultiProgress API glue (src/multi.rs: add / insert* / remove / internalize / println / suspend / clear / setters,
constructors) pinned by hash; the Arc sharing between a MultiProgress and its bars' targets is outside the units."""
from vlib.unit import Unit, Lemma

UNIT = Unit(
    name="pins_multi",
    properties=["C02", "C03", "C04", "C05", "C06", "C18"],
    prelude=[],
    trusted=["no function is verified in this unit: it only pins source text (specs/stub_baseline.json)"],
    items=[Lemma("pins_present", "()", ensures=[("pinned-api-glue-unchanged", "true")], body="{}", no_canary=True)],
)
UNIT.pinned = [("src/multi.rs", "MultiProgress", n) for n in
               ["new", "with_draw_target", "add", "insert", "insert_from_back",
                "insert_before", "insert_after", "remove", "internalize", "suspend"]] + [
    ("src/multi.rs", "MultiState", "new"), ("src/draw_target.rs", "ProgressDrawTarget", "new_remote"),
    ("src/progress_bar.rs", "ProgressBar", "index"),
]
