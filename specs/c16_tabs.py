"""C16 -- tabs are always expanded.  TabExpandedString::{new, expanded, set_tab_width},
Template::set_tab_width, ProgressStyle::set_tab_width, BarState::{set_tab_width, set_style},
TabRewriter::write_str."""
import re
from vlib.unit import Unit, Fn, Decl, Raw, Lemma, Rw, RwFn, r3_index_loops
from specs import contracts as K

TES_SPEC = r"""
impl TabExpandedString {
    // cache invariant: a cached expansion, if any, is the expansion for the current width
    spec fn wf(&self) -> bool {
        match *self {
            TabExpandedString::NoTabs(s) => tab_free(s@),
            TabExpandedString::WithTabs { original, expanded, tab_width } =>
                expanded.v matches Some(x) ==> x@ == expand(original@, tab_width as nat),
        }
    }
    spec fn orig(&self) -> Seq<char> {
        match *self { TabExpandedString::NoTabs(s) => s@, TabExpandedString::WithTabs { original, .. } => original@ }
    }
    // the width this value is expanded with (a tab-free value is right for every width)
    spec fn has_width(&self, n: usize) -> bool {
        match *self { TabExpandedString::NoTabs(s) => true, TabExpandedString::WithTabs { tab_width, .. } => tab_width == n }
    }
}
"""

COW = Rw("R15", r"Cow<'static, str>", "String", count=None)

TES_NEW = dict(file="src/state.rs", container="TabExpandedString", name="new", ret="r",
               sig_rewrites=[COW],
               rewrites=[Rw("R5", r"!s\.contains\('\\t'\)", "!has_tab(&s)")],
               ensures=[("wf", "r.wf()"), ("C16-orig", "r.orig() == s@"), ("C16-width", "r.has_width(tab_width)")])
TES_EXPANDED = dict(file="src/state.rs", container="TabExpandedString", name="expanded", ret="r",
                    sig_rewrites=[Rw("R15", r"-> &str", "-> &String")],
                    rewrites=[Rw("R8", r"debug_assert!\(!s\.contains\('\\t'\)\);", "assert(tab_free(s@));"),
                              Rw("R5", r"expanded\.get_or_init\(\|\| original\.replace\('\\t', &\" \"\.repeat\(\*tab_width\)\)\)",
                                 "once_get_or_expand(expanded, original, *tab_width)")],
                    requires=[("wf", "self.wf()")],
                    ensures=[("C16-expanded", "forall|n: usize| self.has_width(n) ==> r@ == expand(self.orig(), n as nat)"),
                             ("C16-no-tab", "tab_free(r@)")],
                    proofs=[(r"match &self", "before", """
        proof {
            lemma_expand_tab_free(self.orig(), 0);
            assert forall|n: usize| tab_free(expand(self.orig(), n as nat)) by { lemma_expand_tab_free(self.orig(), n as nat); }
            if self is NoTabs { assert forall|n: usize| expand(self.orig(), n as nat) == self.orig() by { lemma_expand_identity(self.orig(), n as nat); } }
        }
""")])
TES_SET = dict(file="src/state.rs", container="TabExpandedString", name="set_tab_width",
               requires=[("wf", "old(self).wf()")],
               ensures=[("wf", "final(self).wf()"), ("C16-orig", "final(self).orig() == old(self).orig()"),
                        ("C16-width", "final(self).has_width(new_tab_width)")])


MORE_SPEC = r"""
#[verifier::external_body]
struct Style { _p: core::marker::PhantomData<()> }
#[verifier::external_body]
struct FormatMap { _p: core::marker::PhantomData<()> }

spec fn part_ok(p: TemplatePart, n: usize) -> bool {
    match p { TemplatePart::Literal(t) => t.wf() && t.has_width(n), _ => true }
}
spec fn part_orig(p: TemplatePart) -> Seq<char> {
    match p { TemplatePart::Literal(t) => t.orig(), _ => Seq::<char>::empty() }
}
// same template, literal for literal (only the tab width of literals may differ)
spec fn same_shape(a: Seq<TemplatePart>, b: Seq<TemplatePart>) -> bool {
    &&& a.len() == b.len()
    &&& forall|i: int| 0 <= i < a.len() ==> (#[trigger] a[i] is Literal) == (b[i] is Literal) && part_orig(a[i]) == part_orig(b[i])
            && (!(a[i] is Literal) ==> a[i] == b[i])
}
impl Template {
    spec fn ok(&self, n: usize) -> bool { forall|i: int| 0 <= i < self.parts@.len() ==> part_ok(#[trigger] self.parts@[i], n) }
    spec fn wf(&self) -> bool { forall|i: int| 0 <= i < self.parts@.len() ==> (#[trigger] self.parts@[i] matches TemplatePart::Literal(t) ==> t.wf()) }
}
impl ProgressStyle {
    // every literal of the template is expanded with the style's tab width
    spec fn tabs_ok(&self) -> bool { self.template.ok(self.tab_width) }
}
impl BarState {
    // C16 invariant of a bar: message, prefix, template literals and custom-key rewriter all
    // use the bar's current tab width
    spec fn tabs_wf(&self) -> bool {
        &&& self.state.message.wf() && self.state.message.has_width(self.tab_width)
        &&& self.state.prefix.wf() && self.state.prefix.has_width(self.tab_width)
        &&& self.style.tab_width == self.tab_width
        &&& self.style.tabs_ok()
    }
}
// frame vocabulary for the stubbed draw path (same clause text as in specs/contracts.py; here the
// texts are the real TabExpandedString values)
spec fn logical_same(a: BarState, b: BarState) -> bool {
    &&& a.state.pos.pos@ == b.state.pos.pos@ && a.state.len == b.state.len && a.state.status == b.state.status
    &&& a.state.tick == b.state.tick && a.state.started == b.state.started
    &&& a.state.message == b.state.message && a.state.prefix == b.state.prefix
    &&& a.tab_width == b.tab_width && a.style.tab_width == b.style.tab_width && a.style.template == b.style.template
    &&& a.on_finish == b.on_finish
}
#[verifier::external_body]
struct TickerHandle { _p: core::marker::PhantomData<()> }
// fmt::Write sink of the custom-key rewriter: ghost text
struct StrSink { text: Ghost<Seq<char>> }
struct FmtError { k: u8 }
impl StrSink {
    #[verifier::external_body]
    fn write_str(&mut self, s: &str) -> (r: Result<(), FmtError>)
        ensures final(self).text@ == old(self).text@ + s@
    { unimplemented!() }
}
"""

STYLE_DECL_RW = [Rw("R15", r"Vec<Box<str>>", "Vec<String>", count=2),
                 Rw("R10", r"HashMap<&'static str, Box<dyn ProgressTracker>>", "FormatMap")]

TEMPLATE_SET = dict(file="src/style.rs", container="Template", name="set_tab_width",
                    rewrites=[RwFn("R3", r3_index_loops, count=1)],
                    requires=[("wf", "old(self).wf()")],
                    ensures=[("C16-literals", "final(self).ok(new_tab_width)"),
                             ("C16-same-template", "same_shape(old(self).parts@, final(self).parts@)")],
                    loops={0: {"invariant": [
                        "__n0 <= self.parts@.len()", "self.parts@.len() == old(self).parts@.len()",
                        "forall|j: int| 0 <= j < __n0 ==> part_ok(#[trigger] self.parts@[j], new_tab_width)",
                        "forall|j: int| 0 <= j < self.parts@.len() ==> (#[trigger] self.parts@[j] is Literal) == (old(self).parts@[j] is Literal) && part_orig(self.parts@[j]) == part_orig(old(self).parts@[j]) && (!(self.parts@[j] is Literal) ==> self.parts@[j] == old(self).parts@[j])",
                        "forall|j: int| __n0 <= j < self.parts@.len() ==> self.parts@[j] == old(self).parts@[j]",
                        "forall|j: int| __n0 <= j < self.parts@.len() ==> (#[trigger] self.parts@[j] matches TemplatePart::Literal(t) ==> t.wf())",
                    ], "decreases": "self.parts@.len() - __n0"}})

STYLE_SET = dict(file="src/style.rs", container="ProgressStyle", name="set_tab_width",
                 requires=[("wf", "old(self).template.wf()")],
                 ensures=[("C16-style-width", "final(self).tab_width == new_tab_width"),
                          ("C16-literals", "final(self).tabs_ok()"),
                          ("C16-same-template", "same_shape(old(self).template.parts@, final(self).template.parts@)"),
                          ("frame", "final(self).tick_strings == old(self).tick_strings && final(self).progress_chars == old(self).progress_chars && final(self).char_width == old(self).char_width")])

BAR_SET_TAB = dict(file="src/state.rs", container="BarState", name="set_tab_width",
                   requires=[("wf", "old(self).state.message.wf() && old(self).state.prefix.wf() && old(self).style.template.wf()")],
                   ensures=[("C16-tabs-wf", "final(self).tabs_wf()"),
                            ("C16-width", "final(self).tab_width == tab_width"),
                            ("C16-texts-kept", "final(self).state.message.orig() == old(self).state.message.orig() && final(self).state.prefix.orig() == old(self).state.prefix.orig()"),
                            ("C16-same-template", "same_shape(old(self).style.template.parts@, final(self).style.template.parts@)")])

BAR_SET_STYLE = dict(file="src/state.rs", container="BarState", name="set_style",
                     requires=[("wf", "old(self).tabs_wf()"), ("style-wf", "style.template.wf()")],
                     ensures=[("C16-tabs-wf", "final(self).tabs_wf()"),
                              ("C16-same-template", "same_shape(style.template.parts@, final(self).style.template.parts@)"),
                              ("frame", "final(self).tab_width == old(self).tab_width && final(self).state.message == old(self).state.message && final(self).state.prefix == old(self).state.prefix")])

PB_DECL_RW = [Rw("R2", r"Arc<Mutex<BarState>>", "BarState"), Rw("R2", r"Arc<AtomicPosition>", "AtomicPosition"),
              Rw("R2", r"Arc<Mutex<Option<Ticker>>>", "TickerHandle")]
PB_SIG = [Rw("R2", r"&self", "&mut self", count=None), Rw("R15", r"impl Into<Cow<'static, str>>", "String", count=None)]
PB_SIG_VAL = [Rw("R15", r"impl Into<Cow<'static, str>>", "String", count=None), Rw("R18", r"\(self,", "(mut self,")]
PB_BODY = [Rw("R2", r"let mut state = self\.state\(\);", "let state = &mut self.state;", count=None),
           Rw("R15", r"\.into\(\)", "", count="any")]
TO_STRING = Rw("R5", r"(self\.state\.state\.\w+\.expanded\(\))\.to_string\(\)", r"to_owned_string(\1)")
DROP_GUARD = Rw("R9", r"drop\(state\);", "", count=1)

UNIT = Unit(
    name="c16_tabs",
    properties=["C06", "C16"],
    prelude=["time", "atomics", "tabs", "est_opaque", "target_opaque"],
    trusted=[
        "R5 helpers: has_tab = str::contains('\\t'), expand_tabs = s.replace('\\t', &\" \".repeat(n)), once_get_or_expand = OnceLock::get_or_init(|| ...) (returns the cached value if present else the fresh expansion)",
        "OnceLock filling through &self is not modelled; every cache state allowed by the invariant is considered instead",
        "R15: Cow<'static, str> as String",
    ],
    items=[
        Decl("src/state.rs", "enum", "TabExpandedString", rewrites=[COW]),
        Raw(TES_SPEC),
        Fn(**TES_NEW),
        Fn(**TES_EXPANDED),
        Fn(**TES_SET),
        Decl("src/state.rs", "const", "DEFAULT_TAB_WIDTH"),
        Decl("src/state.rs", "struct", "AtomicPosition"),
        Decl("src/state.rs", "enum", "Status"),
        Decl("src/state.rs", "enum", "ProgressFinish", rewrites=[COW]),
        Decl("src/state.rs", "struct", "ProgressState", rewrites=[Rw("R2", r"Arc<AtomicPosition>", "AtomicPosition")]),
        Decl("src/state.rs", "struct", "BarState"),
        Decl("src/style.rs", "enum", "Alignment"),
        Decl("src/style.rs", "enum", "TemplatePart"),
        Decl("src/style.rs", "struct", "Template"),
        Decl("src/style.rs", "struct", "ProgressStyle", rewrites=STYLE_DECL_RW),
        Decl("src/style.rs", "struct", "TabRewriter", rewrites=[Rw("R10", r"&'a mut dyn fmt::Write", "&'a mut StrSink")]),
        Raw(MORE_SPEC),
        Fn(**TEMPLATE_SET),
        Fn(**STYLE_SET),
        Fn(**BAR_SET_TAB),
        Fn(**BAR_SET_STYLE),
        Decl("src/progress_bar.rs", "struct", "ProgressBar", rewrites=PB_DECL_RW),
        Raw(K.INSTANT_NOW), Raw(K.TIME_OK),
        Fn(**dict(K.BAR_DRAW, stub=True)),
        Fn(**dict(K.BAR_UPDATE_AND_DRAW, stub=True)),
        Fn(**dict(K.POS_SET, stub=True)),
        Fn("src/state.rs", "BarState", "finish_using_style",
           requires=[("wf", "old(self).tabs_wf()")] + K.BAR_REQ,
           ensures=[("C16-tabs-wf", "final(self).tabs_wf()"),
                    ("C16-finish-message", "match finish { ProgressFinish::WithMessage(m) => final(self).state.message.orig() == m@, ProgressFinish::AbandonWithMessage(m) => final(self).state.message.orig() == m@, _ => final(self).state.message == old(self).state.message }"),
                    ("frame", "final(self).state.prefix == old(self).state.prefix && final(self).tab_width == old(self).tab_width")]),
        Fn("src/progress_bar.rs", "ProgressBar", "set_style", sig_rewrites=[K.SELF_MUT], rewrites=[Rw("R2", r"self\.state\(\)", "self.state", count=1)],
           requires=[("wf", "old(self).state.tabs_wf()"), ("style-wf", "style.template.wf()")],
           ensures=[("C16-tabs-wf", "final(self).state.tabs_wf()"),
                    ("C16-same-template", "same_shape(style.template.parts@, final(self).state.style.template.parts@)"),
                    ("frame", "final(self).state.tab_width == old(self).state.tab_width && final(self).state.state.message == old(self).state.state.message && final(self).state.state.prefix == old(self).state.state.prefix")]),
        Fn("src/progress_bar.rs", "ProgressBar", "set_message", sig_rewrites=PB_SIG, rewrites=PB_BODY,
           requires=[("wf", "old(self).state.tabs_wf()"), ("target-wf", "old(self).state.draw_target.wf2()")],
           ensures=[("C16-tabs-wf", "final(self).state.tabs_wf()"), ("C16-message", "final(self).state.state.message.orig() == msg@"),
                    ("frame", "final(self).state.state.prefix == old(self).state.state.prefix && final(self).state.tab_width == old(self).state.tab_width")]),
        Fn("src/progress_bar.rs", "ProgressBar", "set_prefix", sig_rewrites=PB_SIG, rewrites=PB_BODY,
           requires=[("wf", "old(self).state.tabs_wf()"), ("target-wf", "old(self).state.draw_target.wf2()")],
           ensures=[("C16-tabs-wf", "final(self).state.tabs_wf()"), ("C16-prefix", "final(self).state.state.prefix.orig() == prefix@"),
                    ("frame", "final(self).state.state.message == old(self).state.state.message && final(self).state.tab_width == old(self).state.tab_width")]),
        Fn("src/progress_bar.rs", "ProgressBar", "with_message", ret="r", sig_rewrites=PB_SIG_VAL, rewrites=PB_BODY + [DROP_GUARD],
           requires=[("wf", "self.state.tabs_wf()")],
           ensures=[("C16-tabs-wf", "r.state.tabs_wf()"), ("C16-message", "r.state.state.message.orig() == message@")]),
        Fn("src/progress_bar.rs", "ProgressBar", "with_prefix", ret="r", sig_rewrites=PB_SIG_VAL, rewrites=PB_BODY + [DROP_GUARD],
           requires=[("wf", "self.state.tabs_wf()")],
           ensures=[("C16-tabs-wf", "r.state.tabs_wf()"), ("C16-prefix", "r.state.state.prefix.orig() == prefix@")]),
        Fn("src/progress_bar.rs", "ProgressBar", "with_tab_width", ret="r", sig_rewrites=[Rw("R18", r"\(self,", "(mut self,")], rewrites=[Rw("R2", r"self\.state\(\)", "self.state", count=None)],
           requires=[("wf", "self.state.tabs_wf()")],
           ensures=[("C16-tabs-wf", "r.state.tabs_wf()"), ("C16-width", "r.state.tab_width == tab_width"),
                    ("C16-texts-kept", "r.state.state.message.orig() == self.state.state.message.orig() && r.state.state.prefix.orig() == self.state.state.prefix.orig()")]),
        Fn("src/progress_bar.rs", "ProgressBar", "message", ret="r", rewrites=[Rw("R2", r"self\.state\(\)", "self.state", count=None), TO_STRING],
           requires=[("wf", "self.state.tabs_wf()")],
           ensures=[("C16-message-expanded", "r@ == expand(self.state.state.message.orig(), self.state.tab_width as nat)"), ("C16-no-tab", "tab_free(r@)")]),
        Fn("src/progress_bar.rs", "ProgressBar", "prefix", ret="r", rewrites=[Rw("R2", r"self\.state\(\)", "self.state", count=None), TO_STRING],
           requires=[("wf", "self.state.tabs_wf()")],
           ensures=[("C16-prefix-expanded", "r@ == expand(self.state.state.prefix.orig(), self.state.tab_width as nat)"), ("C16-no-tab", "tab_free(r@)")]),
        Fn("src/style.rs", "Write for TabRewriter", "write_str", ret="r",
           sig_rewrites=[Rw("R17", r"fmt::Result", "Result<(), FmtError>")],
           rewrites=[Rw("R5", r"s\.replace\('\\t', &\" \"\.repeat\(self\.1\)\)", "expand_tabs(s, self.1)")],
           ensures=[("C16-custom-key-output", "final(self).0.text@ == old(self).0.text@ + expand(s@, old(self).1 as nat)"),
                    ("frame", "final(self).1 == old(self).1")]),
    ],
)
