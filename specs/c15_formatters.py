"""C15 -- human-readable formatters.  HumanCount, FormattedDuration (src/format.rs)."""
import re
from vlib.unit import Unit, Fn, Decl, Raw, Lemma, Rw, RwFn, r3_index_loops, r7_write_macros
from specs import contracts as K

SPEC = r"""
// "a comma after every third integer digit" (counted from the right) -- written from the statement
spec fn group3(d: Seq<char>) -> Seq<char> decreases d.len() {
    if d.len() <= 3 { d } else { group3(d.subrange(0, d.len() - 3)) + seq![','] + d.subrange(d.len() - 3, d.len() as int) }
}
// what the left-to-right loop has written after k characters of a text of length n
spec fn emit(d: Seq<char>, n: int, k: int) -> Seq<char> decreases k {
    if k <= 0 { Seq::<char>::empty() }
    else {
        let i = k - 1;
        let p = n - i - 1;
        emit(d, n, k - 1) + (if p > 0 && p % 3 == 0 { seq![d[i], ','] } else { seq![d[i]] })
    }
}
"""

LEMMAS = [
    Lemma("emit_prefix", "(d: Seq<char>, e: Seq<char>, n: int, k: int)",
          requires=[("k", "0 <= k <= e.len() <= d.len() - 3"), ("same", "forall|i: int| 0 <= i < e.len() ==> d[i] == e[i]"), ("n", "n == d.len()")],
          ensures=[("shift", "k < e.len() ==> emit(d, n, k) == emit(e, n - 3, k)"),
                   ("last", "k == e.len() && e.len() == d.len() - 3 && k > 0 ==> emit(d, n, k) == emit(e, n - 3, k).push(',')")],
          decreases="k",
          body=r"""{
    if k > 0 {
        emit_prefix(d, e, n, k - 1);
        let i = k - 1;
        assert((n - i - 1) % 3 == ((n - 3) - i - 1) % 3);
        if k == e.len() && e.len() == d.len() - 3 {
            // the last character of the prefix: position 0 in e (no comma), position 3 in d (comma)
            assert(emit(e, n - 3, k) == emit(e, n - 3, k - 1) + seq![e[i]]);
            assert(emit(d, n, k) == emit(d, n, k - 1) + seq![d[i], ',']);
            assert(emit(e, n - 3, k - 1) + seq![d[i], ','] =~= (emit(e, n - 3, k - 1) + seq![e[i]]).push(','));
        }
    }
}"""),
    Lemma("emit_is_group3", "(d: Seq<char>)",
          ensures=[("C15-grouping", "emit(d, d.len() as int, d.len() as int) == group3(d)")],
          decreases="d.len()",
          body=r"""{
    let n = d.len() as int;
    reveal_with_fuel(emit, 4);
    if n <= 3 {
        // no position > 0 is a multiple of 3 below 3
        if n == 0 { }
        else if n == 1 { assert(emit(d, n, 1) =~= d); }
        else if n == 2 { assert(emit(d, n, 1) =~= seq![d[0]]); assert(emit(d, n, 2) =~= d); }
        else { assert(emit(d, n, 1) =~= seq![d[0]]); assert(emit(d, n, 2) =~= seq![d[0], d[1]]); assert(emit(d, n, 3) =~= d); }
    } else {
        let e = d.subrange(0, n - 3);
        emit_is_group3(e);
        emit_prefix(d, e, n, n - 3);
        let a = emit(d, n, n - 3);
        assert(a == group3(e).push(','));
        assert(emit(d, n, n - 2) == a + seq![d[n - 3]]);
        assert(emit(d, n, n - 1) == emit(d, n, n - 2) + seq![d[n - 2]]);
        assert(emit(d, n, n) == emit(d, n, n - 1) + seq![d[n - 1]]);
        assert(d.subrange(n - 3, n) =~= seq![d[n - 3], d[n - 2], d[n - 1]]);
        assert(emit(d, n, n) =~= group3(e) + seq![','] + d.subrange(n - 3, n));
    }
}"""),
]

FMT_SIG = [Rw("R7", r"fmt::Formatter<'_>", "Formatter"), Rw("R17", r"fmt::Result", "Result<(), FmtError>")]

UNIT = Unit(
    name="c15_formatters",
    properties=["C15"],
    prelude=["time", "fmt", "fmtx"],
    trusted=[
        "core::fmt: `{}` of an unsigned integer prints dec(x), `{:02}` prints pad2(x); u64::to_string == dec (prelude/fmtx.rs)",
        "R7: write!(f, \"..\") translated piecewise into sink calls (literal text and flags stay visible)",
        "R13: Display::fmt verified as an inherent method",
    ],
    items=[
        Decl("src/format.rs", "struct", "HumanCount"),
        Decl("src/format.rs", "struct", "FormattedDuration"),
        Raw(SPEC),
    ] + LEMMAS + [
        Fn("src/format.rs", "fmt::Display for HumanCount", "fmt", ret="r", sig_rewrites=FMT_SIG,
           rewrites=[Rw("R1", r"use fmt::Write;", ""), Rw("R5", r"self\.0\.to_string\(\)", "u64_to_string(self.0)"),
                     Rw("R5", r"num\.len\(\)", "ascii_len(&num)"), RwFn("R3", r3_index_loops, count=1)],
           ensures=[("C15-human-count", "r.is_ok() ==> final(f).text() == old(f).text() + group3(dec(self.0 as nat))")],
           proofs=[(r"let len = ", "after", "        proof { lemma_dec_digits(self.0 as nat); emit_is_group3(num@); }")],
           loops={0: {"invariant": ["__n0 <= __cs0@.len()", "__cs0@ == num@", "len == num@.len()", "f.text() == old(f).text() + emit(num@, len as int, __n0 as int)"],
                      "decreases": "__cs0@.len() - __n0"}}),
        Fn("src/format.rs", "fmt::Display for FormattedDuration", "fmt", ret="r", sig_rewrites=FMT_SIG,
           rewrites=[RwFn("R7", r7_write_macros, count=2)],
           requires=[("duration-wf", "self.0.wf()")],
           ensures=[("C15-formatted-duration",
                     "r.is_ok() ==> ({ let t = self.0.ns() / 1_000_000_000; let s = t % 60; let m = (t / 60) % 60; let h = (t / 3600) % 24; let d = t / 86400; "
                     "final(f).text() == old(f).text() + (if d > 0 { dec(d) + seq!['d', ' '] } else { Seq::<char>::empty() }) + pad2(h) + seq![':'] + pad2(m) + seq![':'] + pad2(s) })")]),
    ],
)
