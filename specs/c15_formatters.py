"""C15 -- human-readable formatters.  HumanCount, FormattedDuration (src/format.rs)."""
import re
from vlib.unit import Unit, Fn, Decl, Raw, Lemma, Rw, RwFn, r3_index_loops, r7_write_macros
from specs import contracts as K

SPEC = r"""
// "a comma after every third integer digit" (counted from the right) -- written from the statement
spec fn group3(d: Seq<char>) -> Seq<char> decreases d.len() {
    if d.len() <= 3 { d } else { group3(d.subrange(0, d.len() - 3)) + seq![','] + d.subrange(d.len() - 3, d.len() as int) }
}
// what the left-to-right loop has written after k characters of a text of length n
spec fn emit(d: Seq<char>, n: int, k: int) -> Seq<char> decreases k {
    if k <= 0 { Seq::<char>::empty() }
    else {
        let i = k - 1;
        let p = n - i - 1;
        emit(d, n, k - 1) + (if p > 0 && p % 3 == 0 { seq![d[i], ','] } else { seq![d[i]] })
    }
}
"""

LEMMAS = [
    Lemma("emit_prefix", "(d: Seq<char>, e: Seq<char>, n: int, k: int)",
          requires=[("k", "0 <= k <= e.len() <= d.len() - 3"), ("same", "forall|i: int| 0 <= i < e.len() ==> d[i] == e[i]"), ("n", "n == d.len()")],
          ensures=[("shift", "k < e.len() ==> emit(d, n, k) == emit(e, n - 3, k)"),
                   ("last", "k == e.len() && e.len() == d.len() - 3 && k > 0 ==> emit(d, n, k) == emit(e, n - 3, k).push(',')")],
          decreases="k",
          body=r"""{
    if k > 0 {
        emit_prefix(d, e, n, k - 1);
        let i = k - 1;
        assert((n - i - 1) % 3 == ((n - 3) - i - 1) % 3);
        if k == e.len() && e.len() == d.len() - 3 {
            // the last character of the prefix: position 0 in e (no comma), position 3 in d (comma)
            assert(emit(e, n - 3, k) == emit(e, n - 3, k - 1) + seq![e[i]]);
            assert(emit(d, n, k) == emit(d, n, k - 1) + seq![d[i], ',']);
            assert(emit(e, n - 3, k - 1) + seq![d[i], ','] =~= (emit(e, n - 3, k - 1) + seq![e[i]]).push(','));
        }
    }
}"""),
    Lemma("emit_is_group3", "(d: Seq<char>)",
          ensures=[("C15-grouping", "emit(d, d.len() as int, d.len() as int) == group3(d)")],
          decreases="d.len()",
          body=r"""{
    let n = d.len() as int;
    reveal_with_fuel(emit, 4);
    if n <= 3 {
        // no position > 0 is a multiple of 3 below 3
        if n == 0 { }
        else if n == 1 { assert(emit(d, n, 1) =~= d); }
        else if n == 2 { assert(emit(d, n, 1) =~= seq![d[0]]); assert(emit(d, n, 2) =~= d); }
        else { assert(emit(d, n, 1) =~= seq![d[0]]); assert(emit(d, n, 2) =~= seq![d[0], d[1]]); assert(emit(d, n, 3) =~= d); }
    } else {
        let e = d.subrange(0, n - 3);
        emit_is_group3(e);
        emit_prefix(d, e, n, n - 3);
        let a = emit(d, n, n - 3);
        assert(a == group3(e).push(','));
        assert(emit(d, n, n - 2) == a + seq![d[n - 3]]);
        assert(emit(d, n, n - 1) == emit(d, n, n - 2) + seq![d[n - 2]]);
        assert(emit(d, n, n) == emit(d, n, n - 1) + seq![d[n - 1]]);
        assert(d.subrange(n - 3, n) =~= seq![d[n - 3], d[n - 2], d[n - 1]]);
        assert(emit(d, n, n) =~= group3(e) + seq![','] + d.subrange(n - 3, n));
    }
}"""),
]

FLOAT_SPEC = r"""
// the text HumanFloatCount must print for a fixed-precision rendering with sign `neg`, integer
// digits `ip` and fraction digits `fp` (from the statement: standard decimal, trailing zeros
// trimmed, a comma after every third integer digit)
spec fn human_float(neg: bool, ip: Seq<char>, fp: Seq<char>) -> Seq<char> {
    (if neg { seq!['-'] } else { Seq::<char>::empty() }) + group3_digits(ip)
        + (if trim0(fp).len() > 0 { seq!['.'] + trim0(fp) } else { Seq::<char>::empty() })
}
spec fn prec_of(p: Option<usize>) -> nat { if p.is_some() { p.unwrap() as nat } else { 4 } }   // default precision 4
// NaN / inf carry no digits to group
spec fn group3_digits(ip: Seq<char>) -> Seq<char> { if all_digits(ip) { group3(ip) } else { ip } }
"""

FLOAT_LEMMAS = [
    Lemma("lemma_int_part", "(t: Seq<char>, p: nat, neg: bool, ip: Seq<char>, fp: Seq<char>, a: Seq<char>, b: Seq<char>)",
          requires=[("shape", "fixed_shape(t, p, neg, ip, fp)"),
                    ("split", "(t == a + seq!['.'] + b && no_dot(a)) || (no_dot(t) && a == t && b.len() == 0)")],
          ensures=[("int", "a == (if neg { seq!['-'] } else { Seq::<char>::empty() }) + ip"), ("frac", "b == fp")],
          body=r"""{
    let sg = if neg { seq!['-'] } else { Seq::<char>::empty() };
    let pre = sg + ip;
    assert(forall|k: int| 0 <= k < ip.len() ==> ip[k] != '.');
    assert(no_dot(pre));
    if fp.len() > 0 {
        assert(t[pre.len() as int] == '.');
        if no_dot(t) && a == t { assert(false); }
        // both a and pre end right before the first '.'
        if a.len() < pre.len() { assert(t[a.len() as int] == '.'); assert(t[a.len() as int] == pre[a.len() as int]); }
        if pre.len() < a.len() { assert(t[pre.len() as int] == a[pre.len() as int]); }
        assert(a.len() == pre.len());
        assert forall|k: int| 0 <= k < a.len() implies a[k] == pre[k] by { assert(t[k] == a[k]); assert(t[k] == pre[k]); }
        assert(a =~= pre);
        assert(t.len() == a.len() + 1 + b.len());
        assert(t.len() == pre.len() + 1 + fp.len());
        assert(b.len() == fp.len());
        assert forall|k: int| 0 <= k < b.len() implies b[k] == fp[k] by { assert(t[a.len() + 1 + k] == b[k]); assert(t[pre.len() + 1 + k] == fp[k]); }
        assert(b =~= fp);
    } else {
        assert(t =~= pre);
        if t == a + seq!['.'] + b && no_dot(a) { assert(t[a.len() as int] == '.'); assert(false); }
        assert(b =~= fp);
    }
}"""),
    Lemma("lemma_ascii_ip", "(ip: Seq<char>)",
          requires=[("ip", "all_digits(ip) || ip == str_nan() || ip == str_inf()")],
          ensures=[("ascii", "all_ascii(ip)"), ("grouping", "group3_digits(ip) == group3(ip)")],
          body="{ if !all_digits(ip) { assert(ip.len() == 3); } }"),
    Lemma("lemma_shape_unique", "(t: Seq<char>, p: nat, n1: bool, i1: Seq<char>, f1: Seq<char>, n2: bool, i2: Seq<char>, f2: Seq<char>)",
          requires=[("a", "fixed_shape(t, p, n1, i1, f1)"), ("b", "fixed_shape(t, p, n2, i2, f2)")],
          ensures=[("unique", "n1 == n2 && i1 == i2 && f1 == f2")],
          body=r"""{
    // the sign is decided by the first character; the integer part ends at the first '.' (or at the end)
    let s1 = if n1 { seq!['-'] } else { Seq::<char>::empty() };
    let s2 = if n2 { seq!['-'] } else { Seq::<char>::empty() };
    assert(i1[0] != '-' && i2[0] != '-');
    assert(t[0] == (if n1 { '-' } else { i1[0] }));
    assert(t[0] == (if n2 { '-' } else { i2[0] }));
    assert(n1 == n2);
    let off = s1.len() as int;
    assert forall|k: int| 0 <= k < i1.len() implies t[off + k] == i1[k] by {}
    assert forall|k: int| 0 <= k < i2.len() implies t[off + k] == i2[k] by {}
    assert(forall|k: int| 0 <= k < i1.len() ==> i1[k] != '.');
    assert(forall|k: int| 0 <= k < i2.len() ==> i2[k] != '.');
    if i1.len() < i2.len() {
        if f1.len() > 0 { assert(t[off + i1.len()] == '.'); assert(t[off + i1.len()] == i2[i1.len() as int]); }
        else { assert(t.len() == off + i1.len()); assert(t.len() >= off + i2.len()); }
    }
    if i2.len() < i1.len() {
        if f2.len() > 0 { assert(t[off + i2.len()] == '.'); assert(t[off + i2.len()] == i1[i2.len() as int]); }
        else { assert(t.len() == off + i2.len()); assert(t.len() >= off + i1.len()); }
    }
    assert(i1.len() == i2.len());
    assert(i1 =~= i2);
    assert(f1.len() == f2.len());
    assert forall|k: int| 0 <= k < f1.len() implies f1[k] == f2[k] by {
        assert(t[off + i1.len() + 1 + k] == f1[k]);
        assert(t[off + i2.len() + 1 + k] == f2[k]);
    }
    assert(f1 =~= f2);
}"""),
]

FLOAT_RW = [
    Rw("R1", r"use fmt::Write;", ""),
    Rw("R7", r"format!\(\"\{:\.\*\}\", precision, self\.0\)", "f64_fixed(self.0, precision)"),
    Rw("R5", r"num\.split_once\('\.'\)", "split_once_dot(&num)"),
    Rw("R5", r"int_str\.to_string\(\)", "str_to_string(int_str)"),
    Rw("R5", r"num\.clone\(\)", "string_clone(&num)"),
    Rw("R5", r"int_part\.strip_prefix\('-'\)", "strip_minus(&int_part)"),
    Rw("R5", r"digits\.len\(\)", "ascii_len(&digits)"),
    Rw("R5", r"frac_part\.trim_end_matches\('0'\)", "trim_end_zeros(frac_part)"),
    Rw("R5", r"!frac_trimmed\.is_empty\(\)", "!str_is_empty(frac_trimmed)"),
    RwFn("R3", r3_index_loops, count=1),
]

FMT_SIG = [Rw("R7", r"fmt::Formatter<'_>", "Formatter"), Rw("R17", r"fmt::Result", "Result<(), FmtError>")]

UNIT = Unit(
    name="c15_formatters",
    properties=["C15"],
    prelude=["time", "fmt", "fmtx", "floatfmt"],
    trusted=[
        "core::fmt: `{}` of an unsigned integer prints dec(x), `{:02}` prints pad2(x); u64::to_string == dec (prelude/fmtx.rs)",
        "R7: write!(f, \"..\") translated piecewise into sink calls (literal text and flags stay visible)",
        "R13: Display::fmt verified as an inherent method",
    ],
    items=[
        Decl("src/format.rs", "struct", "HumanCount"),
        Decl("src/format.rs", "struct", "FormattedDuration"),
        Decl("src/format.rs", "struct", "HumanFloatCount"),
        Raw(SPEC), Raw(FLOAT_SPEC),
    ] + LEMMAS + FLOAT_LEMMAS + [
        Fn("src/format.rs", "fmt::Display for HumanFloatCount", "fmt", ret="r", sig_rewrites=FMT_SIG, rewrites=FLOAT_RW,
           ensures=[("C15-human-float",
                     "r.is_ok() ==> forall|neg: bool, ip: Seq<char>, fp: Seq<char>| "
                     "#[trigger] fixed_shape(fixed(self.0, prec_of(old(f).precision)), prec_of(old(f).precision), neg, ip, fp) "
                     "==> final(f).text() == old(f).text() + human_float(neg, ip, fp)")],
           proofs=[(r"let digits = match", "before", """        proof {
            let pp = precision as nat;
            let w = axiom_fixed_shape(self.0, pp);
            assert forall|neg: bool, ip: Seq<char>, fp: Seq<char>| #[trigger] fixed_shape(fixed(self.0, pp), pp, neg, ip, fp) implies neg == w.0 && ip == w.1 && fp == w.2 by {
                lemma_shape_unique(fixed(self.0, pp), pp, neg, ip, fp, w.0, w.1, w.2);
            }
            // the text before the first '.' is sign + integer part, the text after it the fraction
            let sg = if w.0 { seq!['-'] } else { Seq::<char>::empty() };
            reveal_strlit("");
            lemma_int_part(num@, pp, w.0, w.1, w.2, int_part@, frac_part@);
            assert(int_part@ == sg + w.1 && frac_part@ == w.2);
        }"""),
                   (r"let len = ", "before", "        let ghost pre_loop = f.text();"),
                   (r"let len = ", "after", """        proof {
            let pp = precision as nat;
            let w = axiom_fixed_shape(self.0, pp);
            lemma_shape_unique(fixed(self.0, pp), pp, w.0, w.1, w.2, w.0, w.1, w.2);
            emit_is_group3(digits@);
            assert(digits@ =~= w.1);
            lemma_ascii_ip(w.1);
        }""")],
           loops={0: {"invariant": ["__n0 <= __cs0@.len()", "__cs0@ == digits@", "len == digits@.len()",
                                    "f.text() == pre_loop + emit(digits@, len as int, __n0 as int)",
                                    "f.precision == old(f).precision"],
                      "decreases": "__cs0@.len() - __n0"}}),
        Fn("src/format.rs", "fmt::Display for HumanCount", "fmt", ret="r", sig_rewrites=FMT_SIG,
           rewrites=[Rw("R1", r"use fmt::Write;", ""), Rw("R5", r"self\.0\.to_string\(\)", "u64_to_string(self.0)"),
                     Rw("R5", r"num\.len\(\)", "ascii_len(&num)"), RwFn("R3", r3_index_loops, count=1)],
           ensures=[("C15-human-count", "r.is_ok() ==> final(f).text() == old(f).text() + group3(dec(self.0 as nat))")],
           proofs=[(r"let len = ", "after", "        proof { lemma_dec_digits(self.0 as nat); emit_is_group3(num@); }")],
           loops={0: {"invariant": ["__n0 <= __cs0@.len()", "__cs0@ == num@", "len == num@.len()", "f.text() == old(f).text() + emit(num@, len as int, __n0 as int)"],
                      "decreases": "__cs0@.len() - __n0"}}),
        Decl("src/format.rs", "struct", "HumanBytes"),
        Decl("src/format.rs", "struct", "DecimalBytes"),
        Decl("src/format.rs", "struct", "BinaryBytes"),
        Fn("src/format.rs", "fmt::Display for HumanBytes", "fmt", ret="r", sig_rewrites=FMT_SIG,
           rewrites=[Rw("R6", r"NumberPrefix::binary\(self\.0 as f64\)", "np_binary(self.0)"), RwFn("R7", r7_write_macros, count=2)],
           ensures=[("C15-bytes-format", "r.is_ok() ==> final(f).text() == old(f).text() + bytes_text(np_binary_spec(self.0))")]),
        Fn("src/format.rs", "fmt::Display for BinaryBytes", "fmt", ret="r", sig_rewrites=FMT_SIG,
           rewrites=[Rw("R6", r"NumberPrefix::binary\(self\.0 as f64\)", "np_binary(self.0)"), RwFn("R7", r7_write_macros, count=2)],
           ensures=[("C15-bytes-format", "r.is_ok() ==> final(f).text() == old(f).text() + bytes_text(np_binary_spec(self.0))")]),
        Fn("src/format.rs", "fmt::Display for DecimalBytes", "fmt", ret="r", sig_rewrites=FMT_SIG,
           rewrites=[Rw("R6", r"NumberPrefix::decimal\(self\.0 as f64\)", "np_decimal(self.0)"), RwFn("R7", r7_write_macros, count=2)],
           ensures=[("C15-bytes-format", "r.is_ok() ==> final(f).text() == old(f).text() + bytes_text(np_decimal_spec(self.0))")]),
        Fn("src/format.rs", "fmt::Display for FormattedDuration", "fmt", ret="r", sig_rewrites=FMT_SIG,
           rewrites=[RwFn("R7", r7_write_macros, count=2)],
           proofs=[(r"if t > 0", "before", """        proof {
            let t0 = (self.0.ns() / 1_000_000_000) as int;
            assert((t0 / 60) / 60 == t0 / 3600) by (nonlinear_arith) requires t0 >= 0;
            assert(((t0 / 60) / 60) / 24 == t0 / 86400) by (nonlinear_arith) requires t0 >= 0;
        }""")],
           requires=[("duration-wf", "self.0.wf()")],
           ensures=[("C15-formatted-duration",
                     "r.is_ok() ==> ({ let t = self.0.ns() / 1_000_000_000; let s = t % 60; let m = (t / 60) % 60; let h = (t / 3600) % 24; let d = t / 86400; "
                     "final(f).text() == old(f).text() + (if d > 0 { dec(d) + seq!['d', ' '] } else { Seq::<char>::empty() }) + pad2(h) + seq![':'] + pad2(m) + seq![':'] + pad2(s) })")]),
    ],
)

# outside the verifier's reach (float division + rounding over a const table; number_prefix): pinned by hash,
# decided only by the bounded routines human_duration / human_bytes when they change (and in the thorough tier)
UNIT.pinned = [("src/format.rs", "fmt::Display for HumanDuration", "fmt"), ("src/format.rs", "const", "UNITS"),
               ("src/format.rs", "const", "SECOND"), ("src/format.rs", "const", "MINUTE"), ("src/format.rs", "const", "HOUR"),
               ("src/format.rs", "const", "DAY"), ("src/format.rs", "const", "WEEK"), ("src/format.rs", "const", "YEAR"),
               ("src/format.rs", "fmt::Display for HumanBytes", "fmt"), ("src/format.rs", "fmt::Display for DecimalBytes", "fmt"),
               ("src/format.rs", "fmt::Display for BinaryBytes", "fmt")]
