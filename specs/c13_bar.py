"""C13 -- progress-bar geometry, integer / sequence part.  BarDisplay::fmt and
RepeatedStringDisplay::fmt (src/style.rs): filled cells, then at most one partial cell, then
background cells, in that order; plus the arithmetic of the cell budget.  format_bar itself is
float code: Kani harnesses in kani/style.rs."""
import re
from vlib.unit import Unit, Fn, Decl, Raw, Lemma, Rw, RwFn
from specs import contracts as K

SHIMS = r"""
// s repeated n times
spec fn rep(s: Seq<char>, n: nat) -> Seq<char> decreases n { if n == 0 { Seq::<char>::empty() } else { rep(s, (n - 1) as nat) + s } }
// console::StyledObject<D> (ASSUMED): prints D's text wrapped in the style's escape codes
struct StyledObject<D> { val: D, style: u8 }
uninterp spec fn styled(style: u8, inner: Seq<char>) -> Seq<char>;
impl<'a> StyledObject<RepeatedStringDisplay<'a>> {
    #[verifier::external_body]
    fn fmt(&self, f: &mut Formatter) -> (r: Result<(), FmtError>)
        ensures r.is_ok() ==> final(f).text() == old(f).text() + styled(self.style, rep(self.val.str@, self.val.num as nat))
    { unimplemented!() }
}
"""

FMT_SIG = [Rw("R7", r"fmt::Formatter<'_>", "Formatter"), Rw("R17", r"fmt::Result", "Result<(), FmtError>")]

UNIT = Unit(
    name="c13_bar",
    properties=["C13"],
    prelude=["fmt"],
    trusted=[
        "console::StyledObject::fmt prints the inner Display wrapped in escape codes (uninterpreted `styled`)",
        "R15: Box<str> as String; R13: Display::fmt as inherent methods",
    ],
    items=[
        Decl("src/style.rs", "struct", "RepeatedStringDisplay"),
        Raw(SHIMS),
        Decl("src/style.rs", "struct", "BarDisplay", rewrites=[Rw("R15", r"&'a \[Box<str>\]", "&'a Vec<String>"), Rw("R10", r"console::StyledObject", "StyledObject")]),
        Fn("src/style.rs", "fmt::Display for RepeatedStringDisplay", "fmt", ret="r", sig_rewrites=FMT_SIG,
           rewrites=[Rw("R3", r"for _ in 0\.\.", "for _i in 0..", count=1)],
           ensures=[("C13-background-cells", "r.is_ok() ==> final(f).text() == old(f).text() + rep(self.str@, self.num as nat)")],
           loops={0: {"invariant": ["f.text() == old(f).text() + rep(self.str@, _i as nat)"]}}),
        Fn("src/style.rs", "fmt::Display for BarDisplay", "fmt", ret="r", sig_rewrites=FMT_SIG,
           rewrites=[Rw("R3", r"for _ in 0\.\.", "for _i in 0..", count=1)],
           requires=[("chars", "self.chars@.len() >= 1"), ("cur-in-range", "self.cur matches Some(c) ==> c < self.chars@.len()")],
           ensures=[("C13-cell-order",
                     "r.is_ok() ==> final(f).text() == old(f).text() + rep(self.chars@[0]@, self.filled as nat) "
                     "+ (match self.cur { Some(c) => self.chars@[c as int]@, None => Seq::<char>::empty() }) "
                     "+ styled(self.rest.style, rep(self.rest.val.str@, self.rest.val.num as nat))")],
           loops={0: {"invariant": ["self.chars@.len() >= 1", "f.text() == old(f).text() + rep(self.chars@[0]@, _i as nat)"]}}),
        # the cell budget of format_bar: `width.saturating_sub(entirely_filled).saturating_sub(head)`
        Lemma("cell_budget", "(cells: int, filled: int, head: int)",
              requires=[("filled", "0 <= filled <= cells"), ("head", "0 <= head <= 1"), ("room", "head == 1 ==> filled < cells")],
              ensures=[("C13-cells-sum", "filled + head + ((if cells >= filled { cells - filled } else { 0 }) - head) == cells"),
                       ("no-saturation", "cells >= filled && cells - filled >= head")],
              body="{}"),
        # wide_bar: the bar gets `left` columns and uses floor(left / c) cells of c columns
        Lemma("wide_bar_fits", "(width: int, rest: int, c: int)",
              requires=[("c", "c >= 1"), ("fits", "0 <= rest <= width")],
              ensures=[("C13-never-wider", "rest + ((width - rest) / c) * c <= width"),
                       ("C13-exact", "(width - rest) % c == 0 ==> rest + ((width - rest) / c) * c == width")],
              body="{ let l = width - rest; assert((l / c) * c <= l && (l % c == 0 ==> (l / c) * c == l)) by (nonlinear_arith) requires c >= 1, l >= 0; }"),
    ],
)
