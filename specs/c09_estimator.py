"""Estimator::{new, record, reset, steps_per_second}, estimator_weight, duration_to_secs and
ProgressState::{eta, duration, per_sec} (src/state.rs) over the reals (R6): finite and
non-negative, between zero and the largest observed rate, exact for steady progress whatever
the cadence, forgetful after reset / rewind, eta = remaining / rate, duration = elapsed + eta (C09)."""
from vlib.unit import Unit, Fn, Decl, Raw, Lemma, Rw, RwFn, r6_float_literals
from specs import contracts as K

# R6: `EXPR as f64` on an unsigned integer path / call expression
CAST = Rw("R6", r"((?:\w+(?:\([^()]*\))?\.)*\w+(?:\([^()]*\))?) as f64", r"F64::from_u64(\1)", count="any")
F64_RW = [Rw("R6", r"\bf64\b", "F64", count="any")]

SPEC = r"""
// ---- W(a) = 0.1^(a/15): the weight of a sample of age a seconds.  ASSUMED of f64::powf (these are the
// properties the source comment of estimator_weight relies on): W(0) = 1, W(a+b) = W(a) W(b), 0 < W(a) < 1 for a > 0
spec fn W(a: real) -> real { powr(1real / 10real, a / 15real) }
#[verifier::external_body]
proof fn axiom_W(a: real, b: real)
    ensures W(0real) == 1real, W(a + b) == W(a) * W(b), a > 0real ==> 0real < W(a) < 1real, a >= 0real ==> 0real < W(a) <= 1real
{}
spec fn rmax(a: real, b: real) -> real { if a >= b { a } else { b } }
spec fn secs(d: Duration) -> real { d.ns() as real / 1_000_000_000real }
spec fn gap(a: Instant, b: Instant) -> real { (b.ns() - a.ns()) as real / 1_000_000_000real }     // seconds from a to b

impl Estimator {
    spec fn s(&self) -> real { self.smoothed_steps_per_sec.r() }
    spec fn d(&self) -> real { self.double_smoothed_steps_per_sec.r() }
    // invariant with M = the largest sample rate recorded since the last reset
    spec fn inv(&self, m: real) -> bool {
        let t = gap(self.start_time, self.prev_time);
        &&& self.start_time.ns() <= self.prev_time.ns()
        &&& self.smoothed_steps_per_sec.fin() && self.double_smoothed_steps_per_sec.fin()
        &&& m >= 0real
        &&& 0real <= self.s() <= m * (1real - W(t))
        &&& 0real <= self.d() <= m * (1real - W(t))
    }
    // steady progress at rate r since the last reset
    spec fn steady(&self, r: real) -> bool {
        let t = gap(self.start_time, self.prev_time);
        self.s() == r * (1real - W(t)) && self.d() == r * (1real - W(t))
    }
    spec fn fresh(&self, now: Instant) -> bool {
        self.s() == 0real && self.d() == 0real && self.prev_time == now && self.start_time == now
        && self.smoothed_steps_per_sec.fin() && self.double_smoothed_steps_per_sec.fin()
    }
    // the value steps_per_second reports at `now` (written from the source comment: both averages are
    // aged by the stall since the last sample and normalised by the total weight since the first one)
    spec fn rate_at(&self, now: Instant) -> real {
        let rho = W(gap(self.prev_time, now));
        let tau = 1real - W(gap(self.start_time, now));
        let sps = self.s() * rho / tau;
        (self.d() * rho + sps * (1real - rho)) / tau
    }
}
"""

LEMMAS = r"""
proof fn lemma_mul_le(a: real, b: real, c: real)
    requires a <= b, c >= 0real
    ensures a * c <= b * c
{ assert(a * c <= b * c) by (nonlinear_arith) requires a <= b, c >= 0real; }
proof fn lemma_div_le(a: real, b: real, c: real)
    requires a <= b * c, c > 0real
    ensures a / c <= b
{ assert(a / c <= b) by (nonlinear_arith) requires a <= b * c, c > 0real; }
proof fn lemma_div_nonneg(a: real, c: real)
    requires a >= 0real, c > 0real
    ensures a / c >= 0real
{ assert(a / c >= 0real) by (nonlinear_arith) requires a >= 0real, c > 0real; }
"""


CLOCK = r"""
// Frozen clock (ASSUMED): within one getter call every reading of the clock is the same instant
// `now_model()`, not earlier than any instant stored in the state (monotone clock).
pub uninterp spec fn now_model() -> Instant;
impl Instant {
    #[verifier::external_body]
    pub fn now() -> (r: Instant) ensures r == now_model() { unimplemented!() }
    #[verifier::external_body]
    pub fn elapsed(&self) -> (r: Duration)
        ensures r.ns() == (if now_model().ns() >= self.ns() { now_model().ns() - self.ns() } else { 0 }) as nat
    { unimplemented!() }
}
impl Duration {
    #[verifier::external_body]
    pub fn new(secs: u64, nanos: u32) -> (r: Duration)
        requires nanos < 1_000_000_000    // std panics on carry overflow only
        ensures r.ns() == secs as nat * 1_000_000_000 + nanos as nat, r.wf()
    { unimplemented!() }
    #[verifier::external_body]
    pub fn saturating_add(self, o: Duration) -> (r: Duration)
        ensures r.ns() == (if self.ns() + o.ns() <= DURATION_MAX_NS() { self.ns() + o.ns() } else { DURATION_MAX_NS() }), r.wf()
    { unimplemented!() }
}
// float -> Duration: whole seconds (saturating at u64::MAX) plus the nanoseconds of the fractional part
spec fn dur_of(s: real) -> Duration {
    let whole: nat = if s >= 18446744073709551615real { 18446744073709551615nat } else { rfloor(s) as nat };
    Duration { ns: Ghost(whole * 1_000_000_000 + rfloor((s - rfloor(s) as real) * 1_000_000_000real) as nat) }
}
impl Duration {
    // std: panics when the value is negative, not finite or does not fit (ASSUMED from the std documentation)
    #[verifier::external_body]
    pub fn from_secs_f64(s: F64) -> (r: Duration)
        requires s.fin(), 0real <= s.r() < 18446744073709551616real
        ensures r.wf()
    { unimplemented!() }
}
#[verifier::external_body]
fn as_secs_f64(d: Duration) -> (r: F64) ensures r.r() == secs(d), r.fin() { unimplemented!() }

impl ProgressState {
    spec fn finished(&self) -> bool { !(self.status is InProgress) }
    // what eta() must return at the frozen instant
    spec fn eta_spec(&self) -> Duration {
        if self.finished() || self.len is None || self.est.rate_at(now_model()) == 0real { Duration { ns: Ghost(0) } }
        else {
            let len = self.len.unwrap(); let pos = self.pos.pos@;
            dur_of((if len >= pos { len - pos } else { 0 }) as real / self.est.rate_at(now_model()))
        }
    }
    spec fn clock_ok(&self) -> bool {
        &&& time_ok(now_model())
        &&& self.est.prev_time.ns() <= now_model().ns()
        &&& self.started.ns() <= now_model().ns()
        &&& exists|m: real| self.est.inv(m)
    }
}
"""

UNIT = Unit(
    name="c09_estimator",
    properties=["C09"],
    prelude=["time", "atomics", "realf", "tes_opaque"],
    rlimit=60,
    trusted=[
        "prelude/realf.rs (R6): f64 as a mathematical real plus a finiteness flag cleared only by a division by zero; no rounding, overflow to infinity or NaN",
        "axiom_W: W(a) = 0.1^(a/15) satisfies W(0) = 1, W(a+b) = W(a) W(b), 0 < W(a) < 1 for a > 0 (assumed of f64::powf)",
        "frozen clock: every Instant::now() / elapsed() inside one getter call reads the same instant, not earlier than any stored instant",
        "Duration::from_secs_f64 panics outside [0, 2^64) (std documentation); saturating float-to-int casts",
    ],
    items=[
        Decl("src/state.rs", "struct", "Estimator", rewrites=F64_RW),
        Decl("src/state.rs", "struct", "AtomicPosition"),
        Decl("src/state.rs", "enum", "Status"),
        Decl("src/state.rs", "struct", "ProgressState", rewrites=[Rw("R2", r"Arc<AtomicPosition>", "AtomicPosition")]),
        Raw(K.TIME_OK), Raw(SPEC), Raw(LEMMAS), Raw(CLOCK),
        Fn("src/state.rs", None, "estimator_weight", ret="r", sig_rewrites=F64_RW,
           rewrites=[Rw("R6", r"const EXPONENTIAL_WEIGHTING_SECONDS: f64 = 15\.0;", "let EXPONENTIAL_WEIGHTING_SECONDS: F64 = F64::ratio(15, 1);"),
                     Rw("R6", r"0\.1_f64", "F64::ratio(1, 10)")],
           ensures=[("C09-weight", "r.r() == W(age.r()) && r.fin() == age.fin()")]),
        Fn("src/state.rs", None, "duration_to_secs", ret="r", sig_rewrites=F64_RW,
           rewrites=[Rw("R6", r"d\.as_secs\(\) as f64", "F64::from_u64(d.as_secs())"),
                     Rw("R6", r"f64::from\(d\.subsec_nanos\(\)\)", "F64::from_u32(d.subsec_nanos())"),
                     Rw("R6", r"1_000_000_000f64", "F64::ratio(1_000_000_000, 1)")],
           requires=[("wf", "d.wf()")],
           ensures=[("C09-seconds", "r.r() == secs(d) && r.fin()")],
           proofs=[(r"d\.as_secs\(\)", "before", """        proof {
            let n = d.ns() as int; let q = n / 1_000_000_000; let m = n % 1_000_000_000;
            assert(n == q * 1_000_000_000 + m);
            assert(q as real + m as real / 1_000_000_000real == n as real / 1_000_000_000real) by (nonlinear_arith)
                requires n == q * 1_000_000_000 + m;
        }""")]),
        Fn("src/state.rs", "Estimator", "new", ret="r", rewrites=[Rw("R6", r"\b0\.0\b", "F64::ratio(0, 1)", count=2)],
           ensures=[("C09-new-is-fresh", "r.fresh(now) && r.prev_steps == 0 && r.inv(0real)")],
           proofs=[(r"Self \{", "before", "        proof { axiom_W(0real, 0real); }")]),
        Fn("src/state.rs", "Estimator", "reset", rewrites=[Rw("R6", r"\b0\.0\b", "F64::ratio(0, 1)", count=2)],
           ensures=[("C09-reset-forgets", "final(self).fresh(now) && final(self).prev_steps == old(self).prev_steps && final(self).inv(0real)")],
           proofs=[("@end", "after", "        proof { axiom_W(0real, 0real); }")]),
        Fn("src/state.rs", "Estimator", "record",
           rewrites=[CAST,
                     Rw("R6", r"\b1\.0\b", "F64::ratio(1, 1)", count=3)],
           requires=[("inv", "exists|m: real| old(self).inv(m)"), ("clock", "time_ok(now)")],
           proofs=[(r"let delta_steps = new_steps - self\.prev_steps;", "before", """        let ghost T = gap(self.start_time, self.prev_time); let ghost dt = gap(self.prev_time, now); let ghost Tn = gap(self.start_time, now);
        let ghost s0 = self.s(); let ghost d0 = self.d(); let ghost rate = (new_steps - self.prev_steps) as real / dt;
        proof {
            axiom_W(T, dt); axiom_W(dt, 0real); axiom_W(Tn, 0real);
            assert(Tn == T + dt);
            assert(dt > 0real && T >= 0real && Tn > 0real);
            lemma_div_nonneg((new_steps - self.prev_steps) as real, dt);
        }"""),
                   (r"self\.prev_time = now;", "after", """        proof {
            let w = W(dt); let tw = 1real - W(Tn);
            let s1 = self.s(); let d1 = self.d();
            assert(s1 == s0 * w + rate * (1real - w));
            let norm = s1 / tw;
            assert(d1 == d0 * w + norm * (1real - w));
            assert(W(Tn) == W(T) * w);
            assert forall|m: real| #[trigger] old(self).inv(m) implies self.inv(rmax(m, rate)) by {
                let mm = rmax(m, rate);
                assert(s0 * w <= mm * (1real - W(T)) * w) by (nonlinear_arith) requires s0 <= m * (1real - W(T)), m <= mm, w >= 0real, W(T) <= 1real;
                assert(rate * (1real - w) <= mm * (1real - w)) by (nonlinear_arith) requires rate <= mm, w <= 1real;
                assert(mm * (1real - W(T)) * w + mm * (1real - w) == mm * tw) by (nonlinear_arith) requires tw == 1real - W(T) * w;
                assert(s1 <= mm * tw);
                assert(s1 >= 0real) by (nonlinear_arith) requires s1 == s0 * w + rate * (1real - w), s0 >= 0real, w >= 0real, rate >= 0real, w <= 1real;
                lemma_div_le(s1, mm, tw); lemma_div_nonneg(s1, tw);
                assert(d0 * w <= mm * (1real - W(T)) * w) by (nonlinear_arith) requires d0 <= m * (1real - W(T)), m <= mm, w >= 0real, W(T) <= 1real;
                assert(norm * (1real - w) <= mm * (1real - w)) by (nonlinear_arith) requires norm <= mm, w <= 1real;
                assert(d1 <= mm * tw);
                assert(d1 >= 0real) by (nonlinear_arith) requires d1 == d0 * w + norm * (1real - w), d0 >= 0real, w >= 0real, norm >= 0real, w <= 1real;
            }
            if old(self).steady(rate) {
                assert(s1 == rate * tw) by (nonlinear_arith) requires s1 == s0 * w + rate * (1real - w), s0 == rate * (1real - W(T)), tw == 1real - W(T) * w;
                assert(norm == rate) by (nonlinear_arith) requires norm == s1 / tw, s1 == rate * tw, tw > 0real;
                assert(d1 == rate * tw) by (nonlinear_arith) requires d1 == d0 * w + norm * (1real - w), norm == rate, d0 == rate * (1real - W(T)), tw == 1real - W(T) * w;
            }
        }""")],
           ensures=[("C09-rewind-forgets", "new_steps < old(self).prev_steps ==> final(self).fresh(now) && final(self).prev_steps == new_steps && final(self).inv(0real)"),
                    ("C09-no-advance-no-change", "new_steps >= old(self).prev_steps && (new_steps == old(self).prev_steps || now.ns() <= old(self).prev_time.ns()) ==> *final(self) == *old(self)"),
                    ("C09-sample-keeps-bounds",
                     "new_steps > old(self).prev_steps && now.ns() > old(self).prev_time.ns() ==> "
                     "final(self).prev_steps == new_steps && final(self).prev_time == now && final(self).start_time == old(self).start_time && "
                     "forall|m: real| #[trigger] old(self).inv(m) ==> final(self).inv(rmax(m, (new_steps - old(self).prev_steps) as real / gap(old(self).prev_time, now)))"),
                    ("C09-steady-rate-is-exact-whatever-the-cadence",
                     "new_steps > old(self).prev_steps && now.ns() > old(self).prev_time.ns() && old(self).steady((new_steps - old(self).prev_steps) as real / gap(old(self).prev_time, now)) ==> "
                     "final(self).steady((new_steps - old(self).prev_steps) as real / gap(old(self).prev_time, now))")]),
        Fn("src/state.rs", "Estimator", "steps_per_second", ret="r", sig_rewrites=F64_RW,
           rewrites=[Rw("R6", r"\b1\.0\b", "F64::ratio(1, 1)", count=2)],
           requires=[("inv", "exists|m: real| self.inv(m)"), ("clock-monotone", "now.ns() >= self.prev_time.ns()"), ("clock", "time_ok(now)")],
           proofs=[(r"dsps / total_weight", "before", """        proof {
            let T = gap(self.start_time, self.prev_time); let st = gap(self.prev_time, now); let Tn = gap(self.start_time, now);
            axiom_W(T, st); axiom_W(st, 0real); axiom_W(Tn, 0real);
            assert(Tn == T + st);
            let rho = W(st); let tau = 1real - W(Tn); let s0 = self.s(); let d0 = self.d();
            assert(W(Tn) == W(T) * rho);
            if now.ns() > self.start_time.ns() {
                assert(Tn > 0real); assert(tau > 0real);
                let sp = s0 * rho / tau;
                assert(sps.r() == sp);
                assert(dsps.r() == d0 * rho + sp * (1real - rho));
                assert forall|m: real| #[trigger] self.inv(m) implies 0real <= dsps.r() / tau <= m by {
                    assert(s0 * rho <= m * tau) by (nonlinear_arith) requires s0 <= m * (1real - W(T)), 0real <= rho <= 1real, tau == 1real - W(T) * rho, m >= 0real, W(T) <= 1real;
                    assert(s0 * rho >= 0real) by (nonlinear_arith) requires s0 >= 0real, rho >= 0real;
                    lemma_div_le(s0 * rho, m, tau); lemma_div_nonneg(s0 * rho, tau);
                    assert(d0 * rho + sp * (1real - rho) <= m * tau) by (nonlinear_arith)
                        requires d0 <= m * (1real - W(T)), sp <= m, 0real <= rho <= 1real, tau == 1real - W(T) * rho, m >= 0real, W(T) <= 1real;
                    assert(d0 * rho + sp * (1real - rho) >= 0real) by (nonlinear_arith) requires d0 >= 0real, sp >= 0real, 0real <= rho <= 1real;
                    lemma_div_le(dsps.r(), m, tau); lemma_div_nonneg(dsps.r(), tau);
                }
                if now == self.prev_time {
                    assert(st == 0real && rho == 1real && Tn == T);
                    assert forall|rr: real| #[trigger] self.steady(rr) implies dsps.r() / tau == rr by {
                        assert(sp == rr) by (nonlinear_arith) requires sp == s0 * rho / tau, rho == 1real, s0 == rr * tau, tau > 0real;
                        assert(dsps.r() == rr * tau) by (nonlinear_arith) requires dsps.r() == d0 * rho + sp * (1real - rho), rho == 1real, d0 == rr * tau;
                        assert(dsps.r() / tau == rr) by (nonlinear_arith) requires dsps.r() == rr * tau, tau > 0real;
                    }
                }
            }
        }""")],
           ensures=[("C09-rate-formula", "r.r() == self.rate_at(now)"),
                    ("C09-finite-after-creation", "now.ns() > self.start_time.ns() ==> r.fin()"),
                    ("C09-between-zero-and-largest-rate", "now.ns() > self.start_time.ns() ==> forall|m: real| #[trigger] self.inv(m) ==> 0real <= r.r() <= m"),
                    ("C09-steady-rate-reported-exactly", "now.ns() > self.start_time.ns() && now == self.prev_time ==> forall|rr: real| #[trigger] self.steady(rr) ==> r.r() == rr")],
           findings=[("C09-decays-monotonically-while-stalled",
                      "forall|t: Instant| self.prev_time.ns() <= t.ns() <= now.ns() && t.ns() > self.start_time.ns() ==> r.r() <= #[trigger] self.rate_at(t)")]),
        Fn("src/state.rs", None, "secs_to_duration", ret="r", sig_rewrites=F64_RW,
           rewrites=[Rw("R6", r"s\.trunc\(\) as u64", "s.trunc().trunc_u64()", count="any"),
                     Rw("R6", r"\(s\.fract\(\) \* 1_000_000_000f64\) as u32", "{ let __f = s.fract(); proof { assert(__f.r() * 1_000_000_000real < 1_000_000_000real) by (nonlinear_arith) requires __f.r() < 1real; } (__f * F64::ratio(1_000_000_000, 1)).trunc_u32() }", count="any")],
           ensures=[("C09-eta-conversion", "s.r() >= 0real ==> r == dur_of(s.r())")],
           proofs=[("@start", "after", """        proof {
            let fr = s.r() - rfloor(s.r()) as real;
            assert(0real <= fr < 1real);
            assert(0real <= fr * 1_000_000_000real < 1_000_000_000real) by (nonlinear_arith) requires 0real <= fr < 1real;
        }""")]),
        Fn("src/state.rs", "ProgressState", "is_finished", ensures=[("def", "r == self.finished()")]),
        Fn("src/state.rs", "ProgressState", "pos", rewrites=[K.AORD(1)], ensures=[("C07-pos", "r == self.pos.pos@")]),
        Fn("src/state.rs", "ProgressState", "eta", ret="r",
           rewrites=[K.AORD(1), Rw("R6", r"sps == 0\.0", "sps == F64::ratio(0, 1)"),
                     CAST],
           requires=[("clock", "self.clock_ok()")],
           proofs=[(r"secs_to_duration\(", "before", """        proof {
            if now_model().ns() > self.est.start_time.ns() {
                let m = choose|m: real| self.est.inv(m);
                assert(sps.r() >= 0real);
                lemma_div_nonneg((if len >= pos { len - pos } else { 0 }) as real, sps.r());
            }
        }""")],
           ensures=[("C09-eta-is-remaining-over-rate", "now_model().ns() > self.est.start_time.ns() ==> r == self.eta_spec()"),
                    ("C09-eta-zero-when-nothing-to-estimate", "self.finished() || self.len is None || self.est.rate_at(now_model()) == 0real ==> r.ns() == 0")]),
        Fn("src/state.rs", "ProgressState", "duration", ret="r",
           requires=[("clock", "self.clock_ok()")],
           ensures=[("C09-duration-is-elapsed-plus-eta",
                     "now_model().ns() > self.est.start_time.ns() ==> r.ns() == (if self.len is None || self.finished() { 0 } else { let e = (now_model().ns() - self.started.ns()) as nat + self.eta_spec().ns(); if e <= DURATION_MAX_NS() { e } else { DURATION_MAX_NS() } })")]),
        Fn("src/state.rs", "ProgressState", "per_sec", ret="r", sig_rewrites=F64_RW,
           rewrites=[Rw("R6", r"self\.pos\(\) as f64 / self\.started\.elapsed\(\)\.as_secs_f64\(\)", "F64::from_u64(self.pos()) / as_secs_f64(self.started.elapsed())")],
           requires=[("clock", "self.clock_ok()")],
           proofs=[(r"F64::from_u64\(self\.pos\(\)\)", "before", "            proof { if now_model().ns() > self.started.ns() { lemma_div_nonneg(self.pos.pos@ as real, gap(self.started, now_model())); } }")],
           ensures=[("C09-per-sec-in-progress-is-the-estimate", "self.status is InProgress ==> r.r() == self.est.rate_at(now_model())"),
                    ("C09-per-sec-finite-nonnegative", "self.status is InProgress && now_model().ns() > self.est.start_time.ns() ==> r.fin() && r.r() >= 0real"),
                    ("C09-per-sec-finished-is-average", "!(self.status is InProgress) ==> r.r() == self.pos.pos@ as real / gap(self.started, now_model())"),
                    ("C09-per-sec-finished-finite", "!(self.status is InProgress) && now_model().ns() > self.started.ns() ==> r.fin() && r.r() >= 0real")]),
        Raw("""
// the completed fraction as a function of position and length (from the statement of C07 / C13)
spec fn frac_of(pos: u64, len: Option<u64>) -> real {
    match len { None => 0real, Some(l) => if l == 0 { 1real } else if pos == 0 { 0real } else if pos >= l { 1real } else { pos as real / l as real } }
}
"""),
        Lemma("fraction_monotone", "(p1: u64, p2: u64, len: Option<u64>)",
              requires=[("order", "p1 <= p2")],
              ensures=[("C07-C13-fraction-monotone-in-the-position", "frac_of(p1, len) <= frac_of(p2, len)"), ("range", "0real <= frac_of(p1, len) <= 1real")],
              props=["C07", "C13"],
              body="""{
    if len is Some { let l = len.unwrap(); if l > 0 {
        let q = l as real; let a = p1 as real; let b = p2 as real;
        assert(a / q <= b / q) by (nonlinear_arith) requires a <= b, q > 0real;
        assert(a / q >= 0real) by (nonlinear_arith) requires a >= 0real, q > 0real;
        assert((a / q < 1real) == (a < q)) by (nonlinear_arith) requires q > 0real;
        assert((b / q < 1real) == (b < q)) by (nonlinear_arith) requires q > 0real;
    } }
}"""),
        # the completed fraction over the reals (its f32 side: full-domain Kani harness of the thorough tier)
        Fn("src/state.rs", "ProgressState", "fraction", ret="r", sig_rewrites=[Rw("R6", r"\bf32\b", "F64")], props=["C07", "C13", "C11"],
           rewrites=[K.AORD(1), Rw("R6", r"(\w+) as f32", r"F64::from_u64(\1)", count="any"), RwFn("R6", r6_float_literals, count=None)],
           ensures=[("C07-C13-fraction-is-frac-of", "r.r() == frac_of(self.pos.pos@, self.len)"),
                    ("C07-C13-fraction-in-unit-interval", "0real <= r.r() <= 1real"),
                    ("C07-C13-fraction-unknown-length-zero", "self.len is None ==> r.r() == 0real"),
                    ("C07-C13-fraction-zero-length-one", "self.len == Some(0u64) ==> r.r() == 1real"),
                    ("C07-C13-fraction-position-zero", "self.pos.pos@ == 0 && self.len != Some(0u64) ==> r.r() == 0real"),
                    ("C07-C13-fraction-full-iff-complete", "self.len matches Some(l) ==> (l > 0 ==> (r.r() == 1real <==> self.pos.pos@ >= l))"),
                    ("C07-C13-fraction-is-the-quotient", "self.len matches Some(l) ==> (l > 0 && self.pos.pos@ <= l ==> r.r() == self.pos.pos@ as real / l as real)")],
           proofs=[("@start", "after", """        proof {
            if self.len is Some { let l = self.len.unwrap(); if l > 0 {
                let p = self.pos.pos@ as real; let q = l as real;
                assert(p / q >= 0real) by (nonlinear_arith) requires p >= 0real, q > 0real;
                assert((p / q >= 1real) == (p >= q)) by (nonlinear_arith) requires q > 0real;
                assert((p / q == 1real) == (p == q)) by (nonlinear_arith) requires q > 0real;
                assert(0real / q == 0real) by (nonlinear_arith) requires q > 0real;
            } }
        }""")]),
    ],
)
