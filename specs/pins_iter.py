"""Constructors of the adaptors (wrap_iter / wrap_read / wrap_write, ProgressIterator::progress_with, the with_* builders
of ProgressBarIter) pinned by hash."""
from vlib.unit import Unit, Lemma

UNIT = Unit(
    name="pins_iter",
    properties=["C17"],
    prelude=[],
    trusted=["no function is verified in this unit: it only pins source text (specs/stub_baseline.json)"],
    items=[Lemma("pins_present", "()", ensures=[("pinned-api-glue-unchanged", "true")], body="{}", no_canary=True)],
)
UNIT.pinned = [("src/progress_bar.rs", "ProgressBar", n) for n in ["wrap_iter", "wrap_read", "wrap_write"]] + [
    ("src/iter.rs", "ProgressBarIter", n) for n in ["with_style", "with_prefix", "with_message", "with_position", "with_elapsed", "with_finish"]] + [
    ("src/iter.rs", "ProgressIterator for T", "progress_with"), ("src/iter.rs", "ExactSizeIterator for ProgressBarIter", "len"),
]
