"""The single-bar draw path: ProgressDrawTarget::{drawable, width, is_hidden, ..}, Drawable::{state,
clear, draw, width, adjust_last_line_count}, DrawStateWrapper, BarState::{draw, println, suspend,
finish_using_style, ...} (src/draw_target.rs, src/state.rs) -- C01 (history level), C04, C05
(forced draws bypass the limiter, nothing else does), C06, C18."""
import re
from vlib.unit import Unit, Fn, Decl, Raw, Lemma, Rw, RwFn, ImplBlock, r3_index_loops, r3_drain_loops
from specs import contracts as K
from specs import draw_to_term as D

SHIMS = r"""
// R2: Arc<RwLock<MultiState>> is an opaque handle here (the MultiState side is verified in its own unit)
#[verifier::external_body]
struct MultiHandle { _p: core::marker::PhantomData<()> }
impl MultiHandle {
    uninterp spec fn hidden(&self) -> bool;
    uninterp spec fn ops(&self) -> nat;          // terminal operations performed through this MultiProgress
    // MultiState methods reached from a member bar (ASSUMED here; the MultiState unit verifies them)
    #[verifier::external_body]
    fn draw_state(&mut self, idx: usize) -> (r: DrawStateWrapper<'_>)
        ensures final(self).hidden() == old(self).hidden(), final(self).ops() == old(self).ops()
    { unimplemented!() }
    #[verifier::external_body]
    fn draw(&mut self, force_draw: bool, extra_lines: Option<Vec<LineType>>, now: Instant) -> (r: Result<(), IoError>)
        ensures final(self).hidden() == old(self).hidden(), old(self).hidden() ==> final(self).ops() == old(self).ops()
    { unimplemented!() }
    #[verifier::external_body]
    fn width(&self) -> (r: Option<u16>) ensures self.hidden() ==> true { unimplemented!() }
    #[verifier::external_body]
    fn is_hidden(&self) -> (r: bool) ensures r == self.hidden() { unimplemented!() }
    #[verifier::external_body]
    fn mark_zombie(&mut self, index: usize)
        ensures final(self).hidden() == old(self).hidden(), final(self).ops() == old(self).ops()
    { unimplemented!() }
    #[verifier::external_body]
    fn suspend<F: FnOnce() -> R, R>(&mut self, f: F, now: Instant) -> (r: R)
        requires f.requires(())
        ensures f.ensures((), r), final(self).hidden() == old(self).hidden(), old(self).hidden() ==> final(self).ops() == old(self).ops()
    { unimplemented!() }
}
"""

WRAP_SPEC = r"""
// R5: `v.drain(..)` materialised: all elements in order, the vector is left empty
#[verifier::external_body]
fn drain_all(v: &mut Vec<LineType>) -> (r: Vec<LineType>)
    ensures r@ == old(v)@, final(v)@.len() == 0
{ v.drain(..).collect() }
spec fn is_text(l: LineType) -> bool { l is Text || l is Empty }
// the Bar lines / the Text|Empty lines of a list, in order
spec fn bars_of(ls: Seq<LineType>) -> Seq<LineType> decreases ls.len() {
    if ls.len() == 0 { Seq::<LineType>::empty() } else if is_text(ls.last()) { bars_of(ls.drop_last()) } else { bars_of(ls.drop_last()).push(ls.last()) }
}
spec fn texts_of(ls: Seq<LineType>) -> Seq<LineType> decreases ls.len() {
    if ls.len() == 0 { Seq::<LineType>::empty() } else if is_text(ls.last()) { texts_of(ls.drop_last()).push(ls.last()) } else { texts_of(ls.drop_last()) }
}
"""

TARGET_SPEC = r"""
spec fn time_ok(t: Instant) -> bool { t.ns() < 0x8000_0000_0000_0000 }
spec fn rl_ok(r: RateLimiter) -> bool { r.wf() && time_ok(r.prev) }
impl ProgressDrawTarget {
    // type invariant of a draw target: its limiter (if any) is well formed
    spec fn wf(&self) -> bool {
        match self.kind {
            TargetKind::Term { term, last_line_count, rate_limiter, draw_state } => rl_ok(rate_limiter) && term@.wf(),
            TargetKind::TermLike { inner, last_line_count, rate_limiter, draw_state } => inner@.wf() && (rate_limiter matches Some(r) ==> rl_ok(r)),
            _ => true,
        }
    }
    // C06: hidden explicitly, because the terminal is not a TTY, or because it belongs to a hidden MultiProgress
    spec fn hidden(&self) -> bool {
        match self.kind {
            TargetKind::Hidden => true,
            TargetKind::Term { term, last_line_count, rate_limiter, draw_state } => !term@.tty,
            TargetKind::Multi { state, idx } => state.hidden(),
            TargetKind::TermLike { inner, last_line_count, rate_limiter, draw_state } => false,
        }
    }
    // terminal operations performed so far through this target (C06: silence)
    spec fn ops(&self) -> nat {
        match self.kind {
            TargetKind::Hidden => 0,
            TargetKind::Term { term, last_line_count, rate_limiter, draw_state } => term@.ops,
            TargetKind::Multi { state, idx } => state.ops(),
            TargetKind::TermLike { inner, last_line_count, rate_limiter, draw_state } => inner@.ops,
        }
    }
}
// LineAdjust::Clear(c): the next draw also clears c more rows; Keep(c): it leaves c rows alone
spec fn adj_count(n: usize, adjust: LineAdjust) -> usize {
    match adjust {
        LineAdjust::Clear(c) => if n + c.0 > usize::MAX { usize::MAX } else { (n + c.0) as usize },
        LineAdjust::Keep(c) => if n >= c.0 { (n - c.0) as usize } else { 0usize },
    }
}
spec fn adjusted(a: TargetKind, b: TargetKind, adjust: LineAdjust) -> bool {
    match a {
        TargetKind::Term { term, last_line_count, rate_limiter, draw_state } =>
            b == (TargetKind::Term { term, last_line_count: VisualLines(adj_count(last_line_count.0, adjust)), rate_limiter, draw_state }),
        TargetKind::TermLike { inner, last_line_count, rate_limiter, draw_state } =>
            b == (TargetKind::TermLike { inner, last_line_count: VisualLines(adj_count(last_line_count.0, adjust)), rate_limiter, draw_state }),
        _ => b == a,
    }
}
// the limiter after a draw request: untouched by a forced request, one token-bucket step otherwise
spec fn limiter_after(rl0: RateLimiter, rl1: RateLimiter, force: bool, now: Instant, granted: bool) -> bool {
    if force { rl1 == rl0 && granted }
    else { step(rl0.ls(), now.ns() as int, rl1.ls(), granted, rl0.ival()) && rl1.interval == rl0.interval && rl_ok(rl1)
           && (granted ==> burst_ok(rl1.ls(), now.ns() as int, rl0.ival(), 20)) }
}
"""

TARGET_SPEC2 = r"""
spec fn all_bars(ls: Seq<LineType>) -> bool { forall|i: int| 0 <= i < ls.len() ==> (#[trigger] ls[i]) is Bar }
// size assumption on renderings and printed texts: few enough rows to count in 31 bits
spec fn small(ls: Seq<LineType>) -> bool { lines_ok(ls) && forall|w: nat| 1 <= w <= 65535 ==> #[trigger] hts(ls, w, ls.len() as int) <= 0x0FFF_FFFF }
// R5: `msg.lines().map(|l| LineType::Text(Into::into(l))).collect()`
uninterp spec fn text_lines_of(msg: Seq<char>) -> Seq<LineType>;
#[verifier::external_body]
fn text_lines(msg: &str) -> (r: Vec<LineType>)
    ensures r@ == text_lines_of(msg@), forall|i: int| 0 <= i < r@.len() ==> (#[trigger] r@[i]) is Text, small(r@)
{ unimplemented!() }

impl ProgressDrawTarget {
    // own terminal (Term on a tty / TermLike): the terminal, the accounted rows and the stored draw state
    spec fn own(&self) -> Option<(GTerm, VisualLines, DrawState)> {
        match self.kind {
            TargetKind::Term { term, last_line_count, rate_limiter, draw_state } => if term@.tty { Some((term@, last_line_count, draw_state)) } else { None },
            TargetKind::TermLike { inner, last_line_count, rate_limiter, draw_state } => Some((inner@, last_line_count, draw_state)),
            _ => None,
        }
    }
    spec fn limiter(&self) -> Option<RateLimiter> {
        match self.kind {
            TargetKind::Term { term, last_line_count, rate_limiter, draw_state } => Some(rate_limiter),
            TargetKind::TermLike { inner, last_line_count, rate_limiter, draw_state } => rate_limiter,
            _ => None,
        }
    }
    spec fn same_kind(&self, o: ProgressDrawTarget) -> bool {
        (self.kind is Term <==> o.kind is Term) && (self.kind is TermLike <==> o.kind is TermLike) && (self.kind is Multi <==> o.kind is Multi) && (self.kind is Hidden <==> o.kind is Hidden)
        && self.hidden() == o.hidden() && (self.limiter() is Some <==> o.limiter() is Some)
    }
    // single-bar targets keep Top alignment and a row count within the terminal height
    spec fn wf2(&self) -> bool {
        self.wf() && (self.own() matches Some(x) ==> x.1.0 <= 65535 && x.2.alignment is Top)
    }
}
// one draw request on an own-terminal target, by outcome (granted = the frame reaches the terminal)
spec fn req_case(a: ProgressDrawTarget, b: ProgressDrawTarget, f: bool, now: Instant, lines: Seq<LineType>, r: Result<(), IoError>,
                 granted: bool, x: (GTerm, VisualLines, DrawState), y: (GTerm, VisualLines, DrawState)) -> bool {
    &&& (match a.limiter() { Some(rl0) => (b.limiter() matches Some(rl1) && limiter_after(rl0, rl1, f, now, granted)), None => granted })   // C05: the limiter is consulted only when not forced
    &&& (granted ==> exists|e: DrawState| e.lines@ == lines && e.move_cursor == x.2.move_cursor
                          && #[trigger] dtt_post(e, y.2, x.0, y.0, x.1, y.1, r))              // C04: exactly this frame goes to draw_to_term
    &&& (!granted ==> y == x && r.is_ok())                                // C03/C05: a skipped draw changes nothing
}
// effect of one draw request with final force flag f and frame `lines` on a target (C04 / C05 / C06)
spec fn draw_effect(a: ProgressDrawTarget, b: ProgressDrawTarget, f: bool, now: Instant, lines: Seq<LineType>, r: Result<(), IoError>) -> bool {
    &&& b.same_kind(a)
    &&& (a.hidden() ==> b.ops() == a.ops())                                      // C06: a hidden target is silent
    &&& (a.own() matches Some(x) ==> (b.own() matches Some(y) && (req_case(a, b, f, now, lines, r, true, x, y) || req_case(a, b, f, now, lines, r, false, x, y))))
    &&& ((a.kind is Hidden || (a.kind is Term && a.hidden())) ==> b == a && r.is_ok())
}
proof fn lemma_hts_concat(a: Seq<LineType>, b: Seq<LineType>, w: nat, k: int)
    requires 0 <= k <= b.len()
    ensures hts(a + b, w, a.len() + k) == hts(a, w, a.len() as int) + hts(b, w, k)
    decreases k
{
    if k == 0 {
        lemma_hts_prefix(a, a + b, w, a.len() as int);
    } else {
        lemma_hts_concat(a, b, w, k - 1);
        assert((a + b)[a.len() + k - 1] == b[k - 1]);
    }
}
proof fn lemma_hts_prefix(a: Seq<LineType>, c: Seq<LineType>, w: nat, k: int)
    requires 0 <= k <= a.len() <= c.len(), forall|i: int| 0 <= i < a.len() ==> a[i] == c[i]
    ensures hts(c, w, k) == hts(a, w, k)
    decreases k
{
    if k > 0 { lemma_hts_prefix(a, c, w, k - 1); }
}
proof fn lemma_small_concat(a: Seq<LineType>, b: Seq<LineType>, w: nat)
    requires small(a), small(b), 1 <= w <= 65535
    ensures lines_ok(a + b), hts(a + b, w, (a + b).len() as int) <= 0x1FFF_FFFE
{
    lemma_hts_concat(a, b, w, b.len() as int);
    assert(hts(a, w, a.len() as int) <= 0x0FFF_FFFF);
    assert(hts(b, w, b.len() as int) <= 0x0FFF_FFFF);
    assert forall|i: int| 0 <= i < (a + b).len() implies cols(line_str(#[trigger] (a + b)[i])) <= 0xFFFF_FFFF && !is_cr(line_str((a + b)[i])) by {
        if i < a.len() { assert((a + b)[i] == a[i]); } else { assert((a + b)[i] == b[i - a.len()]); }
    }
}
proof fn lemma_small_empty_line()
    ensures small(seq![LineType::Empty]), small(Seq::<LineType>::empty())
{
    axiom_cols_empty();
    let e = seq![LineType::Empty];
    assert(line_str(e[0]) == Seq::<char>::empty());
    assert(seq!['\r'].len() == 1);
    assert forall|w: nat| 1 <= w <= 65535 implies #[trigger] hts(e, w, e.len() as int) <= 0x0FFF_FFFF by {
        reveal_with_fuel(hts, 3);
        lemma_height_covers(0, w);
        assert(ceil_div(0, w) <= 1);
    }
    assert forall|w: nat| 1 <= w <= 65535 implies #[trigger] hts(Seq::<LineType>::empty(), w, 0) <= 0x0FFF_FFFF by { }
}
spec fn drew(a: ProgressDrawTarget, b: ProgressDrawTarget, f: bool, now: Instant, lines: Seq<LineType>) -> bool {
    draw_effect(a, b, f, now, lines, Ok(())) || exists|e: IoError| #[trigger] draw_effect(a, b, f, now, lines, Err(e))
}
proof fn lemma_drew(a: ProgressDrawTarget, b: ProgressDrawTarget, f: bool, now: Instant, lines: Seq<LineType>, r: Result<(), IoError>)
    requires draw_effect(a, b, f, now, lines, r)
    ensures drew(a, b, f, now, lines)
{
    match r { Ok(u) => { assert(r == Ok::<(), IoError>(())); } Err(e) => { assert(draw_effect(a, b, f, now, lines, Err(e))); } }
}
// R5: Vec::extend with an owned vector
#[verifier::external_body]
fn vec_extend(v: &mut Vec<LineType>, more: Vec<LineType>) ensures final(v)@ == old(v)@ + more@ { v.extend(more) }
"""

BAR_SPEC2 = r"""// ProgressStyle::format_state (ASSUMED here: verified in the format_state unit): appends the bar's
// rendering -- Bar lines only, none containing a newline -- for the given state and width
uninterp spec fn fs_lines(style: ProgressStyle, st: ProgressState, width: u16) -> Seq<LineType>;
impl ProgressStyle {
    #[verifier::external_body]
    fn format_state(&self, state: &ProgressState, lines: &mut Vec<LineType>, target_width: u16)
        ensures final(lines)@ == old(lines)@ + fs_lines(*self, *state, target_width),
                all_bars(fs_lines(*self, *state, target_width)), small(fs_lines(*self, *state, target_width))
    { unimplemented!() }
}
// the frame a bar shows: nothing once cleared (DoneHidden), else its rendering at the target's width
spec fn frame_of(b: BarState) -> Seq<LineType> {
    if b.state.status is DoneHidden { Seq::<LineType>::empty() }
    else { match b.draw_target.own() { Some(x) => fs_lines(b.style, b.state, x.0.w as u16), None => Seq::<LineType>::empty() } }
}
// everything of a bar except its draw target
spec fn rest_same(a: BarState, b: BarState) -> bool { a.state == b.state && a.style == b.style && a.on_finish == b.on_finish && a.tab_width == b.tab_width }
#[verifier::external_body]
fn clone_finish(f: &ProgressFinish) -> (r: ProgressFinish) ensures r == *f { unimplemented!() }
"""

TK_RW = [Rw("R10", r"Box<dyn TermLike>", "Term"), Rw("R2", r"Arc<RwLock<MultiState>>", "MultiHandle")]
DRAWABLE_RW = [Rw("R10", r"&'a Term", "&'a mut Term"), Rw("R10", r"&'a dyn TermLike", "&'a mut Term"),
               Rw("R2", r"RwLockWriteGuard<'a, MultiState>", "&'a mut MultiHandle")]

DRAWABLE_FN = dict(
    file="src/draw_target.rs", container="ProgressDrawTarget", name="drawable", ret="r",
    sig_rewrites=[Rw("R1", r"Drawable<'_>", "Drawable<'_>")],
    rewrites=[Rw("R2", r"let state = state\.write\(\)\.unwrap\(\);", "let state = state;"),
              Rw("R10", r"&\*\*inner", "inner"),
              Rw("R5", r"rate_limiter\.as_mut\(\)\.map_or\(true, \|r\| r\.allow\(now\)\)", "opt_allow(rate_limiter, now)")],
    requires=[("wf", "old(self).wf()"), ("clock", "time_ok(now)")],
    ensures=[
        ("C06-hidden-none", "old(self).kind is Hidden ==> r.is_none() && *final(self) == *old(self)"),
        ("C06-not-a-tty-none", "old(self).kind matches TargetKind::Term { term, last_line_count, rate_limiter, draw_state } ==> (!term@.tty ==> r.is_none() && *final(self) == *old(self))"),
        ("C04-C05-term",
         "old(self).kind matches TargetKind::Term { term: t0, last_line_count: l0, rate_limiter: rl0, draw_state: d0 } ==> (t0@.tty ==> "
         "match r { "
         "  Some(Drawable::Term { term, last_line_count, draw_state }) => (final(self).kind matches TargetKind::Term { term: t1, last_line_count: l1, rate_limiter: rl1, draw_state: d1 } "
         "     && t1 == *final(term) && l1 == *final(last_line_count) && d1 == *final(draw_state) && limiter_after(rl0, rl1, force_draw, now, true) "
         "     && *term == t0 && *last_line_count == l0 && *draw_state == d0), "
         "  None => (final(self).kind matches TargetKind::Term { term: t1, last_line_count: l1, rate_limiter: rl1, draw_state: d1 } "
         "     && t1 == t0 && l1 == l0 && d1 == d0 && limiter_after(rl0, rl1, false, now, false) && !force_draw), "
         "  _ => false })"),
        ("C04-C05-termlike",
         "old(self).kind matches TargetKind::TermLike { inner: t0, last_line_count: l0, rate_limiter: orl0, draw_state: d0 } ==> "
         "match r { "
         "  Some(Drawable::TermLike { term_like, last_line_count, draw_state }) => (final(self).kind matches TargetKind::TermLike { inner: t1, last_line_count: l1, rate_limiter: orl1, draw_state: d1 } "
         "     && t1 == *final(term_like) && l1 == *final(last_line_count) && d1 == *final(draw_state) "
         "     && (match orl0 { Some(rl0) => (orl1 matches Some(rl1) && limiter_after(rl0, rl1, force_draw, now, true)), None => orl1 is None }) "
         "     && *term_like == t0 && *last_line_count == l0 && *draw_state == d0), "
         "  None => (final(self).kind matches TargetKind::TermLike { inner: t1, last_line_count: l1, rate_limiter: orl1, draw_state: d1 } "
         "     && t1 == t0 && l1 == l0 && d1 == d0 && !force_draw && (orl0 matches Some(rl0) && (orl1 matches Some(rl1) && limiter_after(rl0, rl1, false, now, false)))), "
         "  _ => false }"),
        ("multi",
         "old(self).kind matches TargetKind::Multi { state: s0, idx: i0 } ==> "
         "(r matches Some(Drawable::Multi { state, idx, force_draw: fd, now: nw }) && *state == s0 && idx == i0 && fd == force_draw && nw == now "
         "&& (final(self).kind matches TargetKind::Multi { state: s1, idx: i1 } && s1 == *final(state) && i1 == i0))"),
    ])

UNIT = Unit(
    name="bar_draw",
    properties=["C01", "C03", "C04", "C05", "C06", "C18"],
    prelude=["time", "atomics", "gterm", "tes_opaque", "est_opaque", "style_opaque"],
    rlimit=60,
    trusted=[],
    items=[
        Raw(K.INSTANT_NOW),
        Decl("src/multi.rs", "enum", "MultiProgressAlignment", attrs="#[derive(Clone, Copy)]"),
        Decl("src/draw_target.rs", "struct", "VisualLines", attrs="#[derive(Clone, Copy, Eq, Ord, PartialEq, PartialOrd)]",
             rewrites=[Rw("R11", r"struct VisualLines\(usize\)", "pub struct VisualLines(pub usize)")]),
        Decl("src/draw_target.rs", "enum", "LineType"),
        Decl("src/draw_target.rs", "struct", "DrawState"),
        Decl("src/draw_target.rs", "const", "MAX_BURST"),
        Decl("src/draw_target.rs", "struct", "RateLimiter"),
        Raw(D.VL_DERIVES),
        Raw(SHIMS),
        Decl("src/draw_target.rs", "enum", "LineAdjust"),
        Decl("src/draw_target.rs", "enum", "TargetKind", rewrites=TK_RW),
        Decl("src/draw_target.rs", "struct", "ProgressDrawTarget"),
        Decl("src/draw_target.rs", "enum", "Drawable", rewrites=DRAWABLE_RW),
        Decl("src/draw_target.rs", "struct", "DrawStateWrapper"),
        Raw(K.LIMITER_SPEC_NOPOS), Raw(K.RATELIMITER_SPEC), Raw(TARGET_SPEC),
        Raw(r"""
// R5: `rate_limiter.as_mut().map_or(true, |r| r.allow(now))`
fn opt_allow(rl: &mut Option<RateLimiter>, now: Instant) -> (res: bool)
    requires *old(rl) matches Some(r) ==> rl_ok(r) && time_ok(now),
    ensures *old(rl) is None ==> res && *final(rl) == *old(rl),
            *old(rl) matches Some(r0) ==> *final(rl) matches Some(r1) && limiter_after(r0, r1, false, now, res),
{
    match rl { Some(r) => r.allow(now), None => true }
}
"""),
        Fn(**dict(K.RL_ALLOW, stub=True)),
        Fn(**DRAWABLE_FN),
        Raw(D.SPEC), Raw(D.DTT_PRED), Raw(WRAP_SPEC), Raw(TARGET_SPEC2),
        Fn(**D.DTT_STUB),
        Fn("src/draw_target.rs", "DrawState", "reset", ensures=[("cleared", "final(self).lines@.len() == 0 && final(self).move_cursor == old(self).move_cursor && final(self).alignment == old(self).alignment")]),
        Fn("src/draw_target.rs", "DrawStateWrapper", "for_term", ret="r",
           ensures=[("same-ref", "*r.state == *old(state) && *final(r.state) == *final(state) && r.orphan_lines is None")]),
        Fn("src/draw_target.rs", "DrawStateWrapper", "for_multi", ret="r",
           ensures=[("same-ref", "*r.state == *old(state) && *final(r.state) == *final(state) && (r.orphan_lines matches Some(o) && *o == *old(orphan_lines) && *final(o) == *final(orphan_lines))")]),
        Fn("src/draw_target.rs", "Drop for DrawStateWrapper", "drop", rename="drop_impl", ret="r",
           rewrites=[RwFn("R3d", r3_drain_loops, count=1), Rw("R1", r"Vec::new\(\)", "Vec::<LineType>::new()")],
           ensures=[("same-refs", "*final(final(self).state) == *final(old(self).state) && (old(self).orphan_lines is None <==> final(self).orphan_lines is None)"),
                    ("C03-own-terminal-keeps-lines", "old(self).orphan_lines is None ==> *final(self).state == *old(self).state"),
                    ("C03-texts-move-to-orphans",
                     "old(self).orphan_lines matches Some(o) ==> (final(self).orphan_lines matches Some(o2) && *final(o2) == *final(o) "
                     "&& o2@ == o@ + texts_of(old(self).state.lines@) && final(self).state.lines@ == bars_of(old(self).state.lines@) "
                     "&& final(self).state.move_cursor == old(self).state.move_cursor && final(self).state.alignment == old(self).state.alignment)")],
           proofs=[(r"let mut lines = Vec", "before", "            let ghost all = self.state.lines@; let ghost o0 = text_lines@; let ghost mc = self.state.move_cursor; let ghost al = self.state.alignment;"),
                   (r"self\.state\.lines = lines;", "before", "            proof { assert(all.subrange(0, all.len() as int) =~= all); }")],
           loops={0: {"invariant": [
                        "__dr0@.len() <= all.len()",
                        "__dr0@ == all.subrange(all.len() - __dr0@.len(), all.len() as int)",
                        "lines@ == bars_of(all.subrange(0, all.len() - __dr0@.len()))",
                        "text_lines@ == o0 + texts_of(all.subrange(0, all.len() - __dr0@.len()))",
                        "self.state.move_cursor == mc && self.state.alignment == al"],
                      "decreases": "__dr0@.len()",
                      "body_start": "                let ghost k = all.len() - __dr0@.len();",
                      "body_end": """                proof {
                    let pre = all.subrange(0, k as int);
                    let nxt = all.subrange(0, k + 1);
                    assert(nxt.drop_last() =~= pre);
                    assert(nxt.last() == all[k as int]);
                    assert(__dr0@ =~= all.subrange(all.len() - __dr0@.len(), all.len() as int));
                    assert(o0 + texts_of(pre).push(all[k as int]) =~= (o0 + texts_of(pre)).push(all[k as int]));
                }"""}}),
        Fn("src/draw_target.rs", "Drawable", "width", ret="r",
           rewrites=[Rw("R10", r"term\.size\(\)\.1", "term.width()")],
           requires=[("wf", "self matches Drawable::Term { term, last_line_count, draw_state } ==> term@.wf()"),
                     ("wf2", "self matches Drawable::TermLike { term_like, last_line_count, draw_state } ==> term_like@.wf()")],
           ensures=[("own-width", "self matches Drawable::Term { term, last_line_count, draw_state } ==> r == Some(term@.w as u16)"),
                    ("own-width2", "self matches Drawable::TermLike { term_like, last_line_count, draw_state } ==> r == Some(term_like@.w as u16)")]),
        Fn("src/draw_target.rs", "Drawable", "state", ret="r",
           rewrites=[Rw("R16", r"state\.reset\(\);", "state.state.reset();")],
           ensures=[("term", '*old(self) matches Drawable::Term { term: t, last_line_count: l, draw_state: d } ==> (*final(self) matches Drawable::Term { term: t2, last_line_count: l2, draw_state: d2 } && *t2 == *t && *final(t2) == *final(t) && *l2 == *l && *final(l2) == *final(l) && *d2 == *final(r.state) && *final(d2) == *final(d) && r.orphan_lines is None && r.state.lines@.len() == 0 && r.state.move_cursor == d.move_cursor && r.state.alignment == d.alignment)'), ("termlike", '*old(self) matches Drawable::TermLike { term_like: t, last_line_count: l, draw_state: d } ==> (*final(self) matches Drawable::TermLike { term_like: t2, last_line_count: l2, draw_state: d2 } && *t2 == *t && *final(t2) == *final(t) && *l2 == *l && *final(l2) == *final(l) && *d2 == *final(r.state) && *final(d2) == *final(d) && r.orphan_lines is None && r.state.lines@.len() == 0 && r.state.move_cursor == d.move_cursor && r.state.alignment == d.alignment)'),
                    ("multi", "*old(self) matches Drawable::Multi { state: s, idx, force_draw, now } ==> (*final(self) matches Drawable::Multi { state: s2, idx: i2, force_draw: f2, now: n2 } && i2 == idx && f2 == force_draw && n2 == now && s2.hidden() == s.hidden() && s2.ops() == s.ops() && final(s2).hidden() == final(s).hidden() && final(s2).ops() == final(s).ops())")]),
        Fn("src/draw_target.rs", "Drawable", "draw", ret="r", sig_rewrites=[K.IO_RESULT],
           requires=[("term", 'self matches Drawable::Term { term: t, last_line_count: l, draw_state: d } ==> dtt_pre(*d, t@, *l)'), ("termlike", 'self matches Drawable::TermLike { term_like: t, last_line_count: l, draw_state: d } ==> dtt_pre(*d, t@, *l)')],
           ensures=[("term", 'self matches Drawable::Term { term: t, last_line_count: l, draw_state: d } ==> dtt_post(*d, *final(d), t@, final(t)@, *l, *final(l), r)'), ("termlike", 'self matches Drawable::TermLike { term_like: t, last_line_count: l, draw_state: d } ==> dtt_post(*d, *final(d), t@, final(t)@, *l, *final(l), r)'),
                    ("multi", "self matches Drawable::Multi { state: s, idx, force_draw, now } ==> final(s).hidden() == s.hidden() && (s.hidden() ==> final(s).ops() == s.ops())")]),
        Fn("src/draw_target.rs", "Drawable", "clear", ret="r", sig_rewrites=[K.IO_RESULT],
           rewrites=[Rw("R9", r"drop\(state\);", "let mut state = state; state.drop_impl();"),
                     Rw("R16", r"state\.alignment = ", "state.state.alignment = ")],
           requires=[("term", 'self matches Drawable::Term { term: t, last_line_count: l, draw_state: d } ==> t@.wf() && t@.w <= 65535 && l.0 <= 0x7FFF_FFFF'), ("termlike", 'self matches Drawable::TermLike { term_like: t, last_line_count: l, draw_state: d } ==> t@.wf() && t@.w <= 65535 && l.0 <= 0x7FFF_FFFF')],
           ensures=[("term", 'self matches Drawable::Term { term: t, last_line_count: l, draw_state: d } ==> exists|e: DrawState| e.lines@.len() == 0 && e.move_cursor == d.move_cursor && e.alignment is Top && #[trigger] dtt_post(e, *final(d), t@, final(t)@, *l, *final(l), r)'), ("termlike", 'self matches Drawable::TermLike { term_like: t, last_line_count: l, draw_state: d } ==> exists|e: DrawState| e.lines@.len() == 0 && e.move_cursor == d.move_cursor && e.alignment is Top && #[trigger] dtt_post(e, *final(d), t@, final(t)@, *l, *final(l), r)'),
                    ("multi", "self matches Drawable::Multi { state: s, idx, force_draw, now } ==> final(s).hidden() == s.hidden() && (s.hidden() ==> final(s).ops() == s.ops())")]),
        Fn("src/draw_target.rs", "VisualLines", "saturating_add", ret="r",
           ensures=[("def", "r.0 as int == if self.0 + other.0 > usize::MAX { usize::MAX as int } else { self.0 + other.0 }")]),
        Fn("src/draw_target.rs", "VisualLines", "saturating_sub", ret="r",
           ensures=[("def", "r.0 as int == if self.0 >= other.0 { self.0 - other.0 } else { 0 }")]),
        Fn("src/draw_target.rs", "TargetKind", "adjust_last_line_count",
           ensures=[("C03-adjust", "adjusted(*old(self), *final(self), adjust)")]),
        Fn("src/draw_target.rs", "ProgressDrawTarget", "adjust_last_line_count",
           ensures=[("C03-adjust", "adjusted(old(self).kind, final(self).kind, adjust)")]),
        Fn("src/draw_target.rs", "Drawable", "adjust_last_line_count",
           ensures=[("term", "*old(self) matches Drawable::Term { term: t, last_line_count: l, draw_state: d } ==> (*final(self) matches Drawable::Term { term: t2, last_line_count: l2, draw_state: d2 } "
                             "&& *t2 == *t && *final(t2) == *final(t) && *d2 == *d && *final(d2) == *final(d) && *final(l2) == *final(l) && l2.0 == adj_count(l.0, adjust))"),
                    ("termlike", "*old(self) matches Drawable::TermLike { term_like: t, last_line_count: l, draw_state: d } ==> (*final(self) matches Drawable::TermLike { term_like: t2, last_line_count: l2, draw_state: d2 } "
                             "&& *t2 == *t && *final(t2) == *final(t) && *d2 == *d && *final(d2) == *final(d) && *final(l2) == *final(l) && l2.0 == adj_count(l.0, adjust))")]),
        # ---- BarState level
        Decl("src/state.rs", "struct", "AtomicPosition"),
        Decl("src/state.rs", "enum", "Status"),
        Decl("src/state.rs", "enum", "Reset"),
        Decl("src/state.rs", "enum", "ProgressFinish", rewrites=[Rw("R15", r"Cow<'static, str>", "String", count=2)]),
        Decl("src/state.rs", "struct", "ProgressState", rewrites=[Rw("R2", r"Arc<AtomicPosition>", "AtomicPosition")]),
        Decl("src/state.rs", "struct", "BarState"),
        Raw(K.BAR_SPEC), Raw(BAR_SPEC2),
        Fn("src/state.rs", "ProgressState", "is_finished", ensures=[("def", "r == self.finished()")]),
        Fn("src/state.rs", "ProgressState", "pos", rewrites=[K.AORD(1)], ensures=[("C07-pos", "r == self.pos.pos@")]),
        Fn("src/state.rs", "ProgressState", "len", ensures=[("C07-len", "r == self.len")]),
        Fn(**dict(K.BAR_DRAW,
                  rewrites=[K.BOOL_OR_ASSIGN, Rw("R16", r"&mut draw_state\.lines", "&mut draw_state.state.lines"),
                            Rw("R9", r"drop\(draw_state\);", "draw_state.drop_impl();")],
                  proofs=[(r"(?m)^\s*drawable\.draw\(\)\s*$", "at", """
        let ghost dsnap = drawable;
        let ghost lines_now = match dsnap { Drawable::Term { term, last_line_count, draw_state } => draw_state.lines@, Drawable::TermLike { term_like, last_line_count, draw_state } => draw_state.lines@, _ => Seq::<LineType>::empty() };
        let __r = drawable.draw();
        proof {
            let a = old(self).draw_target;
            let b = self.draw_target;
            let f = force_draw;
            let want = if old(self).state.status is DoneHidden { Seq::<LineType>::empty() } else { match a.own() { Some(x) => fs_lines(old(self).style, old(self).state, x.0.w as u16), None => Seq::<LineType>::empty() } };
            assert(b.same_kind(a));
            assert(a.hidden() ==> b.ops() == a.ops());
            match dsnap {
                Drawable::Term { term: t, last_line_count: l, draw_state: d } => {
                    assert(dtt_post(*d, *final(d), t@, final(t)@, *l, *final(l), __r));
                    assert(a.own() is Some);
                    let x = a.own().unwrap();
                    assert(b.own() is Some);
                    let y = b.own().unwrap();
                    assert(d.lines@ == want);
                    assert(x.0 == t@ && x.1 == *l);
                    assert(y.0 == final(t)@ && y.1 == *final(l) && y.2 == *final(d));
                    assert(req_case(a, b, f, now, want, __r, true, x, y));
                }
                Drawable::TermLike { term_like: t, last_line_count: l, draw_state: d } => {
                    assert(dtt_post(*d, *final(d), t@, final(t)@, *l, *final(l), __r));
                    let x = a.own().unwrap();
                    let y = b.own().unwrap();
                    assert(d.lines@ == want);
                    assert(x.0 == t@ && x.1 == *l);
                    assert(y.0 == final(t)@ && y.1 == *final(l) && y.2 == *final(d));
                    assert(req_case(a, b, f, now, want, __r, true, x, y));
                }
                _ => {}
            }
        }
        __r
""")],
                  ensures=K.BAR_DRAW["ensures"] + [
                      ("frame-rest", "rest_same(*old(self), *final(self))"),
                      ("C04-C05-C06-C13-draw-effect",
                       "draw_effect(old(self).draw_target, final(self).draw_target, force_draw || old(self).state.finished(), now, "
                       "(if old(self).state.status is DoneHidden { Seq::<LineType>::empty() } else { match old(self).draw_target.own() { Some(x) => fs_lines(old(self).style, old(self).state, x.0.w as u16), None => Seq::<LineType>::empty() } }), r)",
                       ["C01", "C02", "C03", "C04", "C05", "C06", "C13"]),   # the one place where a frame (printed lines ++ rendering) leaves the bar
                  ])),
        Fn(**dict(K.BAR_UPDATE_AND_DRAW, rewrites=[K.AORD(1), K.TRACKERS_TICK],
                  proofs=[(r"let _ = self\.draw\(false, now\);", "at", """let ghost a = self.draw_target; let ghost fin = self.state.finished();
        let __r = self.draw(false, now);
        proof { lemma_drew(a, self.draw_target, fin, now, frame_of(*self), __r); }""")],
                  ensures=K.BAR_UPDATE_AND_DRAW["ensures"] + [
                      ("C11-trackers-ticked", "final(self).style.tracker_log() == old(self).style.tracker_log().push((false, old(self).state.pos.pos@))"),
                      ("C05-C06-draw-effect", "drew(old(self).draw_target, final(self).draw_target, old(self).state.finished(), now, frame_of(*final(self)))"),
                  ])),
        Fn("src/state.rs", "BarState", "tick", requires=K.BAR_REQ,
           ensures=[K.BAR_WF_POST,
                    ("tick-saturates", "final(self).state.tick == (if old(self).state.tick == u64::MAX { u64::MAX } else { (old(self).state.tick + 1) as u64 })"),
                    ("C05-C06-draw-effect", "drew(old(self).draw_target, final(self).draw_target, old(self).state.finished(), now, frame_of(*final(self)))")]),
        Fn(**dict(K.POS_SET, stub=True)),
        Fn(**dict(K.BAR_FINISH,
                  proofs=[(r"let _ = self\.draw\(true, now\);", "at", """let ghost a = self.draw_target;
        let __r = self.draw(true, now);
        proof { lemma_drew(a, self.draw_target, true, now, frame_of(*self), __r); }""")],
                  ensures=K.BAR_FINISH["ensures"] + [
                      ("C04-final-frame-always-painted", "drew(old(self).draw_target, final(self).draw_target, true, now, frame_of(*final(self)))")])),
        Fn("src/draw_target.rs", "ProgressDrawTarget", "width", ret="r",
           rewrites=[Rw("R10", r"term\.size\(\)\.1", "term.width()"), Rw("R2", r"state\.read\(\)\.unwrap\(\)\.width\(\)", "state.width()")],
           requires=[("wf", "self.wf()")],
           ensures=[("own-width", "self.own() matches Some(x) ==> r == Some(x.0.w as u16)"), ("hidden-none", "self.kind is Hidden ==> r is None"),
                    ("width-positive", "!(self.kind is Multi) ==> (r matches Some(v) ==> v >= 1)")]),
        Fn("src/draw_target.rs", "ProgressDrawTarget", "is_hidden", ret="r",
           rewrites=[Rw("R2", r"state\.read\(\)\.unwrap\(\)\.is_hidden\(\)", "state.is_hidden()")],
           ensures=[("C06-is-hidden", "r == self.hidden()")]),
        Fn("src/draw_target.rs", "ProgressDrawTarget", "mark_zombie", sig_rewrites=[K.SELF_MUT],
           rewrites=[Rw("R2", r"if let TargetKind::Multi \{ idx, state \} = &self\.kind", "if let TargetKind::Multi { idx, state } = &mut self.kind"),
                     Rw("R2", r"state\.write\(\)\.unwrap\(\)\.mark_zombie\(\*idx\)", "state.mark_zombie(*idx)")],
           ensures=[("own-untouched", "!(old(self).kind is Multi) ==> *final(self) == *old(self)"),
                    ("same-kind", "final(self).same_kind(*old(self)) && final(self).ops() == old(self).ops() && (old(self).wf2() ==> final(self).wf2())")]),
        Fn("src/draw_target.rs", "ProgressDrawTarget", "disconnect", sig_rewrites=[K.SELF_MUT],
           rewrites=[Rw("R2", r"match self\.kind \{", "match &mut self.kind {"),
                     Rw("R2", r"TargetKind::Multi \{ idx, ref state, \.\. \}", "TargetKind::Multi { idx, state, .. }"),
                     Rw("R2", r"let state = state\.write\(\)\.unwrap\(\);", "let state = state; let idx = *idx;")],
           ensures=[("own-untouched", "!(old(self).kind is Multi) ==> *final(self) == *old(self)"),
                    ("C06-C18-disconnect", "final(self).same_kind(*old(self)) && (old(self).hidden() ==> final(self).ops() == old(self).ops())", ["C06", "C18"])]),
        Fn("src/state.rs", "BarState", "println", requires=K.BAR_REQ, also=["C01", "C02", "C03"],
           rewrites=[Rw("R5", r"msg\.lines\(\)\.map\(\|l\| LineType::Text\(Into::into\(l\)\)\)\.collect\(\)", "text_lines(msg)"),
                     Rw("R16", r"draw_state\.lines\.push", "draw_state.state.lines.push"),
                     Rw("R5", r"draw_state\.lines\.extend\(lines\)", "vec_extend(&mut draw_state.state.lines, lines)"),
                     Rw("R16", r"&mut draw_state\.lines", "&mut draw_state.state.lines"),
                     Rw("R9", r"drop\(draw_state\);", "draw_state.drop_impl();")],
           proofs=[(r"draw_state\.drop_impl\(\);", "before", """        proof {
            lemma_small_empty_line();
            let texts = if text_lines_of(msg@).len() == 0 { seq![LineType::Empty] } else { text_lines_of(msg@) };
            let fr = frame_of(*old(self));
            if old(self).draw_target.own() is Some {
                let w0 = old(self).draw_target.own().unwrap().0.w;
                if fr.len() == 0 { assert(small(fr)); }
                lemma_small_concat(texts, fr, w0);
                assert(draw_state.state.lines@ =~= texts + fr);
            }
        }"""),
                   (r"(?m)^\s*let _ = drawable\.draw\(\);\s*$", "at", """
        let ghost dsnap = drawable;
        let __r = drawable.draw();
        proof {
            let a = old(self).draw_target;
            let b = self.draw_target;
            let want = (if text_lines_of(msg@).len() == 0 { seq![LineType::Empty] } else { text_lines_of(msg@) }) + frame_of(*old(self));
            assert(b.same_kind(a));
            assert(a.hidden() ==> b.ops() == a.ops());
            match dsnap {
                Drawable::Term { term: t, last_line_count: l, draw_state: d } => {
                    let x = a.own().unwrap(); let y = b.own().unwrap();
                    assert(d.lines@ == want);
                    assert(dtt_post(*d, *final(d), t@, final(t)@, *l, *final(l), __r));
                    assert(x.0 == t@ && x.1 == *l);
                    assert(y.0 == final(t)@ && y.1 == *final(l) && y.2 == *final(d));
                    assert(d.move_cursor == x.2.move_cursor && d.alignment == x.2.alignment);
                    assert(req_case(a, b, true, now, want, __r, true, x, y));
                }
                Drawable::TermLike { term_like: t, last_line_count: l, draw_state: d } => {
                    let x = a.own().unwrap(); let y = b.own().unwrap();
                    assert(d.lines@ == want);
                    assert(dtt_post(*d, *final(d), t@, final(t)@, *l, *final(l), __r));
                    assert(x.0 == t@ && x.1 == *l);
                    assert(y.0 == final(t)@ && y.1 == *final(l) && y.2 == *final(d));
                    assert(d.move_cursor == x.2.move_cursor && d.alignment == x.2.alignment);
                    assert(req_case(a, b, true, now, want, __r, true, x, y));
                }
                _ => {}
            }
            assert(draw_effect(a, b, true, now, want, __r));
            lemma_drew(a, b, true, now, want, __r);
        }
""")],
           ensures=[K.BAR_WF_POST, ("frame-rest", "rest_same(*old(self), *final(self))"),
                    ("C03-C06-println-effect",
                     "drew(old(self).draw_target, final(self).draw_target, true, now, "
                     "(if text_lines_of(msg@).len() == 0 { seq![LineType::Empty] } else { text_lines_of(msg@) }) + frame_of(*old(self)))")]),
        Fn("src/draw_target.rs", "ProgressDrawTarget", "remote", ret="r",
           sig_rewrites=[K.SELF_MUT, Rw("R2", r"Option<\(&Arc<RwLock<MultiState>>, usize\)>", "Option<(&mut MultiHandle, usize)>")],
           rewrites=[Rw("R2", r"match &self\.kind", "match &mut self.kind")],
           ensures=[("multi", "old(self).kind matches TargetKind::Multi { state: s0, idx: i0 } ==> (r matches Some(p) && *p.0 == s0 && p.1 == i0 "
                              "&& (final(self).kind matches TargetKind::Multi { state: s1, idx: i1 } && s1 == *final(p.0) && i1 == i0))"),
                    ("own", "!(old(self).kind is Multi) ==> r is None && *final(self) == *old(self)")]),
        Fn("src/state.rs", "BarState", "suspend", ret="r",
           sig_rewrites=[Rw("R5", r"<F: FnOnce\(\) -> R, R>", "<F: FnOnce() -> R, R>")],
           rewrites=[Rw("R2", r"state\.write\(\)\.unwrap\(\)\.suspend\(f, now\)", "state.suspend(f, now)")],
           requires=K.BAR_REQ + [("callback", "f.requires(())")],
           proofs=[(r"if let Some\(drawable\) = self\.draw_target\.drawable\(", "before", "        let ghost a = self.draw_target;"),
                   (r"(?m)^\s*let _ = drawable\.clear\(\);\s*$", "at", """
            let ghost dsnap = drawable;
            let __r = drawable.clear();
            proof {
                let b = self.draw_target;
                let want = Seq::<LineType>::empty();
                match dsnap {
                    Drawable::Term { term: t, last_line_count: l, draw_state: d } => {
                        let x = a.own().unwrap(); let y = b.own().unwrap();
                        assert(x.0 == t@ && x.1 == *l);
                        assert(y.0 == final(t)@ && y.1 == *final(l) && y.2 == *final(d) && x.2 == *d);
                        let e = choose|e: DrawState| e.lines@.len() == 0 && e.move_cursor == d.move_cursor && e.alignment is Top && #[trigger] dtt_post(e, *final(d), t@, final(t)@, *l, *final(l), __r);
                        assert(e.lines@ =~= want);
                        assert(req_case(a, b, true, now, want, __r, true, x, y));
                    }
                    Drawable::TermLike { term_like: t, last_line_count: l, draw_state: d } => {
                        let x = a.own().unwrap(); let y = b.own().unwrap();
                        assert(x.0 == t@ && x.1 == *l);
                        assert(y.0 == final(t)@ && y.1 == *final(l) && y.2 == *final(d) && x.2 == *d);
                        let e = choose|e: DrawState| e.lines@.len() == 0 && e.move_cursor == d.move_cursor && e.alignment is Top && #[trigger] dtt_post(e, *final(d), t@, final(t)@, *l, *final(l), __r);
                        assert(e.lines@ =~= want);
                        assert(req_case(a, b, true, now, want, __r, true, x, y));
                    }
                    _ => {}
                }
                assert(draw_effect(a, b, true, now, want, __r));
                lemma_drew(a, b, true, now, want, __r);
            }
"""),
                   (r"let ret = f\(\);", "before", """        let ghost m = self.draw_target;
        proof {
            assert(a == old(self).draw_target);
            if a.own() is None { assert(m == a); assert(draw_effect(a, m, true, now, Seq::<LineType>::empty(), Ok(()))); }
            assert(drew(a, m, true, now, Seq::<LineType>::empty()));
        }"""),
                   (r"(?m)^\s*let _ = self\.draw\(true, Instant::now\(\)\);\s*$", "at", """
        let __t2 = Instant::now();
        let __r2 = self.draw(true, __t2);
        proof { lemma_drew(m, self.draw_target, true, __t2, frame_of(*self), __r2); }
""")],
           ensures=[K.BAR_WF_POST, ("frame-rest", "rest_same(*old(self), *final(self))"),
                    ("C03-C18-callback-runs-once", "f.ensures((), r)"),
                    ("C06-suspend-silent-when-hidden", "final(self).draw_target.same_kind(old(self).draw_target) && (old(self).draw_target.hidden() ==> final(self).draw_target.ops() == old(self).draw_target.ops())"),
                    ("C01-C03-suspend-clears-then-redraws",
                     "!(old(self).draw_target.kind is Multi) ==> exists|m: ProgressDrawTarget, t2: Instant| "
                     "#[trigger] drew(old(self).draw_target, m, true, now, Seq::<LineType>::empty()) && #[trigger] drew(m, final(self).draw_target, true, t2, frame_of(*final(self)))")]),
        Fn("src/state.rs", "Drop for BarState", "drop", rename="drop_impl",
           rewrites=[Rw("R5", r"self\.on_finish\.clone\(\)", "clone_finish(&self.on_finish)")],
           requires=[("target-wf", "old(self).draw_target.wf2()")],
           ensures=[("C04-finished-bar-drop-paints-nothing", "old(self).state.finished() ==> rest_same(*old(self), *final(self)) && (!(old(self).draw_target.kind is Multi) ==> final(self).draw_target == old(self).draw_target)"),
                    ("C04-unfinished-bar-drop-finishes", "!old(self).state.finished() ==> final(self).state.finished() && "
                     "(!(old(self).draw_target.kind is Multi) ==> exists|t: Instant| #[trigger] drew(old(self).draw_target, final(self).draw_target, true, t, frame_of(*final(self))))"),
                    ("C06-drop-silent-when-hidden", "final(self).draw_target.same_kind(old(self).draw_target) && (old(self).draw_target.hidden() ==> final(self).draw_target.ops() == old(self).draw_target.ops())")]),
        # ---- ProgressBar glue that draws (C18: a failing terminal must not panic)
        Raw("""// R2: Arc<Mutex<Option<Ticker>>> as an opaque handle: whether a steady ticker thread is installed
#[verifier::external_body]
struct TickerHandle { _p: core::marker::PhantomData<()> }
impl TickerHandle {
    uninterp spec fn installed(&self) -> bool;
    #[verifier::external_body]
    fn is_none(&self) -> (r: bool) ensures r == !self.installed() { unimplemented!() }
}
"""),
        Decl("src/progress_bar.rs", "struct", "ProgressBar",
             rewrites=[Rw("R2", r"Arc<Mutex<BarState>>", "BarState"), Rw("R2", r"Arc<AtomicPosition>", "AtomicPosition"), Rw("R2", r"Arc<Mutex<Option<Ticker>>>", "TickerHandle")]),
        Fn("src/state.rs", "BarState", "set_tab_width", stub=True,
           ensures=[("frame-target", "final(self).draw_target == old(self).draw_target && final(self).state.status == old(self).state.status && final(self).state.pos.pos@ == old(self).state.pos.pos@ && final(self).state.len == old(self).state.len")]),
        Fn("src/progress_bar.rs", "ProgressBar", "set_tab_width", sig_rewrites=[K.SELF_MUT],
           rewrites=[Rw("R2", r"let mut state = self\.state\(\);", "let state = &mut self.state;")],
           requires=[("target-wf", "old(self).state.draw_target.wf2()")],
           ensures=[("C18-no-panic-on-io-error", "final(self).state.draw_target.wf2()", ["C18"])]),
        Fn("src/progress_bar.rs", "ProgressBar", "tick_inner", sig_rewrites=[K.SELF_MUT],
           rewrites=[Rw("R2", r"self\.ticker\.lock\(\)\.unwrap\(\)\.is_none\(\)", "self.ticker.is_none()"),
                     Rw("R2", r"self\.state\(\)", "self.state", count=1)],
           requires=[("target-wf", "old(self).state.draw_target.wf2()"), ("clock", "time_ok(now)")],
           ensures=[("target-wf", "final(self).state.draw_target.wf2()"),
                    ("C05-C07-position-untouched", "final(self).pos == old(self).pos"),
                    ("C05-tick-inner-requests-a-draw-unless-a-ticker-runs",
                     "if old(self).ticker.installed() { final(self).state == old(self).state } "
                     "else { drew(old(self).state.draw_target, final(self).state.draw_target, old(self).state.state.finished(), now, frame_of(final(self).state)) }")]),
        # public entry points that were only hash-pinned before (pins_bar): now under contract
        Fn("src/progress_bar.rs", "ProgressBar", "tick", sig_rewrites=[K.SELF_MUT],
           proofs=[(r"self\.tick_inner\(Instant::now\(\)\);", "at", """let __now = Instant::now();
        self.tick_inner(__now);
        proof { assert(time_ok(__now)); }""")],
           requires=[("target-wf", "old(self).state.draw_target.wf2()")],
           ensures=[("target-wf", "final(self).state.draw_target.wf2()"),
                    ("C05-C07-position-untouched", "final(self).pos == old(self).pos"),
                    ("C05-tick-requests-a-draw-unless-a-ticker-runs",
                     "if old(self).ticker.installed() { final(self).state == old(self).state } "
                     "else { exists|now: Instant| #[trigger] time_ok(now) && drew(old(self).state.draw_target, final(self).state.draw_target, old(self).state.state.finished(), now, frame_of(final(self).state)) }")]),
        Fn("src/progress_bar.rs", "ProgressBar", "println", sig_rewrites=[K.SELF_MUT, Rw("R15", r"<I: AsRef<str>>", ""), Rw("R15", r"msg: I", "msg: &str")],
           rewrites=[Rw("R2", r"self\.state\(\)", "self.state", count=1), Rw("R15", r"msg\.as_ref\(\)", "msg")],
           proofs=[(r"self\.state\.println\(Instant::now\(\), msg\);", "at", """let __now = Instant::now();
        self.state.println(__now, msg);
        proof { assert(time_ok(__now)); }""")],
           requires=[("target-wf", "old(self).state.draw_target.wf2()")],
           ensures=[("target-wf", "final(self).state.draw_target.wf2()"),
                    ("C05-C07-position-untouched", "final(self).pos == old(self).pos"),
                    ("frame-rest", "rest_same(old(self).state, final(self).state)"),
                    ("C03-C06-println-effect",
                     "exists|now: Instant| #[trigger] time_ok(now) && drew(old(self).state.draw_target, final(self).state.draw_target, true, now, "
                     "(if text_lines_of(msg@).len() == 0 { seq![LineType::Empty] } else { text_lines_of(msg@) }) + frame_of(old(self).state))")]),
        Fn("src/progress_bar.rs", "ProgressBar", "is_hidden", ret="r",
           rewrites=[Rw("R2", r"self\.state\(\)", "self.state", count="any")],
           ensures=[("C06-is-hidden", "r == self.state.draw_target.hidden()", ["C06"])]),
        Raw("""
// R11: #[derive(Default)] on DrawState (field-wise defaults)
impl DrawState {
    fn default() -> (r: Self) ensures r.lines@.len() == 0 && !r.move_cursor && r.alignment is Top
    { DrawState { lines: Vec::new(), move_cursor: false, alignment: MultiProgressAlignment::Top } }
}
"""),
        Fn(**dict(K.RL_NEW, stub=True)),
        # C01 / C05 / C06: what a freshly built TermLike target is (nothing painted yet, clearing mode, Top alignment, visible)
        Fn("src/draw_target.rs", "ProgressDrawTarget", "term_like", ret="r", sig_rewrites=[Rw("R10", r"Box<dyn TermLike>", "Term")],
           ensures=[("C01-C06-fresh-visible-target",
                     "r.kind is TermLike && !r.hidden() && (r.own() matches Some(x) && x.0 == term_like@ && x.1.0 == 0 && x.2.lines@.len() == 0 && !x.2.move_cursor && x.2.alignment is Top)"),
                    ("C05-no-limiter", "r.limiter() is None"),
                    ("wf", "term_like@.wf() ==> r.wf2()")]),
        Fn("src/draw_target.rs", "ProgressDrawTarget", "term_like_with_hz", ret="r", sig_rewrites=[Rw("R10", r"Box<dyn TermLike>", "Term")],
           rewrites=[Rw("R5", r"Option::from\(RateLimiter::new\(refresh_rate\)\)", "Some(RateLimiter::new(refresh_rate))")],
           requires=[("rate-nonzero", "refresh_rate >= 1")],
           ensures=[("C01-C06-fresh-visible-target",
                     "r.kind is TermLike && !r.hidden() && (r.own() matches Some(x) && x.0 == term_like@ && x.1.0 == 0 && x.2.lines@.len() == 0 && !x.2.move_cursor && x.2.alignment is Top)"),
                    ("C05-limiter-at-the-requested-rate",
                     "(r.limiter() matches Some(l) && l.wf() && l.capacity == 20 && (l.interval as int - 1) * (refresh_rate as int) < 1000 && (l.interval as int) * (refresh_rate as int) >= 1000)", ["C05"]),
                    ("wf", "term_like@.wf() ==> r.wf2()")]),
        Fn("src/draw_target.rs", "ProgressDrawTarget", "hidden", ret="r", rename="hidden_target",   # the spec fn hidden() has the name already
           ensures=[("C06-hidden-target-is-hidden", "r.kind is Hidden && r.hidden() && r.ops() == 0 && r.wf2()", ["C06"])]),
        Fn("src/draw_target.rs", "ProgressDrawTarget", "set_move_cursor",
           ensures=[("other-kinds-untouched", "!(old(self).kind is Term || old(self).kind is TermLike) ==> *final(self) == *old(self)"),
                    ("same-kind", "final(self).same_kind(*old(self)) && final(self).ops() == old(self).ops() && (old(self).wf2() ==> final(self).wf2())"),
                    ("C01-C03-only-the-cursor-mode-changes",
                     "old(self).own() matches Some(x) ==> (final(self).own() matches Some(y) && y.0 == x.0 && y.1 == x.1 && y.2.move_cursor == move_cursor "
                     "&& y.2.lines == x.2.lines && y.2.alignment == x.2.alignment)"),
                    ("C05-limiter-untouched", "final(self).limiter() == old(self).limiter()")]),
        Fn("src/progress_bar.rs", "ProgressBar", "set_draw_target", sig_rewrites=[K.SELF_MUT],
           rewrites=[Rw("R2", r"let mut state = self\.state\(\);", "let state = &mut self.state;")],
           ensures=[("C06-new-target-installed", "final(self).state.draw_target == target", ["C06"]),
                    ("C06-C07-logical-state-kept", "rest_same(old(self).state, final(self).state) && final(self).pos == old(self).pos", ["C06", "C07"])]),
        Fn("src/progress_bar.rs", "ProgressBar", "force_draw", sig_rewrites=[K.SELF_MUT],
           rewrites=[Rw("R2", r"self\.state\(\)", "self.state", count=1)],
           requires=[("target-wf", "old(self).state.draw_target.wf2()")],
           ensures=[("C18-no-panic-on-io-error", "final(self).state.draw_target.wf2()", ["C18"])]),
    ],
)
