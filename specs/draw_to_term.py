"""DrawState::draw_to_term (src/draw_target.rs) against the ghost terminal: row accounting,
frame condition, height clipping, error path, content of the painted region and cursor rest
position (C01, C03, C18, C19).  Also visual_line_count, LineType helpers, VisualLines operators."""
import re
from vlib.unit import Unit, Fn, Decl, Raw, Lemma, Rw, RwFn, ImplBlock, r3_index_loops, r3_fold
from specs import contracts as K

VL_SPEC = r"""
impl AddSpecImpl<VisualLines> for VisualLines {
    open spec fn obeys_add_spec() -> bool { true }
    open spec fn add_req(self, rhs: VisualLines) -> bool { self.0 + rhs.0 <= usize::MAX }
    open spec fn add_spec(self, rhs: VisualLines) -> VisualLines { VisualLines((self.0 + rhs.0) as usize) }
}
"""
VL_SUB_SPEC = r"""
impl SubSpecImpl<VisualLines> for VisualLines {
    open spec fn obeys_sub_spec() -> bool { true }
    open spec fn sub_req(self, rhs: VisualLines) -> bool { self.0 >= rhs.0 }
    open spec fn sub_spec(self, rhs: VisualLines) -> VisualLines { VisualLines((self.0 - rhs.0) as usize) }
}
"""
VL_ADDASSIGN_SPEC = r"""
impl AddAssignSpecImpl<VisualLines> for VisualLines {
    open spec fn obeys_add_assign_spec() -> bool { true }
    open spec fn add_assign_req(&self, rhs: VisualLines) -> bool { self.0 + rhs.0 <= usize::MAX }
    open spec fn add_assign_spec(&self, rhs: VisualLines) -> &VisualLines { &VisualLines((self.0 + rhs.0) as usize) }
}
"""
VL_FROM_SPEC = r"""
impl<T: Into<usize>> FromSpecImpl<T> for VisualLines {
    open spec fn obeys_from_spec() -> bool { <T as vstd::std_specs::convert::IntoSpec<usize>>::obeys_into_spec() }
    open spec fn from_spec(value: T) -> VisualLines { VisualLines(vstd::std_specs::convert::IntoSpec::into_spec(value)) }
}
"""
# R11: #[derive(PartialEq, Eq, PartialOrd, Ord, Clone, Copy, Default)] on VisualLines means field-wise
VL_DERIVES = r"""
impl PartialEqSpecImpl for VisualLines {
    open spec fn obeys_eq_spec() -> bool { true }
    open spec fn eq_spec(&self, o: &VisualLines) -> bool { self.0 == o.0 }
}
impl PartialOrdSpecImpl for VisualLines {
    open spec fn obeys_partial_cmp_spec() -> bool { true }
    open spec fn partial_cmp_spec(&self, o: &VisualLines) -> Option<Ordering> {
        if self.0 < o.0 { Some(Ordering::Less) } else if self.0 == o.0 { Some(Ordering::Equal) } else { Some(Ordering::Greater) }
    }
}
impl VisualLines {
    fn default() -> (r: Self) ensures r.0 == 0 { VisualLines(0) }    // #[derive(Default)]
}
impl MultiProgressAlignment {
    fn default() -> (r: Self) ensures r is Top { MultiProgressAlignment::Top }
}
"""

SPEC = r"""
spec fn line_str(l: LineType) -> Seq<char> {
    match l { LineType::Text(s) => s@, LineType::Bar(s) => s@, LineType::Empty => Seq::<char>::empty() }
}
spec fn ceil_div(a: nat, b: nat) -> nat { if b == 0 { 0 } else { ((a + b - 1) / (b as int)) as nat } }
// C19: "lines wider than the terminal are accounted for as the number of rows they wrap to"
spec fn height_of(l: LineType, w: nat) -> nat {
    let c = ceil_div(cols(line_str(l)), w);
    if c < 1 { 1 } else { c }
}
spec fn hts(lines: Seq<LineType>, w: nat, k: int) -> nat decreases k {
    if k <= 0 { 0 } else { hts(lines, w, k - 1) + height_of(lines[k - 1], w) }
}
spec fn lines_ok(lines: Seq<LineType>) -> bool {
    forall|i: int| 0 <= i < lines.len() ==> cols(line_str(#[trigger] lines[i])) <= 0xFFFF_FFFF && !is_cr(line_str(lines[i]))
}
proof fn lemma_not_cr(n: nat) ensures !is_cr(spaces(n)), !is_cr(Seq::<char>::empty())
{
    if n == 1 { assert(spaces(n)[0] == ' '); }
    assert(seq!['\r'].len() == 1);
}
// the one situation in which the cursor is not at the start of the region to repaint: cursor-moving
// mode, nothing painted before (n == 0) and the cursor is not in column 0
spec fn cr_hazard(ds: DrawState, t: GTerm, n: int) -> bool { ds.move_cursor && ds.lines@.len() > 0 && n == 0 && t.col > 0 }
spec fn is_bar(l: LineType) -> bool { l is Bar }
// accumulated height of the Bar lines among the first k lines
spec fn rh(lines: Seq<LineType>, w: nat, k: int) -> nat decreases k {
    if k <= 0 { 0 } else { rh(lines, w, k - 1) + if is_bar(lines[k - 1]) { height_of(lines[k - 1], w) } else { 0 } }
}
// C19: line k is the first bar that does not fit the terminal height any more
spec fn brk(lines: Seq<LineType>, w: nat, h: nat, k: int) -> bool {
    is_bar(lines[k]) && rh(lines, w, k) + height_of(lines[k], w) > h
}
spec fn stop(lines: Seq<LineType>, w: nat, h: nat, k: int) -> int decreases lines.len() - k {
    if k >= lines.len() { lines.len() as int } else if brk(lines, w, h, k) { k } else { stop(lines, w, h, k + 1) }
}
proof fn lemma_hts_mono(lines: Seq<LineType>, w: nat, a: int, b: int)
    requires a <= b ensures hts(lines, w, a) <= hts(lines, w, b) decreases b - a
{ if a < b { lemma_hts_mono(lines, w, a, b - 1); } }
proof fn lemma_hts_at_least_len(lines: Seq<LineType>, w: nat, k: int)
    requires 0 <= k ensures hts(lines, w, k) >= k decreases k
{ if k > 0 { lemma_hts_at_least_len(lines, w, k - 1); } }
proof fn lemma_rh_le_hts(lines: Seq<LineType>, w: nat, k: int)
    ensures rh(lines, w, k) <= hts(lines, w, k) decreases k
{ if k > 0 { lemma_rh_le_hts(lines, w, k - 1); } }
proof fn lemma_stop(lines: Seq<LineType>, w: nat, h: nat, k: int, m: int)
    requires 0 <= k <= m <= lines.len(), forall|j: int| k <= j < m ==> !brk(lines, w, h, j), m == lines.len() || brk(lines, w, h, m)
    ensures stop(lines, w, h, k) == m
    decreases m - k
{ if k < m { lemma_stop(lines, w, h, k + 1, m); } }
proof fn lemma_height_covers(c: nat, w: nat)
    requires w >= 1
    ensures (if ceil_div(c, w) < 1 { 1 } else { ceil_div(c, w) }) * w >= c, ceil_div(c, w) <= c + 1
{
    let q = (c + w - 1) / (w as int);
    assert(q * w >= c && q <= c + 1 && q >= 0) by (nonlinear_arith) requires w >= 1, q == (c + w - 1) / (w as int), c >= 0;
    if q < 1 { assert(c == 0) by (nonlinear_arith) requires q * w >= c, q < 1, q >= 0, w >= 1, c >= 0; }
}
// ---- layout of a painted frame (C01: "terminal = printed lines + current frame")
spec fn lcols(lines: Seq<LineType>, k: int) -> nat { cols(line_str(lines[k])) }
// first cell of line k when the lines are painted from linear position `base`
spec fn pos(lines: Seq<LineType>, w: nat, base: int, k: int) -> int { base + hts(lines, w, k) * w }
// index of the line whose text covers cell p among the first m lines, or -1
spec fn owner(lines: Seq<LineType>, w: nat, base: int, m: int, p: int) -> int decreases m {
    if m <= 0 { -1 }
    else if pos(lines, w, base, m - 1) <= p < pos(lines, w, base, m - 1) + lcols(lines, m - 1) { m - 1 }
    else { owner(lines, w, base, m - 1, p) }
}
spec fn is_spaces(s: Seq<char>) -> bool { forall|i: int| 0 <= i < s.len() ==> s[i] == ' ' }
spec fn blankish(c: Cell) -> bool { c is Blank || (c matches Cell::Vis(s, j) && is_spaces(s)) }
// cell p shows what a frame consisting of the first m lines painted from `base` must show there
spec fn cell_ok(c: Cell, lines: Seq<LineType>, w: nat, base: int, m: int, p: int) -> bool {
    let k = owner(lines, w, base, m, p);
    if k >= 0 { c == Cell::Vis(line_str(lines[k]), (p - pos(lines, w, base, k)) as nat) } else { blankish(c) }
}
// everything from `from` on is blank (the progress region is the last thing on the terminal)
spec fn blank_from(t: GTerm, from: int) -> bool { forall|p: int| p >= from ==> blankish(#[trigger] (t.cells)(p)) }
// the cursor right after line k has been written (k-th line of a frame painted from base)
spec fn cur_after(t: GTerm, lines: Seq<LineType>, w: nat, base: int, k: int) -> bool {
    let c = lcols(lines, k);
    &&& (c > 0 ==> t.lin() == pos(lines, w, base, k) + c && 1 <= t.col <= w)
    &&& (c == 0 ==> t.lin() == pos(lines, w, base, k) && t.col == 0)
}
// the known weak spot (finding C01 first-line-advance): nothing painted before, cursor in the
// pending-wrap column, and the first line to paint has no visible column
spec fn first_line_hazard(ds: DrawState, t: GTerm, n: int) -> bool {
    n == 0 && t.col == t.w && ds.lines@.len() >= 1 && lcols(ds.lines@, 0) == 0
}
// what callers must establish about the screen (the Layout invariant of DESIGN section 3)
spec fn layout_pre(ds: DrawState, t: GTerm, n: int) -> bool {
    &&& (n == 0 ==> t.col == 0 || t.col == t.w)                       // cursor at a line start
    &&& blank_from(t, frame_start(t, n) + n * t.w)                    // nothing below the old frame
    &&& (!ds.move_cursor || ds.lines@.len() == 0)                   // cursor-moving mode never applies to an empty frame: it is wiped like any other
}
proof fn lemma_pos_mono(lines: Seq<LineType>, w: nat, base: int, a: int, b: int)
    requires 0 <= a <= b, w >= 1
    ensures pos(lines, w, base, a) <= pos(lines, w, base, b)
{
    lemma_hts_mono(lines, w, a, b);
    assert(hts(lines, w, a) * w <= hts(lines, w, b) * w) by (nonlinear_arith) requires hts(lines, w, a) <= hts(lines, w, b), w >= 1;
}
proof fn lemma_pos_next(lines: Seq<LineType>, w: nat, base: int, k: int)
    requires 0 <= k, w >= 1
    ensures pos(lines, w, base, k + 1) == pos(lines, w, base, k) + height_of(lines[k], w) * w,
            pos(lines, w, base, k) + lcols(lines, k) <= pos(lines, w, base, k + 1),
            height_of(lines[k], w) >= 1
{
    lemma_height_covers(lcols(lines, k), w);
    assert((hts(lines, w, k) + height_of(lines[k], w)) * w == hts(lines, w, k) * w + height_of(lines[k], w) * w) by (nonlinear_arith);
}
// a cell at or after the end of line m-1's text is owned by no line
proof fn lemma_owner_none(lines: Seq<LineType>, w: nat, base: int, m: int, p: int)
    requires w >= 1, m >= 0, m > 0 ==> p >= pos(lines, w, base, m - 1) + lcols(lines, m - 1)
    ensures owner(lines, w, base, m, p) == -1
    decreases m
{
    reveal_with_fuel(owner, 2);
    if m > 1 {
        lemma_pos_next(lines, w, base, m - 2);
        lemma_owner_none(lines, w, base, m - 1, p);
    }
}
// cells before the frame start are owned by no line
proof fn lemma_owner_before(lines: Seq<LineType>, w: nat, base: int, m: int, p: int)
    requires w >= 1, m >= 0, p < base
    ensures owner(lines, w, base, m, p) == -1
    decreases m
{
    reveal_with_fuel(owner, 2);
    if m > 0 {
        lemma_pos_mono(lines, w, base, 0, m - 1);
        assert(hts(lines, w, 0) == 0);
        assert(0 * (w as int) == 0);
        assert(pos(lines, w, base, 0) == base);
        lemma_owner_before(lines, w, base, m - 1, p);
    }
}
// row arithmetic: after writing c > 0 columns from the row-aligned position R*w the cursor is on
// row R + ceil(c/w) - 1
proof fn lemma_row_after_write(rr: int, w: nat, c: nat, row: int, col: nat)
    requires w >= 1, c > 0, row * w + col == rr * w + c, 1 <= col <= w
    ensures row + 1 == rr + ceil_div(c, w), ceil_div(c, w) >= 1
{
    let q = (c + w - 1) / (w as int);
    assert(q * w >= c && (q - 1) * w < c && q >= 1) by (nonlinear_arith) requires w >= 1, c > 0, q == (c + w - 1) / (w as int);
    let d = row - rr;
    assert(d * w + col == c) by (nonlinear_arith) requires row * w + col == rr * w + c, d == row - rr;
    assert(d == q - 1) by (nonlinear_arith) requires d * w + col == c, 1 <= col <= w, q * w >= c, (q - 1) * w < c, w >= 1;
}
// top-left cell of the frame that was painted last time: n rows ending at the cursor row
spec fn frame_start(t: GTerm, n: int) -> int { if n >= 1 { (t.row - (n - 1)) * t.w } else { t.lin() } }

// ---- Bottom alignment: the rows the bars no longer use stay blank BETWEEN the text lines and the bars
// number of leading lines that are not bars (printed text, painted above the managed region)
spec fn tcount(lines: Seq<LineType>, k: int) -> int decreases lines.len() - k {
    if k < 0 || k >= lines.len() || is_bar(lines[k]) { k } else { tcount(lines, k + 1) }
}
spec fn tc(lines: Seq<LineType>) -> int { tcount(lines, 0) }
spec fn bar_part(lines: Seq<LineType>) -> Seq<LineType> { lines.subrange(tc(lines), lines.len() as int) }
spec fn pad_of(lines: Seq<LineType>, a: MultiProgressAlignment, w: nat, n: int) -> nat {
    let fh = hts(bar_part(lines), w, bar_part(lines).len() as int);
    if a is Bottom && fh < n { (n - fh) as nat } else { 0 }
}
// what is painted: text lines, padding rows, bar lines
spec fn vlines(lines: Seq<LineType>, pad: nat) -> Seq<LineType> {
    lines.subrange(0, tc(lines)) + Seq::new(pad, |i: int| LineType::Empty) + bar_part(lines)
}
spec fn vl_of(ds: DrawState, t: GTerm, n: int) -> Seq<LineType> { vlines(ds.lines@, pad_of(ds.lines@, ds.alignment, t.w, n)) }
// every line after the first bar is a bar (frames are built as text lines followed by bar lines)
spec fn text_first(lines: Seq<LineType>) -> bool { forall|i: int| tc(lines) <= i < lines.len() ==> is_bar(#[trigger] lines[i]) }
proof fn lemma_tcount(lines: Seq<LineType>, k: int)
    requires 0 <= k <= lines.len()
    ensures k <= tcount(lines, k) <= lines.len(), forall|i: int| k <= i < tcount(lines, k) ==> !is_bar(#[trigger] lines[i]),
            tcount(lines, k) < lines.len() ==> is_bar(lines[tcount(lines, k)])
    decreases lines.len() - k
{ if k < lines.len() && !is_bar(lines[k]) { lemma_tcount(lines, k + 1); } }
proof fn lemma_hts_split(lines: Seq<LineType>, w: nat, a: int, k: int)
    requires 0 <= a, 0 <= k, a + k <= lines.len()
    ensures hts(lines, w, a + k) == hts(lines, w, a) + hts(lines.subrange(a, lines.len() as int), w, k)
    decreases k
{
    if k > 0 {
        lemma_hts_split(lines, w, a, k - 1);
        assert(lines.subrange(a, lines.len() as int)[k - 1] == lines[a + k - 1]);
    } else { assert(hts(lines.subrange(a, lines.len() as int), w, 0) == 0); }
}
proof fn lemma_hts_rh_prefix(a: Seq<LineType>, b: Seq<LineType>, w: nat, k: int)
    requires 0 <= k <= a.len(), k <= b.len(), forall|i: int| 0 <= i < k ==> a[i] == b[i]
    ensures hts(a, w, k) == hts(b, w, k), rh(a, w, k) == rh(b, w, k)
    decreases k
{ if k > 0 { lemma_hts_rh_prefix(a, b, w, k - 1); } }
// without padding the painted sequence is the frame itself
proof fn lemma_vlines_nopad(lines: Seq<LineType>)
    ensures vlines(lines, 0) =~= lines
{ lemma_tcount(lines, 0); }
proof fn lemma_vlines_ok(lines: Seq<LineType>, pad: nat)
    requires lines_ok(lines)
    ensures lines_ok(vlines(lines, pad)), vlines(lines, pad).len() == lines.len() + pad
{
    lemma_tcount(lines, 0);
    let v = vlines(lines, pad);
    lemma_not_cr(0);
    axiom_cols_empty();
    assert forall|i: int| 0 <= i < v.len() implies cols(line_str(#[trigger] v[i])) <= 0xFFFF_FFFF && !is_cr(line_str(v[i])) by {
        let t = tc(lines);
        if i < t { assert(v[i] == lines[i]); } else if i < t + pad { assert(v[i] == LineType::Empty); } else { assert(v[i] == lines[i - pad]); }
    }
}
// heights of the painted sequence: text, then `pad` one-row blanks, then the bars
proof fn lemma_vlines_hts(lines: Seq<LineType>, pad: nat, w: nat)
    requires w >= 1
    ensures hts(vlines(lines, pad), w, tc(lines)) == hts(lines, w, tc(lines)),
            hts(vlines(lines, pad), w, tc(lines) + pad) == hts(lines, w, tc(lines)) + pad,
            hts(vlines(lines, pad), w, (lines.len() + pad) as int) == hts(lines, w, lines.len() as int) + pad,
            rh(vlines(lines, pad), w, tc(lines) + pad) == 0
{
    lemma_tcount(lines, 0);
    let v = vlines(lines, pad);
    let t = tc(lines);
    lemma_hts_rh_prefix(v, lines, w, t);
    lemma_pad_rows(v, w, t, pad as int);
    lemma_hts_split(v, w, t + pad, lines.len() - t);
    lemma_hts_split(lines, w, t, lines.len() - t);
    assert(v.subrange(t + pad, v.len() as int) =~= lines.subrange(t, lines.len() as int));
    lemma_rh_text(v, w, t + pad);
}
proof fn lemma_pad_rows(v: Seq<LineType>, w: nat, t: int, k: int)
    requires w >= 1, 0 <= t, 0 <= k, t + k <= v.len(), forall|i: int| t <= i < t + k ==> v[i] == LineType::Empty
    ensures hts(v, w, t + k) == hts(v, w, t) + k
    decreases k
{
    if k > 0 {
        lemma_pad_rows(v, w, t, k - 1);
        axiom_cols_empty();
        assert(line_str(v[t + k - 1]) == Seq::<char>::empty());
        assert(ceil_div(0, w) == 0) by (nonlinear_arith) requires w >= 1, ceil_div(0, w) == ((0 + w - 1) / (w as int)) as nat;
        assert(height_of(v[t + k - 1], w) == 1);
    }
}
proof fn lemma_rh_text(v: Seq<LineType>, w: nat, k: int)
    requires 0 <= k <= v.len(), forall|i: int| 0 <= i < k ==> !is_bar(#[trigger] v[i])
    ensures rh(v, w, k) == 0
    decreases k
{ if k > 0 { lemma_rh_text(v, w, k - 1); } }
proof fn lemma_rh_le_from(v: Seq<LineType>, w: nat, a: int, k: int)
    requires 0 <= a <= k
    ensures rh(v, w, k) - rh(v, w, a) <= hts(v, w, k) - hts(v, w, a)
    decreases k - a
{ if k > a { lemma_rh_le_from(v, w, a, k - 1); } }
// once only bars follow, rows of bars and rows of lines grow together
proof fn lemma_rh_bars(v: Seq<LineType>, w: nat, a: int, k: int)
    requires 0 <= a <= k <= v.len(), forall|i: int| a <= i < k ==> is_bar(#[trigger] v[i])
    ensures rh(v, w, k) - rh(v, w, a) == hts(v, w, k) - hts(v, w, a)
    decreases k - a
{ if k > a { lemma_rh_bars(v, w, a, k - 1); } }
"""

WRAPPED_HEIGHT = dict(file="src/draw_target.rs", container="LineType", name="wrapped_height", ret="r",
                      rewrites=[Rw("R6", r"((?:\w+\.)*\w+(?:\(\))?) as f64", r"F64::from_usize(\1)", count="any"),
                                Rw("R6", r"(\((?:[^()]|\((?:[^()]|\([^()]*\))*\))*\)(?:\.\w+\(\))*) as usize", r"\1.trunc_usize()", count="any"),
                                Rw("R5", r"usize::max\(terminal_len, 1\)\.into\(\)", "vl_from_usize(usize_max(terminal_len, 1))")],
                      proofs=[("@start", "after", "        proof { lemma_ceil_div(cols(line_str(*self)), width as nat); }")],
                      requires=[("width", "width >= 1")],
                      ensures=[("C19-wrapped-height", "r.0 as nat == height_of(*self, width as nat)")])
# the f64 quotient rounded up is the integer ceiling division (over the reals, R6)
CEIL_LEMMA = r"""
// R5 (ASSUMED): `n.into()` with the extracted `impl<T: Into<usize>> From<T> for VisualLines { Self(value.into()) }` at T = usize
// (the reflexive Into of std is the identity)
#[verifier::external_body]
fn vl_from_usize(n: usize) -> (r: VisualLines) ensures r.0 == n { VisualLines::from(n) }
fn usize_max(a: usize, b: usize) -> (r: usize) ensures r == (if a >= b { a } else { b }) { if a >= b { a } else { b } }
proof fn lemma_ceil_div(c: nat, w: nat)
    requires w >= 1
    ensures rceil(c as real / w as real) == ceil_div(c, w) as int, 0real <= rceil(c as real / w as real) as real, (rceil(c as real / w as real) as real) < 18446744073709551616real || c >= 18446744073709551616
{
    let q = ((c + w - 1) / (w as int)) as int;
    let x = c as real / w as real;
    assert(q * w >= c && (q - 1) * w < c) by (nonlinear_arith) requires q == (c + w - 1) / (w as int), w >= 1, c >= 0;
    assert(x * (w as real) == c as real) by (nonlinear_arith) requires x == c as real / w as real, w >= 1;
    assert(((q - 1) as real) < x && x <= (q as real)) by (nonlinear_arith)
        requires x * (w as real) == (c as real), ((q * w) as real) >= (c as real), (((q - 1) * w) as real) < (c as real), w >= 1;
    assert((-x).floor() == -q);
    assert(q <= c) by (nonlinear_arith) requires (q - 1) * w < c, w >= 1, q >= 0, c >= 0;
}
"""

DRAW_RW = [
    # R3c: `.iter().take_while(|l| !P(l)).count()` is the index of the first element satisfying P (verified helper loop)
    Rw("R3c", r"self\s*\.lines\s*\.iter\(\)\s*\.take_while\(\|line\| !matches!\(line, LineType::Bar\(_\)\)\)\s*\.count\(\)", "leading_text_count(&self.lines)"),
    # R10: DrawState::visual_line_count(range, w) is `visual_line_count(&self.lines[range], w)` (its body); the sub-slice is vstd's slice_subrange
    Rw("R10", r"self\.visual_line_count\(text_count\.\., term_width\)", "visual_line_count(vstd::slice::slice_subrange(self.lines.as_slice(), text_count, self.lines.len()), term_width)"),
    Rw("R5", r"vec!\[LineType::Empty; shift\.as_usize\(\)\]", "padding_lines(shift.as_usize())"),
    Rw("R5", r"self\.lines\.split_at\(text_count\)", "(vstd::slice::slice_subrange(self.lines.as_slice(), 0, text_count), vstd::slice::slice_subrange(self.lines.as_slice(), text_count, self.lines.len()))"),
    # R3d: a chain of three slice iterators visits the concatenation of the three sequences (ASSUMED helper chain3)
    Rw("R3d", r"for \(idx, line\) in text\.iter\(\)\.chain\(&padding\)\.chain\(bars\)\.enumerate\(\) \{", "let __vl = chain3(text, &padding, bars); for (idx, &line) in __vl.iter().enumerate() {"),
    RwFn("R3", r3_index_loops, count=1),
    Rw("R5", r"&\" \"\.repeat\(last_line_filler\)", "repeat_space(last_line_filler).as_str()"),
]

HELPERS = r"""
// R3c: `lines.iter().take_while(|line| !matches!(line, LineType::Bar(_))).count()`
fn leading_text_count(lines: &Vec<LineType>) -> (r: usize)
    ensures r as int == tc(lines@), r <= lines.len()
{
    let mut k: usize = 0;
    proof { lemma_tcount(lines@, 0); }
    while k < lines.len() && !matches!(lines[k], LineType::Bar(_))
        invariant k <= lines.len(), tcount(lines@, k as int) == tc(lines@)
        decreases lines.len() - k
    {
        proof { lemma_tcount(lines@, k as int + 1); }
        k += 1;
    }
    proof { lemma_tcount(lines@, k as int); }
    k
}
// R5 (ASSUMED): `vec![LineType::Empty; n]`
#[verifier::external_body]
fn padding_lines(n: usize) -> (r: Vec<LineType>) ensures r@ == Seq::new(n as nat, |i: int| LineType::Empty) { unimplemented!() }
// R3d (ASSUMED): `a.iter().chain(b).chain(c)` yields the elements of a, then b, then c
#[verifier::external_body]
fn chain3<'a>(a: &'a [LineType], b: &'a Vec<LineType>, c: &'a [LineType]) -> (r: Vec<&'a LineType>)
    ensures r@.len() == a@.len() + b@.len() + c@.len(), forall|i: int| 0 <= i < r@.len() ==> *(#[trigger] r@[i]) == (a@ + b@ + c@)[i]
{ a.iter().chain(b).chain(c).collect() }
"""

INV_COMMON = [
    "term@.wf()", "term@.same_geom(t0)", "term@.flushed == t0.flushed", "term@.errs == t0.errs", "t0.wf()", "t0 == old(term)@",
    "start == frame_start(t0, n0)",
]
INV_FRAME = ["forall|p: int| p < start ==> (#[trigger] (term@.cells)(p)) == (t0.cells)(p)"]
INV_FRAME_H = ["!hazard ==> term@.lin() >= start", "!hazard ==> forall|p: int| p < start ==> (#[trigger] (term@.cells)(p)) == (t0.cells)(p)"]

UNIT = Unit(
    name="draw_to_term",
    properties=["C01", "C02", "C03", "C18", "C19"],
    prelude=["gterm", "realf"],
    rlimit=150,
    trusted=[
        "the ghost terminal (prelude/gterm.rs) is the ASSUMED contract of the TermLike dependency; R10: every terminal type is this one model, R2: its &self methods take &mut",
        "LineType::wrapped_height stubbed with r == max(1, ceil(cols/width)) (float code: bounded Kani stand-in kani/draw_target.rs)",
        "console::measure_text_width uninterpreted (cols); cols(\"\") == 0 and cols of n spaces == n assumed",
        "thread::panicking() == false",
        "R11: derived comparisons / Default of VisualLines mean field-wise; operator impls get SpecImpl with overflow as precondition",
        "line widths below 2^32 columns, terminal width <= 65535 (u16), total frame height below 2^31 rows (requires of draw_to_term)",
    ],
    items=[
        Decl("src/multi.rs", "enum", "MultiProgressAlignment", attrs="#[derive(Clone, Copy)]"),
        Decl("src/draw_target.rs", "struct", "VisualLines", attrs="#[derive(Clone, Copy, Eq, Ord, PartialEq, PartialOrd)]",
             rewrites=[Rw("R11", r"struct VisualLines\(usize\)", "pub struct VisualLines(pub usize)")]),
        Decl("src/draw_target.rs", "enum", "LineType"),
        Decl("src/draw_target.rs", "struct", "DrawState"),
        Raw(VL_DERIVES),
        ImplBlock("src/draw_target.rs", "Add for VisualLines", VL_SPEC),
        ImplBlock("src/draw_target.rs", "AddAssign for VisualLines", VL_ADDASSIGN_SPEC),
        ImplBlock("src/draw_target.rs", "Sub for VisualLines", VL_SUB_SPEC),
        ImplBlock("src/draw_target.rs", "From for VisualLines", VL_FROM_SPEC),
        Raw(SPEC),
        Fn("src/draw_target.rs", "VisualLines", "saturating_add", ret="r",
           ensures=[("def", "r.0 as int == if self.0 + other.0 > usize::MAX { usize::MAX as int } else { self.0 + other.0 }")]),
        Fn("src/draw_target.rs", "VisualLines", "saturating_sub", ret="r",
           ensures=[("def", "r.0 as int == if self.0 >= other.0 { self.0 - other.0 } else { 0 }")]),
        Fn("src/draw_target.rs", "VisualLines", "as_usize", ret="r", ensures=[("def", "r == self.0")]),
        Raw(CEIL_LEMMA),
        Raw(HELPERS),
        Fn(**WRAPPED_HEIGHT),
        Fn("src/draw_target.rs", "LineType", "console_width", ret="r",
           rewrites=[Rw("R5", r"console::measure_text_width", "measure_text_width")],
           ensures=[("def", "r as nat == cols(line_str(*self))")]),
        Fn("src/draw_target.rs", "AsRef for LineType", "as_ref", ret="r",
           ensures=[("def", "r@ == line_str(*self)")],
           proofs=[(r"match self", "before", '        proof { reveal_strlit(""); }')]),
        Fn("src/draw_target.rs", None, "visual_line_count", ret="r",
           rewrites=[RwFn("R3b", r3_fold, count=1)],
           requires=[("width", "width >= 1"), ("no-overflow", "hts(lines@, width as nat, lines.len() as int) <= usize::MAX")],
           ensures=[("C19-visual-line-count", "r.0 as nat == hts(lines@, width as nat, lines.len() as int)")],
           loops={0: {"invariant": ["__f0 <= lines.len()", "width >= 1", "acc.0 as nat == hts(lines@, width as nat, __f0 as int)",
                                    "hts(lines@, width as nat, lines.len() as int) <= usize::MAX"],
                      "decreases": "lines.len() - __f0",
                      "body_start": "            proof { lemma_hts_mono(lines@, width as nat, __f0 as int + 1, lines.len() as int); }"}}),
        Fn("src/draw_target.rs", "DrawState", "draw_to_term", ret="res",
           sig_rewrites=[Rw("R10", r"&\(impl TermLike \+ \?Sized\)", "&mut Term"), K.IO_RESULT],
           rewrites=DRAW_RW,
           requires=[
               ("term-wf", "old(term)@.wf()"),
               ("u16-width", "old(term)@.w <= 65535"),
               ("line-widths", "lines_ok(old(self).lines@)"),
               ("heights-fit", "hts(old(self).lines@, old(term)@.w, old(self).lines.len() as int) + old(bar_count).0 <= 0x7FFF_FFFF"),
           ],
           ensures=[
               ("frame-lines", "final(self).lines@ == old(self).lines@ && final(self).move_cursor == old(self).move_cursor && final(self).alignment == old(self).alignment"),
               ("C18-error-keeps-count", "res.is_err() ==> *final(bar_count) == *old(bar_count)", ["C18"]),
               ("geometry", "final(term)@.same_geom(old(term)@) && final(term)@.wf()"),
               ("C18-errors-reported", "res.is_ok() ==> final(term)@.errs == old(term)@.errs", ["C18"]),
               ("one-flush", "res.is_ok() ==> final(term)@.flushed == old(term)@.flushed + 1"),
               ("C03-rows-above-untouched",
                "res.is_ok() && !cr_hazard(*old(self), old(term)@, old(bar_count).0 as int) ==> forall|p: int| p < frame_start(old(term)@, old(bar_count).0 as int) ==> (#[trigger] (final(term)@.cells)(p)) == (old(term)@.cells)(p)",
                ["C01", "C03", "C19"]),
               ("C01-content",
                "res.is_ok() && old(self).alignment is Top && layout_pre(*old(self), old(term)@, old(bar_count).0 as int) && !first_line_hazard(*old(self), old(term)@, old(bar_count).0 as int) ==> "
                "forall|p: int| p >= frame_start(old(term)@, old(bar_count).0 as int) ==> cell_ok(#[trigger] (final(term)@.cells)(p), old(self).lines@, old(term)@.w, "
                "frame_start(old(term)@, old(bar_count).0 as int), stop(old(self).lines@, old(term)@.w, old(term)@.h, 0), p)"),
               ("C01-cursor-rest",
                "res.is_ok() && old(self).alignment is Top && layout_pre(*old(self), old(term)@, old(bar_count).0 as int) && !first_line_hazard(*old(self), old(term)@, old(bar_count).0 as int) "
                "&& old(self).lines@.len() > 0 && stop(old(self).lines@, old(term)@.w, old(term)@.h, 0) == old(self).lines@.len() ==> "
                "final(term)@.col == old(term)@.w && final(term)@.lin() == frame_start(old(term)@, old(bar_count).0 as int) + hts(old(self).lines@, old(term)@.w, old(self).lines@.len() as int) * old(term)@.w"),
               ("C01-cleared-frame-leaves-nothing",
                "res.is_ok() && old(self).alignment is Top && layout_pre(*old(self), old(term)@, old(bar_count).0 as int) && old(self).lines@.len() == 0 ==> "
                "blank_from(final(term)@, frame_start(old(term)@, old(bar_count).0 as int)) && final(term)@.lin() == frame_start(old(term)@, old(bar_count).0 as int) && final(bar_count).0 == 0",
                ["C01", "C04"]),
               ("C19-rows-accounted",
                "res.is_ok() && old(self).alignment is Top ==> final(bar_count).0 as nat == rh(old(self).lines@, old(term)@.w, stop(old(self).lines@, old(term)@.w, old(term)@.h, 0))"),
               ("rows-bounded", "res.is_ok() ==> final(bar_count).0 <= hts(old(self).lines@, old(term)@.w, old(self).lines@.len() as int) + old(bar_count).0"),
               ("C19-never-taller-than-terminal", "res.is_ok() && old(self).alignment is Top ==> final(bar_count).0 as nat <= old(term)@.h"),
               # any alignment: what is painted is text lines, padding rows (Bottom alignment keeps the region height), bar lines
               ("C19-C02-rows-accounted-with-padding",
                "res.is_ok() ==> final(bar_count).0 as nat == rh(vl_of(*old(self), old(term)@, old(bar_count).0 as int), old(term)@.w, stop(vl_of(*old(self), old(term)@, old(bar_count).0 as int), old(term)@.w, old(term)@.h, 0)) + pad_of(old(self).lines@, old(self).alignment, old(term)@.w, old(bar_count).0 as int)"),
               ("C02-C03-content-with-padding",
                "res.is_ok() && layout_pre(*old(self), old(term)@, old(bar_count).0 as int) && !first_line_hazard(*old(self), old(term)@, old(bar_count).0 as int) ==> forall|p: int| p >= frame_start(old(term)@, old(bar_count).0 as int) ==> cell_ok(#[trigger] (final(term)@.cells)(p), vl_of(*old(self), old(term)@, old(bar_count).0 as int), old(term)@.w, "
                "frame_start(old(term)@, old(bar_count).0 as int), stop(vl_of(*old(self), old(term)@, old(bar_count).0 as int), old(term)@.w, old(term)@.h, 0), p)"),
               ("C03-C02-text-stays-above-the-region",
                "res.is_ok() && layout_pre(*old(self), old(term)@, old(bar_count).0 as int) && !first_line_hazard(*old(self), old(term)@, old(bar_count).0 as int) && text_first(old(self).lines@) && vl_of(*old(self), old(term)@, old(bar_count).0 as int).len() > 0 && stop(vl_of(*old(self), old(term)@, old(bar_count).0 as int), old(term)@.w, old(term)@.h, 0) == vl_of(*old(self), old(term)@, old(bar_count).0 as int).len() ==> "
                "frame_start(final(term)@, final(bar_count).0 as int) == frame_start(old(term)@, old(bar_count).0 as int) + hts(old(self).lines@, old(term)@.w, tc(old(self).lines@)) * old(term)@.w"),
           ],
           findings=[
               ("C19-clipped-frame-cursor-rest",
                "res.is_ok() && old(self).alignment is Top && layout_pre(*old(self), old(term)@, old(bar_count).0 as int) && !first_line_hazard(*old(self), old(term)@, old(bar_count).0 as int) "
                "&& stop(old(self).lines@, old(term)@.w, old(term)@.h, 0) > 0 ==> final(term)@.col == old(term)@.w",
                ["C19", "C01", "C04", "C02"], "a frame cut at the terminal height ends without the filler: the cursor stays right behind the last painted line instead of at the end of its row"),
               ("C03-frame-in-cursor-moving-mode",
                "res.is_ok() ==> forall|p: int| p < frame_start(old(term)@, old(bar_count).0 as int) ==> (#[trigger] (final(term)@.cells)(p)) == (old(term)@.cells)(p)",
                ["C03"], "in cursor-moving mode with no rows painted before, the carriage return lands on the line above the region"),
               ("C01-first-line-advance",
                "res.is_ok() && old(self).alignment is Top && layout_pre(*old(self), old(term)@, old(bar_count).0 as int) ==> "
                "forall|p: int| p >= frame_start(old(term)@, old(bar_count).0 as int) ==> cell_ok(#[trigger] (final(term)@.cells)(p), old(self).lines@, old(term)@.w, "
                "frame_start(old(term)@, old(bar_count).0 as int), stop(old(self).lines@, old(term)@.w, old(term)@.h, 0), p)",
                ["C01", "C03"], "a zero-width first line painted from the pending-wrap column does not advance a row"),
           ],
           proofs=[
               (r"term\.clear_line\(\)\?;", "after", """                proof {
                    assert((i + 1) * t0.w == i * t0.w + t0.w) by (nonlinear_arith);
                    assert forall|p: int| p >= start + (i + 1) * t0.w implies (#[trigger] (term@.cells)(p)) == (t0.cells)(p) by { }
                    assert forall|p: int| start <= p < start + (i + 1) * t0.w implies (#[trigger] (term@.cells)(p)) is Blank by { }
                }"""),
               (r"if panicking\(\)", "before", """        let ghost t0 = term@;
        let ghost n0 = bar_count.0 as int;
        let ghost start = frame_start(t0, n0);
        let ghost lines0 = self.lines@;
        let ghost lp = layout_pre(*self, t0, n0);
        let ghost good = lp && !first_line_hazard(*self, t0, n0);"""),
               (r"term\.write_str\(\"\\r\"\)\?;", "before", """            proof { reveal_strlit("\\r"); assert("\\r"@ =~= seq!['\\r']); }"""),
               (r"let term_width = term\.width\(\) as usize;", "before", """        let ghost hazard = cr_hazard(*self, t0, n0);
        assert(!hazard ==> term@.lin() >= start) by {
            if n0 >= 1 { assert(term@.row == t0.row - (n0 - 1)); assert(term@.col == 0); }
        }
        assert(forall|p: int| p < start ==> (#[trigger] (term@.cells)(p)) == (t0.cells)(p));
        assert(lp ==> blank_from(term@, start)) by {
            if lp {
                assert(n0 >= 1 ==> start + n0 * t0.w == (t0.row + 1) * t0.w) by (nonlinear_arith) requires start == (if n0 >= 1 { (t0.row - (n0 - 1)) * t0.w } else { t0.lin() });
                assert forall|p: int| p >= start implies blankish(#[trigger] (term@.cells)(p)) by {
                    if p >= start + n0 * t0.w { assert(blankish((t0.cells)(p))); }
                }
            }
        }
        assert(lp ==> term@.lin() == start && (term@.col == 0 || (n0 == 0 && term@.col == t0.w)));
        // the frame starts on a row boundary: start == brow * w
        let ghost brow: int = if n0 >= 1 { t0.row - (n0 - 1) } else if t0.col == 0 { t0.row } else { t0.row + 1 };
        assert(lp ==> start == brow * t0.w) by {
            assert((t0.row + 1) * t0.w == t0.row * t0.w + t0.w) by (nonlinear_arith);
        }"""),
               (r"let full_height = ", "before", """        proof {
            lemma_tcount(lines0, 0);
            lemma_hts_split(lines0, t0.w, tc(lines0), lines0.len() - tc(lines0));
        }"""),
               (r"let count = self\.lines\.len\(\) \+ padding\.len\(\);", "before", """        proof { lemma_hts_at_least_len(lines0, t0.w, lines0.len() as int); }"""),
               (r"let count = self\.lines\.len\(\) \+ padding\.len\(\);", "after", """        let ghost vl0 = vlines(lines0, shift.0 as nat);
        proof {
            assert(shift.0 as nat == pad_of(lines0, self.alignment, t0.w, n0));
            lemma_vlines_ok(lines0, shift.0 as nat);
            lemma_vlines_hts(lines0, shift.0 as nat, t0.w);
            if shift.0 == 0 { lemma_vlines_nopad(lines0); }
            assert(text@ + padding@ + bars@ =~= vl0);
        }"""),
               (r"(?m)^\s*Ok\(\(\)\)\s*$", "before", """        proof {
            if good && text_first(lines0) && vl0.len() > 0 && __n0 == vl0.len() {
                let t = tc(lines0);
                let pad = shift.0 as int;
                let hh = hts(vl0, t0.w, vl0.len() as int);
                assert forall|i: int| t + pad <= i < vl0.len() implies is_bar(#[trigger] vl0[i]) by { assert(vl0[i] == lines0[i - pad]); }
                lemma_rh_bars(vl0, t0.w, t + pad, vl0.len() as int);
                let n1 = bar_count.0 as int;
                assert(hh - n1 == hts(lines0, t0.w, t));
                assert(term@.row == brow + hh - 1) by (nonlinear_arith)
                    requires term@.row * t0.w + term@.col == start + hh * t0.w, start == brow * t0.w, term@.col == t0.w, t0.w >= 1;
                if n1 >= 1 {
                    assert((term@.row - (n1 - 1)) * t0.w == start + hts(lines0, t0.w, t) * t0.w) by (nonlinear_arith)
                        requires term@.row == brow + hh - 1, hh - n1 == hts(lines0, t0.w, t), start == brow * t0.w;
                }
            }
        }"""),
               (r"term\.flush\(\)", "after", """        proof {
            lemma_stop(vl0, t0.w, t0.h, 0, __n0 as int);
            lemma_rh_le_hts(vl0, t0.w, __n0 as int);
            lemma_hts_mono(vl0, t0.w, __n0 as int, vl0.len() as int);
            // rows-bounded: the bars painted are at most the rows of the frame, the padding at most the old region
            lemma_tcount(lines0, 0);
            if __n0 as int >= tc(lines0) + shift.0 {
                lemma_rh_le_from(vl0, t0.w, tc(lines0) + shift.0, __n0 as int);
            } else {
                assert forall|i: int| 0 <= i < __n0 implies !is_bar(#[trigger] vl0[i]) by {
                    if i < tc(lines0) { assert(vl0[i] == lines0[i]); } else { assert(vl0[i] == LineType::Empty); }
                }
                lemma_rh_text(vl0, t0.w, __n0 as int);
            }
        }"""),
               (r"let mut real_height = VisualLines::default\(\);", "before", """        proof {
            if good {
                reveal_with_fuel(owner, 1);
                assert forall|p: int| p >= start implies cell_ok(#[trigger] (term@.cells)(p), vl0, t0.w, start, 0, p) by {
                    assert(owner(vl0, t0.w, start, 0, p) == -1);
                    assert(blankish((term@.cells)(p)));
                }
            }
        }"""),
               (r"if idx != 0 \{", "after", "                let ghost tb = term@;"),
               (r"term\.write_line\(\"\"\)\?;\n\s*\}\n\n\s*term\.write_str\(line\.as_ref\(\)\)", "at", """term.write_line("")?;
                proof {
                    reveal_strlit(""); assert(""@ =~= Seq::<char>::empty()); axiom_cols_empty(); lemma_not_cr(0);
                    assert((tb.row + 1) * tb.w >= tb.row * tb.w + tb.col) by (nonlinear_arith) requires tb.col <= tb.w;
                    if good {
                        // the cursor moves from the last row of line idx-1 to the first cell of line idx
                        let k = idx as int - 1;
                        let c = lcols(vl0, k);
                        let rr = brow + hts(vl0, t0.w, k);
                        lemma_pos_next(vl0, t0.w, start, k);
                        assert(pos(vl0, t0.w, start, k) == rr * t0.w) by (nonlinear_arith)
                            requires pos(vl0, t0.w, start, k) == start + hts(vl0, t0.w, k) * t0.w, start == brow * t0.w, rr == brow + hts(vl0, t0.w, k);
                        assert(term@.row == tb.row + 1 && term@.col == 0 && term@.cells == tb.cells);
                        if c > 0 {
                            lemma_row_after_write(rr, t0.w, c, tb.row, tb.col);
                            assert(height_of(vl0[k], t0.w) == ceil_div(c, t0.w));
                        } else {
                            assert(tb.row == rr) by (nonlinear_arith) requires tb.row * t0.w + 0 == rr * t0.w, t0.w >= 1;
                            lemma_height_covers(c, t0.w);
                            assert(ceil_div(0, t0.w) == 0) by (nonlinear_arith) requires t0.w >= 1, ceil_div(0, t0.w) == ((0 + t0.w - 1) / (t0.w as int)) as nat;
                            assert(height_of(vl0[k], t0.w) == 1);
                        }
                        assert(term@.lin() == pos(vl0, t0.w, start, idx as int)) by (nonlinear_arith)
                            requires term@.lin() == term@.row * t0.w + term@.col, term@.col == 0, term@.row == rr + height_of(vl0[k], t0.w),
                                     pos(vl0, t0.w, start, idx as int) == rr * t0.w + height_of(vl0[k], t0.w) * t0.w;
                    }
                }
            }
            proof {
                if good {
                    if idx == 0 { assert(hts(vl0, t0.w, 0) == 0); assert(0 * (t0.w as int) == 0); }
                    assert(term@.lin() == pos(vl0, t0.w, start, idx as int));
                }
            }
            let ghost tw = term@;

            term.write_str(line.as_ref())"""),
               (r"term\.write_str\(line\.as_ref\(\)\)\?;", "after", """            proof {
                if good {
                    let i = idx as int;
                    let pi = pos(vl0, t0.w, start, i);
                    let c = lcols(vl0, i);
                    lemma_pos_next(vl0, t0.w, start, i);
                    reveal_with_fuel(owner, 1);
                    assert forall|p: int| p >= start implies cell_ok(#[trigger] (term@.cells)(p), vl0, t0.w, start, i + 1, p) by {
                        if pi <= p < pi + c {
                            assert(owner(vl0, t0.w, start, i + 1, p) == i);
                        } else {
                            assert(owner(vl0, t0.w, start, i + 1, p) == owner(vl0, t0.w, start, i, p));
                            assert((term@.cells)(p) == (tw.cells)(p));
                            assert(cell_ok((tw.cells)(p), vl0, t0.w, start, i, p));
                        }
                    }
                    // cursor after the text of line idx
                    if c == 0 {
                        // a zero-width first line is only reached with the cursor in column 0 (no hazard)
                        assert(term@.col == tw.col && term@.row == tw.row);
                        if idx == 0 { assert(n0 == 0 ==> tw.col == t0.col); }
                        assert(tw.col == 0);
                    }
                    assert(cur_after(term@, vl0, t0.w, start, i));
                }
            }"""),
               (r"let last_line_filler = ", "before", """                proof {
                    assert(line_height.0 as int * term_width as int <= 281470681808895int) by (nonlinear_arith)
                        requires line_height.0 as int <= 0x1_0000_0001, term_width as int <= 65535, line_height.0 as int >= 0, term_width as int >= 0;
                    assert(line_height.0 as nat == height_of(vl0[idx as int], t0.w));
                    assert(line_height.0 * term_width >= cols(line_str(vl0[idx as int])));
                    axiom_cols_spaces((line_height.0 * term_width - cols(line_str(vl0[idx as int]))) as nat);
                    lemma_not_cr((line_height.0 * term_width - cols(line_str(vl0[idx as int]))) as nat);
                }
                let ghost tf = term@;"""),
               (r"term\.write_str\(repeat_space\(last_line_filler\)\.as_str\(\)\)\?;", "after", """                proof {
                    if good {
                        let i = idx as int;
                        let pi = pos(vl0, t0.w, start, i);
                        let c = lcols(vl0, i);
                        let f = (line_height.0 * term_width - c) as nat;
                        lemma_pos_next(vl0, t0.w, start, i);
                        assert(tf.lin() == pi + c);
                        assert(is_spaces(spaces(f)));
                        assert forall|p: int| p >= start implies cell_ok(#[trigger] (term@.cells)(p), vl0, t0.w, start, i + 1, p) by {
                            if tf.lin() <= p < tf.lin() + f {
                                lemma_owner_none(vl0, t0.w, start, i + 1, p);
                            } else {
                                assert((term@.cells)(p) == (tf.cells)(p));
                            }
                        }
                        // the cursor rests in the pending-wrap column of the last row of the frame
                        let rr = brow + hts(vl0, t0.w, i);
                        let h = height_of(vl0[i], t0.w);
                        assert(pi + c + f == (rr + h) * t0.w) by (nonlinear_arith)
                            requires pi == start + hts(vl0, t0.w, i) * t0.w, start == brow * t0.w, rr == brow + hts(vl0, t0.w, i), c + f == h * t0.w;
                        assert(term@.lin() == pi + c + f && 1 <= term@.col <= t0.w) by {
                            if f > 0 { } else { assert(c > 0); }
                        }
                        assert(term@.col == t0.w) by (nonlinear_arith)
                            requires term@.row * t0.w + term@.col == (rr + h) * t0.w, 1 <= term@.col <= t0.w, t0.w >= 1;
                        assert(hts(vl0, t0.w, i + 1) == hts(vl0, t0.w, i) + h);
                        assert(term@.lin() == start + hts(vl0, t0.w, vl0.len() as int) * t0.w) by (nonlinear_arith)
                            requires term@.lin() == (rr + h) * t0.w, rr == brow + hts(vl0, t0.w, i), start == brow * t0.w,
                                     hts(vl0, t0.w, vl0.len() as int) == hts(vl0, t0.w, i) + h;
                        // cur_after still describes the cursor relative to line idx? no: it is past the filler; the
                        // loop ends here, the invariant for the next head is the rest clause
                    }
                }"""),
               (r"let line_height = line\.wrapped_height\(term_width\);", "after", """            proof {
                lemma_rh_le_hts(vl0, t0.w, idx as int);
                lemma_hts_mono(vl0, t0.w, idx as int + 1, vl0.len() as int);
                lemma_height_covers(cols(line_str(vl0[idx as int])), t0.w);
                assert(cols(line_str(vl0[idx as int])) <= 0xFFFF_FFFF);
                assert(line_height.0 <= 0x1_0000_0001);
            }"""),
           ],
           loops={
               # clear loop
               0: {"invariant": INV_COMMON + INV_FRAME + [
                       "i >= 1 ==> term@.col == 0",
                       "n0 == 0 ==> (term@.row == t0.row && term@.col == t0.col)",
                       "n == n0", "n0 >= 1 ==> term@.row == t0.row - (n0 - 1) + i - (if i == n { 1int } else { 0 })",
                       "forall|p: int| start <= p < start + i * t0.w ==> (#[trigger] (term@.cells)(p)) is Blank",
                       "forall|p: int| p >= start + i * t0.w ==> (#[trigger] (term@.cells)(p)) == (t0.cells)(p)"],
                   "body_start": """                proof {
                    assert(n0 >= 1);
                    assert((t0.row - (n0 - 1) + i) * t0.w >= (t0.row - (n0 - 1)) * t0.w) by (nonlinear_arith) requires i >= 0, t0.w >= 1;
                }
                assert(term@.row * term@.w >= start);
                assert(term@.row * term@.w == start + i * t0.w && (term@.row + 1) * term@.w == start + (i + 1) * t0.w) by (nonlinear_arith)
                    requires term@.row == t0.row - (n0 - 1) + i, start == (t0.row - (n0 - 1)) * t0.w, term@.w == t0.w;"""},
               # paint loop
               1: {"invariant": INV_COMMON + INV_FRAME_H + [
                       "__n0 <= __vl.len()", "self.lines@ == lines0", "lines_ok(vl0)", "__vl@.len() == vl0.len()", "count == vl0.len()",
                       "forall|i: int| 0 <= i < vl0.len() ==> *(#[trigger] __vl@[i]) == vl0[i]", "n0 == 0 ==> vl0 == lines0", "term_width as nat == t0.w", "t0.w <= 65535",
                       "real_height.0 as nat == rh(vl0, t0.w, __n0 as int)", "real_height.0 as nat <= t0.h",
                       "forall|k: int| 0 <= k < __n0 ==> !brk(vl0, t0.w, t0.h, k)",
                       "hts(vl0, t0.w, vl0.len() as int) <= 0x7FFF_FFFF",
                       "good == (lp && !first_line_hazard(*self, t0, n0))", "lp == layout_pre(*self, t0, n0)",
                       "good ==> start == brow * t0.w",
                       "good ==> forall|p: int| p >= start ==> cell_ok(#[trigger] (term@.cells)(p), vl0, t0.w, start, __n0 as int, p)",
                       "good && __n0 == 0 ==> term@.lin() == start && (term@.col == 0 || (n0 == 0 && term@.col == t0.w))",
                       "good && __n0 > 0 && __n0 < vl0.len() ==> cur_after(term@, vl0, t0.w, start, __n0 - 1)",
                       "good && __n0 == 0 && n0 == 0 ==> term@.col == t0.col",
                       "good && __n0 > 0 && __n0 == vl0.len() ==> term@.col == t0.w && term@.lin() == start + hts(vl0, t0.w, vl0.len() as int) * t0.w"],
                   "ensures": [
                       "good ==> forall|p: int| p >= start ==> cell_ok(#[trigger] (term@.cells)(p), vl0, t0.w, start, __n0 as int, p)",
                       "good && __n0 > 0 && __n0 == vl0.len() ==> term@.col == t0.w && term@.lin() == start + hts(vl0, t0.w, vl0.len() as int) * t0.w",
                       "good && vl0.len() == 0 ==> term@.lin() == start",
                       "__n0 <= __vl.len()", "self.lines@ == lines0", "__vl@.len() == vl0.len()",
                       "__n0 == vl0.len() || brk(vl0, t0.w, t0.h, __n0 as int)",
                       "term@.wf()", "term@.same_geom(t0)", "term@.flushed == t0.flushed", "term@.errs == t0.errs",
                       "!hazard ==> forall|p: int| p < start ==> (#[trigger] (term@.cells)(p)) == (t0.cells)(p)",
                       "real_height.0 as nat == rh(vl0, t0.w, __n0 as int)", "real_height.0 as nat <= t0.h",
                       "forall|k: int| 0 <= k < __n0 ==> !brk(vl0, t0.w, t0.h, k)"],
                   "decreases": "__vl.len() - __n0"},
           }),
    ],
)

# property tags per clause (a failed clause raises the alarm of the properties it serves)
_TAGS = {"C01-content": ["C01", "C19"], "C01-cursor-rest": ["C01"], "C01-cleared-frame-leaves-nothing": ["C01", "C19"],
         "C19-rows-accounted": ["C19", "C01", "C03"], "C19-never-taller-than-terminal": ["C19"],
         "one-flush": ["C01", "C04"], "frame-lines": ["C01", "C03", "C18", "C19"], "geometry": ["C01", "C03", "C18", "C19"]}
for _it in UNIT.items:
    if getattr(_it, "name", "") == "draw_to_term":
        for _c in _it.ensures:
            if _c.props is None and _c.label in _TAGS:
                _c.props = _TAGS[_c.label]

# ---- the contract of draw_to_term as spec predicates (same clause text), for the units that use
# draw_to_term as a stubbed callee
DTT = [it for it in UNIT.items if getattr(it, "name", "") == "draw_to_term"][0]


def _subst(e):
    for a, b in [(r"\*old\(self\)", "s0"), (r"\*final\(self\)", "s1"), (r"old\(self\)", "s0"), (r"final\(self\)", "s1"),
                 (r"old\(term\)@", "t0"), (r"final\(term\)@", "t1"),
                 (r"\*old\(bar_count\)", "n0"), (r"\*final\(bar_count\)", "n1"), (r"old\(bar_count\)", "n0"), (r"final\(bar_count\)", "n1")]:
        e = re.sub(a, b, e)
    return e


DTT_PRED = ("spec fn dtt_pre(s0: DrawState, t0: GTerm, n0: VisualLines) -> bool {\n"
            + "".join("    &&& (%s)\n" % _subst(c.expr) for c in DTT.requires) + "}\n"
            + "spec fn dtt_post(s0: DrawState, s1: DrawState, t0: GTerm, t1: GTerm, n0: VisualLines, n1: VisualLines, res: Result<(), IoError>) -> bool {\n"
            + "".join("    &&& (%s)\n" % _subst(c.expr) for c in DTT.ensures) + "}\n")
DTT_STUB = dict(file="src/draw_target.rs", container="DrawState", name="draw_to_term", ret="res", stub=True,
                sig_rewrites=DTT.sig_rewrites,
                requires=[("pre", "dtt_pre(*old(self), old(term)@, *old(bar_count))")],
                ensures=[("post", "dtt_post(*old(self), *final(self), old(term)@, final(term)@, *old(bar_count), *final(bar_count), res)"),
                         ("ops", "true")])
