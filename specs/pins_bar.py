"""Public API glue of a single bar that is outside the units (constructors, builders, thin forwarding
methods with generic closures or trait objects): pinned by hash.  A change makes this unit undecided and the
bounded routines on the real code decide (violation with a replayable input, or undecided)."""
from vlib.unit import Unit, Lemma

UNIT = Unit(
    name="pins_bar",
    properties=["C01", "C03", "C04", "C05", "C06", "C09", "C18"],
    prelude=[],
    trusted=["no function is verified in this unit: it only pins source text (specs/stub_baseline.json)"],
    items=[Lemma("pins_present", "()", ensures=[("pinned-api-glue-unchanged", "true")], body="{}", no_canary=True)],
)
PB = "src/progress_bar.rs"
UNIT.pinned = [(PB, "ProgressBar", n) for n in
               ["new", "no_length", "hidden", "with_draw_target", "with_style", "with_position", "with_finish", "with_elapsed", "new_spinner",
                "suspend", "update", "index", "state",
                "enable_steady_tick", "disable_steady_tick", "stop_and_replace_ticker"]] + [
    ("src/state.rs", "BarState", "new"), ("src/state.rs", "BarState", "update"), ("src/state.rs", "ProgressState", "new"),
    ("src/draw_target.rs", "ProgressDrawTarget", "term"),
    ("src/draw_target.rs", "ProgressDrawTarget", "stdout"), ("src/draw_target.rs", "ProgressDrawTarget", "stderr"),
    ("src/draw_target.rs", "ProgressDrawTarget", "stdout_with_hz"), ("src/draw_target.rs", "ProgressDrawTarget", "stderr_with_hz"),
    # the forwarding of TermLike to console::Term (the ghost terminal is the contract of TermLike; a real tty is not available here)
    ] + [("src/term_like.rs", "TermLike for Term", n) for n in ["width", "height", "move_cursor_up", "move_cursor_down", "move_cursor_right", "move_cursor_left", "write_line", "write_str", "clear_line", "flush"]] + [
    # the steady-tick thread: what it does to the bar between ticks (C08 is not applicable, but C18 / C04 / C07 quantify over bars with a ticker)
    ("src/progress_bar.rs", "TickerControl", "run"), ("src/progress_bar.rs", "Ticker", "new"), ("src/progress_bar.rs", "Ticker", "stop"),
    ("src/draw_target.rs", "std::ops::Deref for DrawStateWrapper", "deref"), ("src/draw_target.rs", "std::ops::DerefMut for DrawStateWrapper", "deref_mut"),
]
