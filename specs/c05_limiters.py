"""C05 -- redraw throttling.  RateLimiter::{new, allow} (src/draw_target.rs) and
AtomicPosition::allow (src/state.rs) against the token-bucket law of the property statement,
plus the window / staleness lemmas over spec-level call traces."""
from vlib.unit import Unit, Fn, Decl, Raw, Lemma, Rw
from specs import contracts as K

TRACE = r"""
// ---- call histories: ts = request times, ss = bucket states (ss[k] before call k), rs = results
spec fn valid_trace(ts: Seq<int>, ss: Seq<LS>, rs: Seq<bool>, I: int, B: int) -> bool {
    &&& ss.len() == ts.len() + 1
    &&& rs.len() == ts.len()
    &&& ts.len() >= 1
    &&& ss[0].prev <= ts[0]
    &&& forall|k: int| 0 <= k < ts.len() ==> #[trigger] step(ss[k], ts[k], ss[k + 1], rs[k], I)
    &&& forall|k: int| 0 <= k < ts.len() && rs[k] ==> #[trigger] burst_ok(ss[k + 1], ts[k], I, B)
    &&& forall|k: int| 0 <= k < ts.len() - 1 ==> #[trigger] ts[k] <= ts[k + 1]
}
spec fn spent(rs: Seq<bool>, i: int, j: int, I: int) -> int decreases j - i {
    if i >= j { 0 } else { (if rs[i] { I } else { 0 }) + spent(rs, i + 1, j, I) }
}
spec fn count(rs: Seq<bool>, i: int, j: int) -> int decreases j - i {
    if i >= j { 0 } else { (if rs[i] { 1int } else { 0int }) + count(rs, i + 1, j) }
}
"""

LEMMAS = [
    Lemma("prev_le_time", "(ts: Seq<int>, ss: Seq<LS>, rs: Seq<bool>, I: int, B: int, k: int)",
          requires=[("h", "valid_trace(ts, ss, rs, I, B)"), ("k", "0 <= k < ts.len()")],
          ensures=[("prev", "ss[k].prev <= ts[k]")],
          decreases="k",
          body=r"""{
    if k > 0 {
        prev_le_time(ts, ss, rs, I, B, k - 1);
        assert(step(ss[k - 1], ts[k - 1], ss[k], rs[k - 1], I));
        assert(ts[k - 1] <= ts[k]);
    }
}"""),
    Lemma("conserve", "(ts: Seq<int>, ss: Seq<LS>, rs: Seq<bool>, I: int, B: int, i: int, j: int)",
          requires=[("h", "valid_trace(ts, ss, rs, I, B)"), ("ij", "0 <= i < j <= ts.len()"), ("I", "I > 0")],
          ensures=[("credit-conservation",
                    "spent(rs, i, j, I) + credit(ss[j], ts[j - 1], I) <= credit(ss[i], ts[i], I) + (ts[j - 1] - ts[i])")],
          decreases="j - i",
          body=r"""{
    prev_le_time(ts, ss, rs, I, B, i);
    assert(step(ss[i], ts[i], ss[i + 1], rs[i], I));
    if j == i + 1 {
        assert(spent(rs, i + 1, j, I) == 0);
    } else {
        conserve(ts, ss, rs, I, B, i + 1, j);
        assert(ts[i] <= ts[i + 1]);
    }
}"""),
    Lemma("window_spent", "(ts: Seq<int>, ss: Seq<LS>, rs: Seq<bool>, I: int, B: int, i: int, j: int)",
          requires=[("h", "valid_trace(ts, ss, rs, I, B)"), ("ij", "0 <= i < j <= ts.len()"), ("I", "I > 0"), ("B", "B >= 1")],
          ensures=[("window", "spent(rs, i, j, I) < (B + 1) * I + (ts[j - 1] - ts[i])")],
          decreases="j - i",
          body=r"""{
    assert((B + 1) * I == B * I + I) by (nonlinear_arith);
    assert(B * I >= I) by (nonlinear_arith) requires B >= 1, I > 0;
    mono(ts, ss, rs, I, B, i, j - 1);
    if !rs[i] {
        if j == i + 1 {
            assert(spent(rs, i + 1, j, I) == 0);
        } else {
            window_spent(ts, ss, rs, I, B, i + 1, j);
            assert(ts[i] <= ts[i + 1]);
        }
    } else {
        // first paint of the window: afterwards less than B intervals of credit are left
        assert(burst_ok(ss[i + 1], ts[i], I, B));
        assert(step(ss[i], ts[i], ss[i + 1], rs[i], I));
        prev_le_time(ts, ss, rs, I, B, i);
        if j == i + 1 {
            assert(spent(rs, i + 1, j, I) == 0);
        } else {
            conserve(ts, ss, rs, I, B, i + 1, j);
            assert(ts[i] <= ts[i + 1]);
            prev_le_time(ts, ss, rs, I, B, j - 1);
            // credit at the end is non-negative
            assert(step(ss[j - 1], ts[j - 1], ss[j], rs[j - 1], I));
            assert(ss[j].cap * I >= 0) by (nonlinear_arith) requires I > 0;
            assert(credit(ss[j], ts[j - 1], I) >= 0);
        }
    }
}"""),
    Lemma("mono", "(ts: Seq<int>, ss: Seq<LS>, rs: Seq<bool>, I: int, B: int, i: int, j: int)",
          requires=[("h", "valid_trace(ts, ss, rs, I, B)"), ("ij", "0 <= i <= j < ts.len()")],
          ensures=[("mono", "ts[i] <= ts[j]")],
          decreases="j - i",
          body=r"""{
    if i < j { mono(ts, ss, rs, I, B, i, j - 1); assert(ts[j - 1] <= ts[j]); }
}"""),
    Lemma("spent_is_count", "(rs: Seq<bool>, i: int, j: int, I: int)",
          requires=[("ij", "0 <= i <= j <= rs.len()")],
          ensures=[("eq", "spent(rs, i, j, I) == count(rs, i, j) * I"), ("nonneg", "count(rs, i, j) >= 0")],
          decreases="j - i",
          body=r"""{
    if i < j {
        spent_is_count(rs, i + 1, j, I);
        let c = count(rs, i + 1, j);
        assert((c + 1) * I == c * I + I) by (nonlinear_arith);
        assert(c * I == c * I + 0);
    } else {
        assert(count(rs, i, j) == 0);
        assert(0 * I == 0) by (nonlinear_arith);
    }
}"""),
    # The statement of C05, first sentence: in every window of length T at most 20 + R*T + 1 frames.
    Lemma("window_frames", "(ts: Seq<int>, ss: Seq<LS>, rs: Seq<bool>, I: int, B: int, R: int, i: int, j: int)",
          requires=[("h", "valid_trace(ts, ss, rs, I, B)"), ("ij", "0 <= i < j <= ts.len()"), ("I", "I > 0"), ("B", "B >= 1"),
                    ("R", "R >= 1"), ("rate", "I * R >= 1_000_000_000")],   # (f): the interval is at least 1 s / R  (ns)
          ensures=[("C05-window",
                    "(count(rs, i, j) - (B + 1)) * 1_000_000_000 < R * (ts[j - 1] - ts[i]) || count(rs, i, j) <= B + 1")],
          body=r"""{
    window_spent(ts, ss, rs, I, B, i, j);
    spent_is_count(rs, i, j, I);
    mono(ts, ss, rs, I, B, i, j - 1);
    let n = count(rs, i, j);
    let T = ts[j - 1] - ts[i];
    if n > B + 1 {
        let e = n - (B + 1);
        assert(e * I < T) by (nonlinear_arith) requires n * I < (B + 1) * I + T, e == n - (B + 1);
        assert(e * 1_000_000_000 <= e * (I * R)) by (nonlinear_arith) requires e >= 0, I * R >= 1_000_000_000;
        assert(e * (I * R) == (e * I) * R) by (nonlinear_arith);
        assert((e * I) * R < T * R) by (nonlinear_arith) requires e * I < T, R >= 1;
        assert(T * R == R * T) by (nonlinear_arith);
    }
}"""),
    # Second sentence: a request at least one interval after the last painted frame is painted,
    # however many refused requests lie in between.
    Lemma("staleness", "(ts: Seq<int>, ss: Seq<LS>, rs: Seq<bool>, I: int, B: int, p: int, k: int)",
          requires=[("h", "valid_trace(ts, ss, rs, I, B)"), ("pk", "0 <= p < k < ts.len()"), ("I", "I > 0"),
                    ("painted", "rs[p]"), ("none-since", "forall|m: int| p < m < k ==> !rs[m]"),
                    ("late", "ts[k] - ts[p] >= I")],
          ensures=[("C05-staleness", "rs[k]")],
          body=r"""{
    prev_le_time(ts, ss, rs, I, B, p);
    assert(step(ss[p], ts[p], ss[p + 1], rs[p], I));
    frozen(ts, ss, rs, I, B, p + 1, k);
    assert(step(ss[k], ts[k], ss[k + 1], rs[k], I));
}"""),
    # connects RateLimiter::new's clause (ms) to the hypothesis `rate` of window_frames (ns)
    Lemma("rate_scale", "(iv: int, R: int)",
          requires=[("ms", "iv * R >= 1000"), ("R", "R >= 1")],
          ensures=[("ns", "(iv * 1_000_000) * R >= 1_000_000_000")],
          body="{ assert((iv * 1_000_000) * R == (iv * R) * 1_000_000) by (nonlinear_arith); }"),
    Lemma("frozen", "(ts: Seq<int>, ss: Seq<LS>, rs: Seq<bool>, I: int, B: int, a: int, k: int)",
          requires=[("h", "valid_trace(ts, ss, rs, I, B)"), ("ak", "0 <= a <= k < ts.len()"),
                    ("none", "forall|m: int| a <= m < k ==> !rs[m]")],
          ensures=[("same", "ss[k] == ss[a]")],
          decreases="k - a",
          body=r"""{
    if a < k { frozen(ts, ss, rs, I, B, a, k - 1); assert(step(ss[k - 1], ts[k - 1], ss[k], rs[k - 1], I)); }
}"""),
]

NL_ALLOW = r"""
        proof {
            let e = elapsed.ns(); let iv = self.interval as nat;
            assert((e / 1_000_000) / iv == e / (iv * 1_000_000)) by (nonlinear_arith) requires iv > 0;
            assert(e >= iv * 1_000_000 ==> e / (iv * 1_000_000) >= 1) by (nonlinear_arith) requires iv > 0;
            assert(e % (iv * 1_000_000) <= e) by (nonlinear_arith) requires iv > 0;
            assert(e % (iv * 1_000_000) < iv * 1_000_000) by (nonlinear_arith) requires iv > 0;
            assert(e == (iv * 1_000_000) * (e / (iv * 1_000_000)) + e % (iv * 1_000_000)) by (nonlinear_arith) requires iv > 0;
            assert(e / (iv * 1_000_000) <= e) by (nonlinear_arith) requires iv > 0;
            assert(iv * 1_000_000 <= 65_535_000_000) by (nonlinear_arith) requires iv <= 65535;
        }
"""

NL_ALLOW_POST = r"""
        proof {
            let iv = old(self).interval as int * 1_000_000;
            let q = elapsed.ns() as int / iv;
            let c0 = old(self).capacity as int;
            let c1 = self.capacity as int;
            assert(c1 <= c0 + q - 1);
            assert(c1 * iv <= (c0 + q - 1) * iv) by (nonlinear_arith) requires c1 <= c0 + q - 1, iv > 0;
            assert((c0 + q - 1) * iv == c0 * iv + iv * q - iv) by (nonlinear_arith);
            assert((c1 + 1) * iv == c1 * iv + iv) by (nonlinear_arith);
            assert(c1 + 1 <= 20 ==> (c1 + 1) * iv <= 20 * iv) by (nonlinear_arith) requires iv > 0;
        }
"""

ALLOW_REQ = [
    ("wf", "old(self).wf()"),
    ("time-range", "now.ns() - old(self).prev.ns() <= DURATION_MAX_NS()"),
]

UNIT = Unit(
    name="c05_limiters",
    properties=["C05"],
    prelude=["time", "atomics"],
    trusted=[
        "std::time shim (prelude/time.rs): Instant/Duration as natural-number nanoseconds; Instant - Instant requires lhs >= rhs",
        "portable_atomic shim (prelude/atomics.rs): atomics are plain cells (sequential semantics only)",
        "Instant::now(): arbitrary value (no monotonicity assumed by the code contracts)",
        "instants passed to allow() are within Duration::MAX of the limiter's reference time (requires time-range)",
    ],
    items=[
        Raw(K.INSTANT_NOW),
        Decl("src/draw_target.rs", "const", "MAX_BURST"),
        Decl("src/draw_target.rs", "struct", "RateLimiter"),
        Decl("src/state.rs", "struct", "AtomicPosition"),
        Decl("src/state.rs", "const", "INTERVAL"),
        Decl("src/state.rs", "const", "MAX_BURST", rewrites=[Rw("R1", r"\bMAX_BURST\b", "MAX_BURST_POS")]),
        Raw(K.LIMITER_SPEC), Raw(K.RATELIMITER_SPEC),
        Fn(**dict(K.RL_NEW,
           proofs=[(r"Self \{", "before", r"""
        proof {
            // division facts for the two usual roundings of 1000 / rate (hints only; the
            // clauses above do not mention how the interval is computed)
            let rr = rate as int;
            let q1 = 1000int / rr; let q2 = (999 + rr) / rr;
            assert(q1 * rr <= 1000 && (q1 + 1) * rr > 1000 && q1 >= 1) by (nonlinear_arith) requires q1 == 1000int / rr, 1 <= rr <= 255;
            assert(q2 * rr <= 999 + rr && (q2 + 1) * rr > 999 + rr && q2 >= 1) by (nonlinear_arith) requires q2 == (999 + rr) / rr, 1 <= rr <= 255;
            assert((q1 - 1) * rr == q1 * rr - rr && (q2 - 1) * rr == q2 * rr - rr && (q1 + 1) * rr == q1 * rr + rr && (q2 + 1) * rr == q2 * rr + rr) by (nonlinear_arith);
        }
""")])),
        Fn(**dict(K.RL_ALLOW, proofs=[(r"self\.capacity = Ord::min", "before", NL_ALLOW),
                                      (r"(?m)^\s*true\s*$", "before", NL_ALLOW_POST)])),
        Fn(**K.POS_ALLOW),
    ] + [Raw(TRACE)] + LEMMAS,
)
UNIT.items  # noqa
