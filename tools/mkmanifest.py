#!/usr/bin/env python3
"""Regenerate /verif/MANIFEST.json from specs/registry.py (single source of truth)."""
import json, os, sys, subprocess
ROOT = os.path.dirname(os.path.dirname(os.path.abspath(__file__)))
sys.path.insert(0, ROOT)
from specs import registry as reg

hooks_commits = subprocess.run(["git", "-C", "/repo", "log", "--format=%h %s", "--grep=^verif hooks"], capture_output=True, text=True).stdout.strip().splitlines()
checks = []
for pid in sorted(reg.PROPERTIES):
    c = reg.PROPERTIES[pid]
    if c.get("disabled"):
        continue
    checks.append({
        "property_id": pid,
        "quick_cmd": "./check %s --tier quick" % pid,
        "thorough_cmd": "./check %s --tier thorough" % pid,
        "evidence_file": "/verif/evidence/%s.json" % pid,
        "replay_cmd_template": "./check %s --replay {path}" % pid,
        "engine": c.get("engine", "verus-units"),
        "level_claimed": {"category": c.get("level", "proof"), "text": c["level_text"], "design_ref": c.get("design_ref", "DESIGN.md section 5, " + pid)},
        "level_note": c["level_note"],
        "technique": c.get("technique", "contract-based deductive verification (Verus) of functions extracted from /repo/src on every run"),
    })
na = list(reg.NOT_APPLICABLE)
claimed = {c["property_id"] for c in checks} | {n["property_id"] for n in na}
for line in open(os.path.join(ROOT, "properties.jsonl")):
    pid = json.loads(line)["id"]
    if pid not in claimed:
        na.append({"property_id": pid, "reason": "not claimed yet: no check built so far (work in progress, order of work in DESIGN.md section 8); nothing is asserted about this property"})
na.sort(key=lambda n: n["property_id"])
m = {
    "version": 1,
    "setup_cmd": "./setup.sh",
    "hooks": {
        "guard": "indicatif_verif (rustc --cfg) and cfg(kani)",
        "enable": "RUSTFLAGS='--cfg indicatif_verif' for the replay driver /verif/replay; cfg(kani) is set by `cargo kani`; the Verus units read /repo/src as text and need no hook",
        "baseline_off_cmd": "cd /repo && cargo test --workspace --no-fail-fast --offline",
        "source_commits": [l.split()[0] for l in hooks_commits],
        "add_only": True,
    },
    "engines": [
        {"name": "verus-units", "path": "/verif/vlib + /verif/specs", "serves_properties": sorted(p for p in reg.PROPERTIES if not reg.PROPERTIES[p].get("disabled")),
         "kind_free_text": "Python extractor cuts the functions under contract out of /repo/src on every run, applies a closed catalogue of syntax-directed rewrites, splices requires/ensures/invariants from /verif/specs and runs single-file Verus; diagnostics are mapped back to named obligations"},
        {"name": "kani-in-place", "path": "/verif/kani", "serves_properties": sorted(p for p in reg.PROPERTIES if reg.PROPERTIES[p].get("kani_quick") or reg.PROPERTIES[p].get("kani_thorough")),
         "kind_free_text": "Kani harness modules attached to the real crate through cfg(kani) #[path] hooks; loop-free full-domain harnesses are complete proofs, the rest are labelled bounded stand-ins"},
        {"name": "replay", "path": "/verif/replay", "serves_properties": sorted(reg.PROPERTIES),
         "kind_free_text": "cargo projects depending on /repo (replay: built with --cfg indicatif_verif; replay-async: the tokio feature against a signature-only tokio::io): run the real functions on concrete inputs and evaluate the executable form of contract clauses. Three uses, all labelled bounded and never counted as proof: witnesses for failed obligations, re-running listed known findings, and the bounded fallback / thorough-tier routines (DESIGN 9.6) whose only possible verdict is a violation with a replayable input"},
    ],
    "checks": checks,
    "not_applicable": na,
    "notes": reg.NOTES,
}
json.dump(m, open(os.path.join(ROOT, "MANIFEST.json"), "w"), indent=1)
print("MANIFEST.json: %d checks, %d not applicable" % (len(checks), len(na)))
