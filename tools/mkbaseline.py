#!/usr/bin/env python3
"""Recompute specs/stub_baseline.json (hashes of pinned / assumed source items) from a CLEAN tree.
Run by hand when a pinned item is added: VERIF_REPO=<clean checkout> tools/mkbaseline.py
(never run by a check)."""
import sys, re, hashlib, json, importlib, os, glob
ROOT = os.path.dirname(os.path.dirname(os.path.abspath(__file__)))
sys.path.insert(0, ROOT)
from vlib.unit import load_source, strip_comments, Fn
p = os.path.join(ROOT, "specs", "stub_baseline.json")
old = json.load(open(p))
new = {"_doc": old.get("_doc", "")}
mods = [os.path.basename(f)[:-3] for f in glob.glob(os.path.join(ROOT, "specs", "*.py")) if not f.endswith(("registry.py", "contracts.py", "__init__.py"))]
def h(text):
    return hashlib.sha256(re.sub(r"\s+", " ", strip_comments(text)).strip().encode()).hexdigest()[:16]
for m in sorted(mods):
    u = getattr(importlib.import_module("specs." + m), "UNIT", None)
    if u is None:
        continue
    for (file, container, name) in getattr(u, "pinned", []):
        sf = load_source(file)
        if container in ("const", "static", "struct", "enum"):
            it = sf.find_decl(container, name); text = it.text
        else:
            it = sf.find_fn(name, container, 0); text = it.signature + it.body
        new["%s::%s::%s" % (file, container or "", name)] = h(text)
# assumed stubs keep their keys (recomputed)
for k in old:
    if k not in new and k != "_doc":
        file, container, name = k.split("::")
        sf = load_source(file)
        it = sf.find_fn(name, container or None, 0)
        new[k] = h(it.signature + it.body)
json.dump(new, open(p, "w"), indent=1)
print(len(new) - 1, "items")
# every extracted item of every unit (comment-free, whitespace-normalised): a difference makes the quick tier
# run the unit's bounded routines in addition to the proof ("changed code gets a second opinion from the real code")
items = {}
for m in sorted(mods):
    u = getattr(importlib.import_module("specs." + m), "UNIT", None)
    if u is None:
        continue
    try:
        u.generate(findings=False)
    except Exception as e:
        print("skip", m, str(e)[:100]); continue
    items[u.name] = {"%s::%s" % (e["file"], e["item"]): e["norm_sha256_16"] for e in u.extracted}
json.dump(items, open(os.path.join(ROOT, "specs", "item_baseline.json"), "w"), indent=1, sort_keys=True)
print(sum(len(v) for v in items.values()), "extracted items in", len(items), "units")

# every function of the source files on the pinned tree: R21 (inline a helper split off a function under contract)
# applies only to helpers that are NOT in this index, i.e. that are new relative to the pinned tree
import vlib.rustscan as rustscan
from vlib.unit import REPO
index = {}
for f in sorted(glob.glob(os.path.join(REPO, "src", "*.rs"))):
    rel = "src/" + os.path.basename(f)
    sf = load_source(rel)
    names = set()
    for (hdr, kw, o, c) in sf.impls():
        for mm in rustscan.find_code(sf.src, sf.mask, r"\bfn\s+(\w+)\b", o, c):
            names.add("%s::%s" % (hdr, mm.group(1)))
    for mm in rustscan.find_code(sf.src, sf.mask, r"\bfn\s+(\w+)\b"):
        if sf._depth_at(mm.start()) == 0:
            names.add("::%s" % mm.group(1))     # free function
    index[rel] = sorted(names)
json.dump(index, open(os.path.join(ROOT, "specs", "fn_index.json"), "w"), indent=1, sort_keys=True)
print(sum(len(v) for v in index.values()), "functions in impl blocks indexed")
