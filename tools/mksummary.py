#!/usr/bin/env python3
"""Regenerate the per-property table of DESIGN.md 9.9 (between <!-- summary:begin/end -->) from the registry and known_findings.json."""
import json, os, re, sys
ROOT = os.path.dirname(os.path.dirname(os.path.abspath(__file__)))
sys.path.insert(0, ROOT)
from specs import registry as reg
kf = json.load(open(os.path.join(ROOT, "known_findings.json")))
rows = []
for p in sorted(reg.PROPERTIES):
    cfg = reg.PROPERTIES[p]
    units = cfg["units"]
    kani = [h["harness"] + (" (bounded)" if not h.get("complete", True) else "") for h in cfg.get("kani_thorough", [])]
    routines = sorted(set(r.split()[0] for u in units for (r, rp, _w) in reg.FALLBACK.get(u, []) if p in rp))
    nk = sum(1 for f in kf["findings"] if p in (f.get("properties") or [f.get("property")]))
    nf = sum(1 for f in kf["fixed"] if re.match(r"fixed: property=%s\b" % p, f))
    rows.append("| %s | %s | %s | %s | %d | %d |" % (p, ", ".join(units), "; ".join(kani) or "-", ", ".join(routines), nk, nf))
for e in reg.NOT_APPLICABLE:
    pid = e["property_id"] if isinstance(e, dict) else e[0]
    rows.append("| %s | not applicable | - | - | - | - |" % pid)
hdr = "| property | units (Verus, quick and thorough tier) | Kani harnesses (thorough tier) | bounded routines (run when a unit is undecided or its source changed; always in the thorough tier) | known findings | fixed defects |\n|---|---|---|---|---|---|\n"
table = hdr + "\n".join(rows) + "\n"
p = os.path.join(ROOT, "DESIGN.md"); s = open(p).read()
b, e = "<!-- summary:begin -->", "<!-- summary:end -->"
if b in s and e in s:
    s = s[:s.index(b) + len(b)] + "\n" + table + s[s.index(e):]
    open(p, "w").write(s); print("DESIGN.md 9.9 updated")
else:
    print(table)
