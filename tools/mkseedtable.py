#!/usr/bin/env python3
"""Regenerate the seed table of DESIGN.md (between the markers <!-- seedtable:begin --> / <!-- seedtable:end -->) from
seeded/*/meta.json (all_checks as stored by tools/seedpar / tools/seedall) and the first lines of notes.md.
Also prints summary counts.  Development tool."""
import json, os, re, sys
ROOT = os.path.dirname(os.path.dirname(os.path.abspath(__file__)))
rows = []; stats = {"own1": 0, "own2": 0, "own0": 0, "n": 0, "extra": 0, "holds_alarm": 0, "breaks_missed": 0, "by_proof": 0, "by_bounded": 0}
def key(s):
    a, b = s.split("-"); return (a, int(b))
for sid in sorted(os.listdir(os.path.join(ROOT, "seeded")), key=key):
    d = os.path.join(ROOT, "seeded", sid)
    m = json.load(open(os.path.join(d, "meta.json")))
    own = sid[:3]
    notes = open(os.path.join(d, "notes.md")).read().splitlines() if os.path.exists(os.path.join(d, "notes.md")) else [""]
    title = re.sub(r"^#+\s*", "", notes[0]).strip() if notes else ""
    title = re.sub(r"^(Title|Change \d+)\s*[:\-]\s*", "", title)
    breaks = holds = None
    for l in notes[:6]:
        if l.startswith("BREAKS:"): breaks = re.findall(r"C\d\d", l)
        if l.startswith("HOLDS-NEARBY:"): holds = re.findall(r"C\d\d", l)
    ac = m.get("all_checks") or {}
    if not ac:
        rows.append("| %s | %s | (not run) | | | |" % (sid, title[:140])); continue
    e1 = [p for p in ac if ac[p]["exit"] == 1]; e2 = [p for p in ac if ac[p]["exit"] == 2]
    stats["n"] += 1
    o = ac.get(own, {"exit": 0, "obligations": []})
    res = {1: "detected", 2: "undecided", 0: "MISSED"}[o["exit"]]
    stats["own%d" % o["exit"]] += 1
    ob = (o.get("obligations") or [""])[0]
    if o["exit"] == 1:
        if any("#bounded" not in x for x in o["obligations"]): stats["by_proof"] += 1
        else: stats["by_bounded"] += 1; res = "bounded"
    others = [p for p in e1 if p != own]
    judged = ""
    if breaks is not None:
        also = [p for p in others if p in breaks]; extra = [p for p in others if p not in breaks]
        hold_al = [p for p in others if holds and p in holds]
        missed = [p for p in breaks if p != own and ac.get(p, {}).get("exit") != 1 and p in ac]
        stats["extra"] += len(extra); stats["holds_alarm"] += len(hold_al); stats["breaks_missed"] += len(missed)
        judged = "agent: breaks %s" % ",".join(breaks)
        if missed: judged += "; not alarmed: %s" % ",".join(missed)
    rows.append("| %s | %s | %s | %s | %s | `%s` |" % (sid, title[:140].replace("|", "/"), res, ",".join(others) + (" (%s)" % judged if judged else ""), ",".join(e2), ob))
hdr = "| seed | change (title given by the sub-agent) | own check (quick tier) | other checks that exit 1 | exit 2 | first failing obligation of the own check |\n|---|---|---|---|---|---|\n"
table = hdr + "\n".join(rows) + "\n"
print(json.dumps(stats))
p = os.path.join(ROOT, "DESIGN.md"); s = open(p).read()
b, e = "<!-- seedtable:begin -->", "<!-- seedtable:end -->"
if b in s and e in s and "--write" in sys.argv:
    s = s[:s.index(b) + len(b)] + "\n" + table + s[s.index(e):]
    open(p, "w").write(s); print("DESIGN.md updated")
