#!/bin/sh
# Offline setup after a fresh restore: check the tools, prebuild the replay driver against /repo.
set -e
cd "$(dirname "$0")"
command -v verus >/dev/null || { echo "verus not on PATH"; exit 1; }
command -v python3 >/dev/null || { echo "python3 missing"; exit 1; }
mkdir -p .build evidence replays
( cd replay && CARGO_NET_OFFLINE=true RUSTFLAGS="--cfg indicatif_verif" cargo build --offline --release --target-dir /verif/.build/replay-target >/verif/.build/replay-build.log 2>&1 ) || echo "warning: replay driver did not build (witness search disabled): see .build/replay-build.log"
( cd replay-async && CARGO_NET_OFFLINE=true cargo build --offline --release --target-dir /verif/.build/replay-async-target >/verif/.build/replay-async-build.log 2>&1 ) || echo "warning: replay-async driver did not build: see .build/replay-async-build.log"
echo setup ok
