use vstd::prelude::*;
use vstd::std_specs::ops::*;
use vstd::std_specs::cmp::*;
use core::cmp::Ordering;
verus! {

#[derive(Clone, Copy)]
pub struct F64 { pub v: Ghost<real> }
impl F64 {
    pub open spec fn r(self) -> real { self.v@ }
    #[verifier::external_body]
    pub fn ratio(n: u64, d: u64) -> (r: F64) requires d > 0 ensures r.r() == n as real / d as real { unimplemented!() }
    #[verifier::external_body]
    pub fn from_u64(n: u64) -> (r: F64) ensures r.r() == n as real { unimplemented!() }
    #[verifier::external_body]
    pub fn powf(self, e: F64) -> (r: F64) ensures r.r() == powr(self.r(), e.r()) { unimplemented!() }
}
pub uninterp spec fn powr(b: real, e: real) -> real;

impl core::ops::Mul<F64> for F64 { type Output = F64; #[verifier::external_body] fn mul(self, o: F64) -> F64 { unimplemented!() } }
impl MulSpecImpl<F64> for F64 {
    open spec fn obeys_mul_spec() -> bool { true }
    open spec fn mul_req(self, o: F64) -> bool { true }
    open spec fn mul_spec(self, o: F64) -> F64 { F64 { v: Ghost(self.r() * o.r()) } }
}
impl core::ops::Add<F64> for F64 { type Output = F64; #[verifier::external_body] fn add(self, o: F64) -> F64 { unimplemented!() } }
impl AddSpecImpl<F64> for F64 {
    open spec fn obeys_add_spec() -> bool { true }
    open spec fn add_req(self, o: F64) -> bool { true }
    open spec fn add_spec(self, o: F64) -> F64 { F64 { v: Ghost(self.r() + o.r()) } }
}
impl core::ops::Sub<F64> for F64 { type Output = F64; #[verifier::external_body] fn sub(self, o: F64) -> F64 { unimplemented!() } }
impl SubSpecImpl<F64> for F64 {
    open spec fn obeys_sub_spec() -> bool { true }
    open spec fn sub_req(self, o: F64) -> bool { true }
    open spec fn sub_spec(self, o: F64) -> F64 { F64 { v: Ghost(self.r() - o.r()) } }
}
impl core::ops::Div<F64> for F64 { type Output = F64; #[verifier::external_body] fn div(self, o: F64) -> F64 { unimplemented!() } }
impl DivSpecImpl<F64> for F64 {
    open spec fn obeys_div_spec() -> bool { true }
    open spec fn div_req(self, o: F64) -> bool { o.r() != 0real }
    open spec fn div_spec(self, o: F64) -> F64 { F64 { v: Ghost(self.r() / o.r()) } }
}

fn estimator_weight(age: F64) -> (r: F64)
    ensures r.r() == powr(1real/10real, age.r() / 15real)
{
    let EXPONENTIAL_WEIGHTING_SECONDS: F64 = F64::ratio(150, 10);
    F64::ratio(1, 10).powf(age / EXPONENTIAL_WEIGHTING_SECONDS)
}

fn mix(s: F64, weight: F64, new: F64) -> (r: F64)
    ensures r.r() == s.r() * weight.r() + new.r() * (1real - weight.r())
{
    s * weight + new * (F64::ratio(10, 10) - weight)
}

} // verus!
fn main() {}
