use vstd::prelude::*;
use std::mem;
verus! {

#[derive(Copy, Clone, PartialEq, Eq)]
enum State { Literal, MaybeOpen, DoubleClose, Key, Align, Width, FirstStyle, AltStyle }

pub struct TemplateError { state: State, next: char }

#[derive(PartialEq, Eq, Copy, Clone)]
enum Alignment { Left, Center, Right }

enum TemplatePart {
    Literal(String),
    Placeholder { key: String, align: Alignment, width: Option<u16>, truncate: bool },
    NewLine,
}

pub assume_specification [char::is_ascii_whitespace] (c: &char) -> (r: bool);

pub assume_specification<T: std::default::Default> [std::mem::take] (x: &mut T) -> (r: T)
    ensures r == *old(x);

#[verifier::external_body]
fn parse_u16(s: &String) -> (r: Option<u16>) { s.parse().ok() }

fn from_str(s: &str) -> Result<Vec<TemplatePart>, TemplateError> {
        use State::*;
        let (mut state, mut parts, mut buf) = (Literal, Vec::<TemplatePart>::new(), String::new());
        for c in s.chars() {
            let new = match (state, c) {
                (Literal, '{') => (MaybeOpen, None),
                (Literal, '\n') => {
                    if !buf.is_empty() {
                        parts.push(TemplatePart::Literal(mem::take(&mut buf)));
                    }
                    parts.push(TemplatePart::NewLine);
                    (Literal, None)
                }
                (Literal, '}') => (DoubleClose, Some('}')),
                (Literal, c) => (Literal, Some(c)),
                (DoubleClose, '}') => (Literal, None),
                (MaybeOpen, '{') => (Literal, Some('{')),
                (MaybeOpen, c) if c.is_ascii_whitespace() => {
                    buf.push(c);
                    let mut new = String::from("{");
                    new.push_str(&buf);
                    buf.clear();
                    parts.push(TemplatePart::Literal(new));
                    (Literal, None)
                }
                (Key, c) if c.is_ascii_whitespace() => {
                    buf.push(c);
                    let mut new = String::from("{");
                    new.push_str(&buf);
                    buf.clear();
                    parts.push(TemplatePart::Literal(new));
                    (Literal, None)
                }
                (MaybeOpen, c) if c != '}' && c != ':' => (Key, Some(c)),
                (Key, c) if c != '}' && c != ':' => (Key, Some(c)),
                (Key, ':') => (Align, None),
                (Key, '}') => (Literal, None),
                (Align, c) if c == '<' || c == '^' || c == '>' => {
                    if let Some(TemplatePart::Placeholder { align, .. }) = parts.last_mut() {
                        match c {
                            '<' => *align = Alignment::Left,
                            '^' => *align = Alignment::Center,
                            '>' => *align = Alignment::Right,
                            _ => (),
                        }
                    }
                    (Width, None)
                }
                (Align, c @ '0'..='9') => (Width, Some(c)),
                (Width, c @ '0'..='9') => (Width, Some(c)),
                (Width, '}') => (Literal, None),
                (st, c) => return Err(TemplateError { next: c, state: st }),
            };

            match (state, new.0) {
                (MaybeOpen, Key) if !buf.is_empty() => parts.push(TemplatePart::Literal(mem::take(&mut buf))),
                (Key, Align) if !buf.is_empty() => {
                    parts.push(TemplatePart::Placeholder { key: mem::take(&mut buf), align: Alignment::Left, width: None, truncate: false });
                }
                (Key, Literal) if !buf.is_empty() => {
                    parts.push(TemplatePart::Placeholder { key: mem::take(&mut buf), align: Alignment::Left, width: None, truncate: false });
                }
                (Width, FirstStyle) if !buf.is_empty() => {
                    if let Some(TemplatePart::Placeholder { width, .. }) = parts.last_mut() {
                        *width = Some(parse_u16(&buf).unwrap());
                        buf.clear();
                    }
                }
                (Width, Literal) if !buf.is_empty() => {
                    if let Some(TemplatePart::Placeholder { width, .. }) = parts.last_mut() {
                        *width = Some(parse_u16(&buf).unwrap());
                        buf.clear();
                    }
                }
                (_, _) => (),
            }

            state = new.0;
            if let Some(c) = new.1 {
                buf.push(c);
            }
        }
        if matches!(state, Literal | DoubleClose) && !buf.is_empty() {
            parts.push(TemplatePart::Literal(buf));
        }
        Ok(parts)
}
} // verus!
fn main() {}
