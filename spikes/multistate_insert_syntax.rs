use vstd::prelude::*;
verus! {

pub struct DrawState { pub n: usize }

pub struct MultiStateMember {
    pub draw_state: Option<DrawState>,
    pub is_zombie: bool,
}
impl MultiStateMember {
    fn default() -> (r: Self) ensures r.draw_state.is_none(), !r.is_zombie { MultiStateMember { draw_state: None, is_zombie: false } }
}

enum InsertLocation {
    End,
    Index(usize),
    IndexFromBack(usize),
    After(usize),
    Before(usize),
}

pub struct MultiState {
    members: Vec<MultiStateMember>,
    free_set: Vec<usize>,
    ordering: Vec<usize>,
}

#[verifier::external_body]
fn vec_position_eq(v: &Vec<usize>, x: usize) -> (r: Option<usize>)
    ensures match r { Some(i) => i < v.len() && v@[i as int] == x && forall|j: int| 0 <= j < i ==> v@[j] != x, None => !v@.contains(x) }
{ v.iter().position(|i| *i == x) }

#[verifier::external_body]
fn vec_retain_ne(v: &mut Vec<usize>, x: usize)
    ensures final(v)@ == old(v)@.filter(|y: usize| y != x)
{ v.retain(|&y| y != x) }

#[verifier::external_body]
fn vec_contains(v: &Vec<usize>, x: &usize) -> (r: bool)
    ensures r == v@.contains(*x)
{ v.contains(x) }

impl MultiState {
    spec fn wf(&self) -> bool {
        &&& self.ordering@.no_duplicates()
        &&& self.free_set@.no_duplicates()
        &&& forall|i: int| 0 <= i < self.ordering.len() ==> self.ordering@[i] < self.members.len() && !self.free_set@.contains(#[trigger] self.ordering@[i])
        &&& forall|i: int| 0 <= i < self.free_set.len() ==> #[trigger] self.free_set@[i] < self.members.len()
        &&& forall|s: usize| s < self.members.len() ==> (#[trigger] self.ordering@.contains(s) || self.free_set@.contains(s))
    }

    fn len(&self) -> (r: usize)
        requires self.free_set.len() <= self.members.len()
        ensures r == self.members.len() - self.free_set.len()
    {
        self.members.len() - self.free_set.len()
    }

    fn insert(&mut self, location: InsertLocation) -> (idx: usize)
        requires old(self).wf(), old(self).members.len() < usize::MAX,
            match location { InsertLocation::After(a) => old(self).ordering@.contains(a), InsertLocation::Before(a) => old(self).ordering@.contains(a), _ => true }
        ensures final(self).wf(),
            !old(self).ordering@.contains(idx),
            final(self).ordering@.contains(idx),
    {
        let idx = if let Some(idx) = self.free_set.pop() {
            self.members[idx] = MultiStateMember::default();
            idx
        } else {
            self.members.push(MultiStateMember::default());
            self.members.len() - 1
        };

        match location {
            InsertLocation::End => self.ordering.push(idx),
            InsertLocation::Index(pos) => {
                let pos = Ord::min(pos, self.ordering.len());
                self.ordering.insert(pos, idx);
            }
            InsertLocation::IndexFromBack(pos) => {
                let pos = self.ordering.len().saturating_sub(pos);
                self.ordering.insert(pos, idx);
            }
            InsertLocation::After(after_idx) => {
                let pos = vec_position_eq(&self.ordering, after_idx).unwrap();
                self.ordering.insert(pos + 1, idx);
            }
            InsertLocation::Before(before_idx) => {
                let pos = vec_position_eq(&self.ordering, before_idx).unwrap();
                self.ordering.insert(pos, idx);
            }
        }

        idx
    }
}

} // verus!
fn main() {}
