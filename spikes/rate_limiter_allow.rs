use vstd::prelude::*;
use vstd::std_specs::ops::*;
use vstd::std_specs::cmp::*;
use core::cmp::Ordering;
verus! {

// ---------- shim of std::time (trusted model) ----------
#[derive(Clone, Copy)]
pub struct Duration { pub ns: Ghost<nat> }
#[derive(Clone, Copy)]
pub struct Instant { pub ns: Ghost<nat> }

impl Duration {
    pub open spec fn ns(self) -> nat { self.ns@ }
    #[verifier::external_body]
    pub fn from_millis(ms: u64) -> (r: Duration) ensures r.ns() == ms as nat * 1_000_000 { unimplemented!() }
    #[verifier::external_body]
    pub fn from_nanos(n: u64) -> (r: Duration) ensures r.ns() == n as nat { unimplemented!() }
    #[verifier::external_body]
    pub fn as_millis(&self) -> (r: u128) ensures r == self.ns() / 1_000_000 { unimplemented!() }
    #[verifier::external_body]
    pub fn as_nanos(&self) -> (r: u128) ensures r == self.ns() { unimplemented!() }
    pub open spec fn wf(self) -> bool { self.ns() <= 18446744073709551615 * 1_000_000_000 + 999_999_999 }
}
impl Instant {
    pub open spec fn ns(self) -> nat { self.ns@ }
    #[verifier::external_body]
    pub fn checked_sub(&self, d: Duration) -> (r: Option<Instant>)
        ensures self.ns() >= d.ns() ==> r.is_some() && r.unwrap().ns() == self.ns() - d.ns(),
                self.ns() < d.ns() ==> r.is_none()
    { unimplemented!() }
}

impl PartialEq for Instant { #[verifier::external_body] fn eq(&self, o: &Instant) -> bool { unimplemented!() } }
impl PartialEqSpecImpl for Instant {
    open spec fn obeys_eq_spec() -> bool { true }
    open spec fn eq_spec(&self, o: &Instant) -> bool { self.ns() == o.ns() }
}
impl PartialOrd for Instant { #[verifier::external_body] fn partial_cmp(&self, o: &Instant) -> Option<Ordering> { unimplemented!() } }
impl PartialOrdSpecImpl for Instant {
    open spec fn obeys_partial_cmp_spec() -> bool { true }
    open spec fn partial_cmp_spec(&self, o: &Instant) -> Option<Ordering> {
        if self.ns() < o.ns() { Some(Ordering::Less) } else if self.ns() == o.ns() { Some(Ordering::Equal) } else { Some(Ordering::Greater) }
    }
}
impl core::ops::Sub<Instant> for Instant {
    type Output = Duration;
    #[verifier::external_body]
    fn sub(self, o: Instant) -> Duration { unimplemented!() }
}
impl SubSpecImpl<Instant> for Instant {
    open spec fn obeys_sub_spec() -> bool { true }
    open spec fn sub_req(self, o: Instant) -> bool { self.ns() >= o.ns() }
    open spec fn sub_spec(self, o: Instant) -> Duration { Duration { ns: Ghost((self.ns() - o.ns()) as nat) } }
}


impl PartialEq for Duration { #[verifier::external_body] fn eq(&self, o: &Duration) -> bool { unimplemented!() } }
impl PartialEqSpecImpl for Duration {
    open spec fn obeys_eq_spec() -> bool { true }
    open spec fn eq_spec(&self, o: &Duration) -> bool { self.ns() == o.ns() }
}
impl PartialOrd for Duration { #[verifier::external_body] fn partial_cmp(&self, o: &Duration) -> Option<Ordering> { unimplemented!() } }
impl PartialOrdSpecImpl for Duration {
    open spec fn obeys_partial_cmp_spec() -> bool { true }
    open spec fn partial_cmp_spec(&self, o: &Duration) -> Option<Ordering> {
        if self.ns() < o.ns() { Some(Ordering::Less) } else if self.ns() == o.ns() { Some(Ordering::Equal) } else { Some(Ordering::Greater) }
    }
}


const MAX_BURST: u8 = 20;

struct RateLimiter {
    interval: u16, // in milliseconds
    capacity: u8,
    prev: Instant,
}

pub open spec fn bucket_wf(interval: u16, capacity: u8) -> bool { interval >= 1 && capacity <= 20 }

impl RateLimiter {
    fn allow(&mut self, now: Instant) -> (res: bool)
        requires bucket_wf(old(self).interval, old(self).capacity),
                 now.ns() - old(self).prev.ns() < 0x1_0000_0000_0000_0000,
        ensures
            final(self).interval == old(self).interval,
            bucket_wf(final(self).interval, final(self).capacity),
            ({
                let i = old(self).interval as nat * 1_000_000;
                let el = now.ns() - old(self).prev.ns();
                &&& res == (now.ns() >= old(self).prev.ns() && (old(self).capacity > 0 || el >= i))
                &&& !res ==> final(self).capacity == old(self).capacity && final(self).prev == old(self).prev
                &&& res ==> final(self).prev.ns() == now.ns() - el % (i as int)
                &&& res ==> final(self).capacity as int == if old(self).capacity + el / (i as int) - 1 < 20 { old(self).capacity + el / (i as int) - 1 } else { 20 }
            }),
    {
        if now < self.prev {
            return false;
        }

        let elapsed = now - self.prev;
        // If `capacity` is 0 and not enough time (`self.interval` ms) has passed since
        if self.capacity == 0 && elapsed < Duration::from_millis(self.interval as u64) {
            return false;
        }

        let (new, remainder) = (
            elapsed.as_millis() / self.interval as u128,
            elapsed.as_nanos() % (self.interval as u128 * 1_000_000),
        );
        proof {
            let e = elapsed.ns(); let iv = self.interval as nat;
            assert((e / 1_000_000) / iv == e / (iv * 1_000_000)) by (nonlinear_arith) requires iv > 0;
            assert(e >= iv * 1_000_000 ==> e / (iv * 1_000_000) >= 1) by (nonlinear_arith) requires iv > 0;
            assert(e % (iv * 1_000_000) <= e) by (nonlinear_arith) requires iv > 0;
            assert(e / (iv * 1_000_000) <= e) by (nonlinear_arith) requires iv > 0;
        }

        self.capacity = Ord::min(MAX_BURST as u128, (self.capacity as u128) + new - 1) as u8;
        self.prev = now
            .checked_sub(Duration::from_nanos(remainder as u64))
            .unwrap();
        true
    }
}

} // verus!
fn main() {}
