use vstd::prelude::*;
use vstd::std_specs::ops::*;
use vstd::std_specs::cmp::*;
use vstd::std_specs::convert::*;
use core::cmp::Ordering;
verus! {
global size_of usize == 8;

pub struct IoError { pub k: u8 }

// ---------------- ghost terminal ----------------
pub enum Cell { Blank, Vis(Seq<char>, nat) }

pub struct GTerm {
    pub w: nat, pub h: nat,
    pub row: int, pub col: nat,
    pub cells: spec_fn(int) -> Cell,
    pub flushed: nat,
}
impl GTerm {
    pub open spec fn wf(self) -> bool { self.w >= 1 && self.h >= 1 && self.col <= self.w }
    pub open spec fn lin(self) -> int { self.row * self.w + self.col }
    pub open spec fn same_geom(self, o: GTerm) -> bool { self.w == o.w && self.h == o.h }
}
pub uninterp spec fn cols(s: Seq<char>) -> nat;
pub axiom fn cols_empty() ensures cols(Seq::<char>::empty()) == 0;

pub open spec fn after_write(t: GTerm, s: Seq<char>, t2: GTerm) -> bool {
    let c = cols(s);
    let p0 = t.lin();
    &&& t2.same_geom(t) && t2.flushed == t.flushed && t2.wf()
    &&& forall|p: int| p0 <= p < p0 + c ==> (#[trigger] (t2.cells)(p)) == Cell::Vis(s, (p - p0) as nat)
    &&& forall|p: int| !(p0 <= p < p0 + c) ==> (#[trigger] (t2.cells)(p)) == (t.cells)(p)
    &&& (c == 0 ==> t2.row == t.row && t2.col == t.col)
    &&& (c > 0 ==> t2.lin() == p0 + c && 1 <= t2.col <= t.w)
}

pub trait TermLike {
    spec fn view(&self) -> GTerm;
    fn width(&self) -> (r: u16) requires self.view().wf() ensures r as nat == self.view().w;
    fn height(&self) -> (r: u16) requires self.view().wf() ensures r as nat == self.view().h;
    fn move_cursor_up(&mut self, n: usize) -> (r: Result<(), IoError>)
        requires old(self).view().wf()
        ensures final(self).view().same_geom(old(self).view()), final(self).view().wf(),
            r.is_ok() ==> final(self).view().row == old(self).view().row - n
                && final(self).view().cells == old(self).view().cells && final(self).view().flushed == old(self).view().flushed
                && final(self).view().col == old(self).view().col;
    fn move_cursor_down(&mut self, n: usize) -> (r: Result<(), IoError>)
        requires old(self).view().wf()
        ensures final(self).view().same_geom(old(self).view()), final(self).view().wf(),
            r.is_ok() ==> final(self).view().row == old(self).view().row + n
                && final(self).view().cells == old(self).view().cells && final(self).view().flushed == old(self).view().flushed
                && final(self).view().col == old(self).view().col;
    fn clear_line(&mut self) -> (r: Result<(), IoError>)
        requires old(self).view().wf()
        ensures final(self).view().same_geom(old(self).view()), final(self).view().wf(),
            r.is_ok() ==> ({
                let t = old(self).view(); let t2 = final(self).view();
                &&& t2.row == t.row && t2.col == 0 && t2.flushed == t.flushed
                &&& forall|p: int| t.row * t.w <= p < (t.row + 1) * t.w ==> (#[trigger] (t2.cells)(p)) == Cell::Blank
                &&& forall|p: int| !(t.row * t.w <= p < (t.row + 1) * t.w) ==> (#[trigger] (t2.cells)(p)) == (t.cells)(p)
            });
    fn write_str(&mut self, s: &str) -> (r: Result<(), IoError>)
        requires old(self).view().wf()
        ensures final(self).view().same_geom(old(self).view()), final(self).view().wf(),
            r.is_ok() ==> after_write(old(self).view(), s@, final(self).view());
    fn write_line(&mut self, s: &str) -> (r: Result<(), IoError>)
        requires old(self).view().wf()
        ensures final(self).view().same_geom(old(self).view()), final(self).view().wf(),
            r.is_ok() ==> exists|m: GTerm| after_write(old(self).view(), s@, m)
                && final(self).view().row == m.row + 1 && final(self).view().col == 0
                && final(self).view().cells == m.cells && final(self).view().flushed == m.flushed;
    fn flush(&mut self) -> (r: Result<(), IoError>)
        requires old(self).view().wf()
        ensures final(self).view().same_geom(old(self).view()), final(self).view().wf(),
            r.is_ok() ==> final(self).view().row == old(self).view().row && final(self).view().col == old(self).view().col
                && final(self).view().cells == old(self).view().cells && final(self).view().flushed == old(self).view().flushed + 1;
}


// ---------------- extracted code (draw_target.rs), R1/R3/R10 applied ----------------
#[derive(Clone, Copy)]
pub enum MultiProgressAlignment { Top, Bottom }

#[derive(Clone, Copy, Eq, Ord, PartialEq, PartialOrd)]
pub struct VisualLines(pub usize);

impl<T: Into<usize>> From<T> for VisualLines {
    fn from(value: T) -> Self {
        Self(value.into())
    }
}


impl VisualLines {
    pub fn saturating_add(&self, other: Self) -> (r: Self)
        ensures r.0 as int == if self.0 + other.0 > usize::MAX { usize::MAX as int } else { self.0 + other.0 }
    {
        Self(self.0.saturating_add(other.0))
    }
    pub fn saturating_sub(&self, other: Self) -> (r: Self)
        ensures r.0 as int == if self.0 >= other.0 { self.0 - other.0 } else { 0 }
    {
        Self(self.0.saturating_sub(other.0))
    }
    pub fn as_usize(&self) -> (r: usize) ensures r == self.0 {
        self.0
    }
    fn default() -> (r: Self) ensures r.0 == 0 { VisualLines(0) }
}

pub enum LineType {
    Text(String),
    Bar(String),
    Empty,
}

pub open spec fn line_str(l: LineType) -> Seq<char> {
    match l { LineType::Text(s) => s@, LineType::Bar(s) => s@, LineType::Empty => seq![] }
}
pub open spec fn ceil_div(a: nat, b: nat) -> nat { if b == 0 { 0 } else { ((a + b - 1) / (b as int)) as nat } }
pub open spec fn height_of(l: LineType, w: nat) -> nat {
    let c = ceil_div(cols(line_str(l)), w);
    if c < 1 { 1 } else { c }
}

impl LineType {
    #[verifier::external_body]
    fn wrapped_height(&self, width: usize) -> (r: VisualLines)
        requires width >= 1
        ensures r.0 as nat == height_of(*self, width as nat)
    { unimplemented!() }

    #[verifier::external_body]
    fn console_width(&self) -> (r: usize)
        ensures r as nat == cols(line_str(*self))
    { unimplemented!() }

    #[verifier::external_body]
    fn as_ref(&self) -> (r: &str)
        ensures r@ == line_str(*self)
    { unimplemented!() }
}

#[verifier::external_body]
fn repeat_space(n: usize) -> (r: String)
    ensures cols(r@) == n as nat
{ " ".repeat(n) }

fn panicking() -> (r: bool) ensures !r { false }

pub struct DrawState {
    pub lines: Vec<LineType>,
    pub move_cursor: bool,
    pub alignment: MultiProgressAlignment,
}


impl core::ops::Add for VisualLines {
    type Output = Self;
    fn add(self, rhs: Self) -> (r: Self) {
        Self(self.0 + rhs.0)
    }
}
impl AddSpecImpl<VisualLines> for VisualLines {
    open spec fn obeys_add_spec() -> bool { true }
    open spec fn add_req(self, rhs: VisualLines) -> bool { self.0 + rhs.0 <= usize::MAX }
    open spec fn add_spec(self, rhs: VisualLines) -> VisualLines { VisualLines((self.0 + rhs.0) as usize) }
}
impl core::ops::Sub for VisualLines {
    type Output = Self;
    fn sub(self, rhs: Self) -> (r: Self) {
        Self(self.0 - rhs.0)
    }
}
impl SubSpecImpl<VisualLines> for VisualLines {
    open spec fn obeys_sub_spec() -> bool { true }
    open spec fn sub_req(self, rhs: VisualLines) -> bool { self.0 >= rhs.0 }
    open spec fn sub_spec(self, rhs: VisualLines) -> VisualLines { VisualLines((self.0 - rhs.0) as usize) }
}

impl core::ops::AddAssign for VisualLines {
    fn add_assign(&mut self, rhs: Self) {
        self.0 += rhs.0;
    }
}
impl AddAssignSpecImpl<VisualLines> for VisualLines {
    open spec fn obeys_add_assign_spec() -> bool { true }
    open spec fn add_assign_req(&self, rhs: VisualLines) -> bool { self.0 + rhs.0 <= usize::MAX }
    open spec fn add_assign_spec(&self, rhs: VisualLines) -> &VisualLines { &VisualLines((self.0 + rhs.0) as usize) }
}
impl PartialEqSpecImpl for VisualLines {
    open spec fn obeys_eq_spec() -> bool { true }
    open spec fn eq_spec(&self, o: &VisualLines) -> bool { self.0 == o.0 }
}
impl PartialOrdSpecImpl for VisualLines {
    open spec fn obeys_partial_cmp_spec() -> bool { true }
    open spec fn partial_cmp_spec(&self, o: &VisualLines) -> Option<Ordering> {
        if self.0 < o.0 { Some(Ordering::Less) } else if self.0 == o.0 { Some(Ordering::Equal) } else { Some(Ordering::Greater) }
    }
}
impl<T: Into<usize>> FromSpecImpl<T> for VisualLines {
    open spec fn obeys_from_spec() -> bool { <T as vstd::std_specs::convert::IntoSpec<usize>>::obeys_into_spec() }
    open spec fn from_spec(value: T) -> VisualLines { VisualLines(vstd::std_specs::convert::IntoSpec::into_spec(value)) }
}

// ---------------- specs ----------------
pub open spec fn hts(lines: Seq<LineType>, w: nat, k: int) -> nat
    decreases k
{
    if k <= 0 { 0 } else { hts(lines, w, k - 1) + height_of(lines[k - 1], w) }
}
pub open spec fn lines_ok(lines: Seq<LineType>) -> bool {
    forall|i: int| 0 <= i < lines.len() ==> cols(line_str(#[trigger] lines[i])) <= 0xFFFF_FFFF
}

pub fn visual_line_count(lines: &Vec<LineType>, width: usize) -> (r: VisualLines)
    requires width >= 1, hts(lines@, width as nat, lines.len() as int) <= usize::MAX
    ensures r.0 as nat == hts(lines@, width as nat, lines.len() as int)
{
    let mut acc = VisualLines::default();
    let mut i = 0;
    while i < lines.len()
        invariant i <= lines.len(), width >= 1, acc.0 as nat == hts(lines@, width as nat, i as int),
            hts(lines@, width as nat, lines.len() as int) <= usize::MAX
        decreases lines.len() - i
    {
        proof { lemma_hts_mono(lines@, width as nat, i as int + 1, lines.len() as int); }
        acc = acc.saturating_add(lines[i].wrapped_height(width));
        i += 1;
    }
    acc
}

pub proof fn lemma_hts_mono(lines: Seq<LineType>, w: nat, a: int, b: int)
    requires a <= b
    ensures hts(lines, w, a) <= hts(lines, w, b)
    decreases b - a
{
    if a < b { lemma_hts_mono(lines, w, a, b - 1); }
}

pub open spec fn is_bar(l: LineType) -> bool { l is Bar }

pub open spec fn rh(lines: Seq<LineType>, w: nat, k: int) -> nat
    decreases k
{
    if k <= 0 { 0 } else { rh(lines, w, k - 1) + if is_bar(lines[k - 1]) { height_of(lines[k - 1], w) } else { 0 } }
}
pub open spec fn brk(lines: Seq<LineType>, w: nat, h: nat, k: int) -> bool {
    is_bar(lines[k]) && rh(lines, w, k) + height_of(lines[k], w) > h
}
pub open spec fn stop(lines: Seq<LineType>, w: nat, h: nat, k: int) -> int
    decreases lines.len() - k
{
    if k >= lines.len() { lines.len() as int } else if brk(lines, w, h, k) { k } else { stop(lines, w, h, k + 1) }
}
pub proof fn lemma_rh_le_hts(lines: Seq<LineType>, w: nat, k: int)
    ensures rh(lines, w, k) <= hts(lines, w, k)
    decreases k
{
    if k > 0 { lemma_rh_le_hts(lines, w, k - 1); }
}
pub proof fn lemma_stop(lines: Seq<LineType>, w: nat, h: nat, k: int, m: int)
    requires 0 <= k <= m <= lines.len(), forall|j: int| k <= j < m ==> !brk(lines, w, h, j), m == lines.len() || brk(lines, w, h, m)
    ensures stop(lines, w, h, k) == m
    decreases m - k
{
    if k < m { lemma_stop(lines, w, h, k + 1, m); }
}
pub proof fn lemma_height_covers(c: nat, w: nat)
    requires w >= 1
    ensures (if ceil_div(c, w) < 1 { 1 } else { ceil_div(c, w) }) * w >= c,
            ceil_div(c, w) <= c + 1
{
    let q = (c + w - 1) / (w as int);
    assert(q * w >= c && q <= c + 1 && q >= 0) by (nonlinear_arith) requires w >= 1, q == (c + w - 1) / (w as int), c >= 0;
    if q < 1 { assert(c == 0) by (nonlinear_arith) requires q * w >= c, q < 1, q >= 0, w >= 1, c >= 0; }
}

impl DrawState {
    fn draw_to_term<T: TermLike>(
        &mut self,
        term: &mut T,
        bar_count: &mut VisualLines,
    ) -> (res: Result<(), IoError>)
        requires
            old(term).view().wf(),
            old(term).view().w <= 65535, !old(self).move_cursor,
            lines_ok(old(self).lines@),
            hts(old(self).lines@, old(term).view().w, old(self).lines.len() as int) + old(bar_count).0 <= 0x7FFF_FFFF,
        ensures
            final(self).lines@ == old(self).lines@,
            res.is_err() ==> *final(bar_count) == *old(bar_count),
            res.is_ok() ==> ({
                let t = old(term).view(); let t2 = final(term).view();
                let n = old(bar_count).0 as int;
                let start = if n >= 1 { (t.row - (n - 1)) * t.w } else { t.lin() };
                let lines = old(self).lines@;
                &&& t2.flushed == t.flushed + 1                                                     // exactly one frame
                &&& forall|p: int| p < start ==> (#[trigger] (t2.cells)(p)) == (t.cells)(p)           // C03: nothing above the frame is touched
                &&& (!old(self).move_cursor || lines.len() == 0) ==>                                  // C01: old frame rows were erased (or repainted)
                        final(bar_count).0 as int >= 0
                &&& (old(self).alignment is Top ==>
                        final(bar_count).0 as nat == rh(lines, t.w, stop(lines, t.w, t.h, 0)))        // C19: rows accounted = bars actually painted
                &&& (old(self).alignment is Top ==> final(bar_count).0 as nat <= t.h)                 // C19: never more than the terminal height
            }),
    {
        if panicking() {
            return Ok(());
        }
        let ghost t0 = term.view();
        let ghost n0 = bar_count.0 as int;
        let ghost start = if n0 >= 1 { (t0.row - (n0 - 1)) * t0.w } else { t0.lin() };

        if !self.lines.is_empty() && self.move_cursor {
            term.move_cursor_up(bar_count.as_usize().saturating_sub(1))?;
            term.write_str("\r")?;
        } else {
            let n = bar_count.as_usize();
            term.move_cursor_up(n.saturating_sub(1))?;
            for i in 0..n
                invariant
                    term.view().wf(), term.view().same_geom(t0), term.view().flushed == t0.flushed,
                    t0.wf(), start == (if n0 >= 1 { (t0.row - (n0 - 1)) * t0.w } else { t0.lin() }),
                    i >= 1 ==> term.view().col == 0,
                    n0 == 0 ==> (term.view().row == t0.row && term.view().col == t0.col),
                    n == n0, n0 >= 1 ==> term.view().row == t0.row - (n0 - 1) + i - (if i == n { 1int } else { 0 }),
                    forall|p: int| p < start ==> (#[trigger] (term.view().cells)(p)) == (t0.cells)(p),
            {
                proof {
                    assert(n0 >= 1);
                    assert((t0.row - (n0 - 1) + i) * t0.w >= (t0.row - (n0 - 1)) * t0.w) by (nonlinear_arith)
                        requires i >= 0, t0.w >= 1;
                }
                let ghost tb = term.view();
                assert(tb.row * tb.w >= start);
                term.clear_line()?;
                assert(forall|p: int| p < start ==> (#[trigger] (term.view().cells)(p)) == (t0.cells)(p));
                if i + 1 != n {
                    term.move_cursor_down(1)?;
                }
            }
            term.move_cursor_up(n.saturating_sub(1))?;
        }

        assert(term.view().lin() >= start) by {
            if n0 >= 1 { assert(term.view().row == t0.row - (n0 - 1)); assert(term.view().col == 0); }
        }
        let ghost lines0 = self.lines@;
        let term_width = term.width() as usize;

        let full_height = visual_line_count(&self.lines, term_width);

        let shift = match self.alignment {
            MultiProgressAlignment::Bottom if full_height < *bar_count => {
                let shift = *bar_count - full_height;
                for _j in 0..shift.as_usize()
                    invariant
                        term.view().wf(), term.view().same_geom(t0), term.view().flushed == t0.flushed,
                        term.view().lin() >= start,
                        forall|p: int| p < start ==> (#[trigger] (term.view().cells)(p)) == (t0.cells)(p),
                {
                    let ghost tb = term.view();
                    term.write_line("")?;
                    proof {
                        reveal_strlit(""); assert(""@ =~= Seq::<char>::empty()); cols_empty();
                        assert(cols(""@) == 0);
                        assert(term.view().row == tb.row + 1);
                        assert(term.view().col == 0);
                        assert((tb.row + 1) * tb.w >= tb.row * tb.w + tb.col) by (nonlinear_arith) requires tb.col <= tb.w;
                        assert(term.view().lin() == (tb.row + 1) * tb.w);
                    }
                }
                shift
            }
            _ => VisualLines::default(),
        };

        let mut real_height = VisualLines::default();

        let mut idx = 0;
        while idx < self.lines.len()
            invariant
                idx <= self.lines.len(), self.lines@ == lines0, lines_ok(lines0), term_width as nat == t0.w, t0.wf(), t0.w <= 65535,
                term.view().wf(), term.view().same_geom(t0), term.view().flushed == t0.flushed,
                term.view().lin() >= start,
                forall|p: int| p < start ==> (#[trigger] (term.view().cells)(p)) == (t0.cells)(p),
                real_height.0 as nat == rh(lines0, t0.w, idx as int), real_height.0 as nat <= t0.h,
                forall|k: int| 0 <= k < idx ==> !brk(lines0, t0.w, t0.h, k),
                hts(lines0, t0.w, lines0.len() as int) <= 0x7FFF_FFFF,
            ensures
                idx <= self.lines.len(), self.lines@ == lines0,
                idx == lines0.len() || brk(lines0, t0.w, t0.h, idx as int),
                term.view().wf(), term.view().same_geom(t0), term.view().flushed == t0.flushed,
                forall|p: int| p < start ==> (#[trigger] (term.view().cells)(p)) == (t0.cells)(p),
                real_height.0 as nat == rh(lines0, t0.w, idx as int), real_height.0 as nat <= t0.h,
                forall|k: int| 0 <= k < idx ==> !brk(lines0, t0.w, t0.h, k),
            decreases self.lines.len() - idx
        {
            let line = &self.lines[idx];
            let line_height = line.wrapped_height(term_width);
            proof {
                lemma_rh_le_hts(lines0, t0.w, idx as int);
                lemma_hts_mono(lines0, t0.w, idx as int + 1, lines0.len() as int);
                lemma_height_covers(cols(line_str(lines0[idx as int])), t0.w);
                assert(cols(line_str(lines0[idx as int])) <= 0xFFFF_FFFF);
                assert(line_height.0 <= 0x1_0000_0001);
            }

            if matches!(line, LineType::Bar(_)) {
                if real_height + line_height > term.height().into() {
                    break;
                }

                real_height += line_height;
            }

            if idx != 0 {
                let ghost tb = term.view();
                term.write_line("")?;
                proof {
                    reveal_strlit(""); assert(""@ =~= Seq::<char>::empty()); cols_empty();
                    assert((tb.row + 1) * tb.w >= tb.row * tb.w + tb.col) by (nonlinear_arith) requires tb.col <= tb.w;
                }
            }

            term.write_str(line.as_ref())?;

            if idx + 1 == self.lines.len() {
                proof {
                    assert(line_height.0 as int * term_width as int <= 281470681808895int) by (nonlinear_arith)
                        requires line_height.0 as int <= 0x1_0000_0001, term_width as int <= 65535, line_height.0 as int >= 0, term_width as int >= 0;
                    assert(line_height.0 as nat == height_of(lines0[idx as int], t0.w));
                    assert(line_height.0 * term_width >= cols(line_str(lines0[idx as int])));
                }
                let last_line_filler = line_height.as_usize() * term_width - line.console_width();
                term.write_str(&repeat_space(last_line_filler))?;
            }
            idx += 1;
        }

        term.flush()?;
        proof {
            lemma_stop(lines0, t0.w, t0.h, 0, idx as int);
            lemma_rh_le_hts(lines0, t0.w, idx as int);
            lemma_hts_mono(lines0, t0.w, idx as int, lines0.len() as int);
        }
        *bar_count = real_height + shift;

        Ok(())
    }
}

} // verus!
fn main() {}
