use vstd::prelude::*;
verus! {
pub struct DS { pub lines: Vec<u64>, pub al: bool }
pub enum TK { Term { last: usize, ds: DS }, Hidden }
pub enum Drawable<'a> { Term { last: &'a mut usize, ds: &'a mut DS } }

fn drawable<'a>(k: &'a mut TK) -> (r: Option<Drawable<'a>>)
    ensures
        *old(k) is Hidden ==> r.is_none() && *final(k) == *old(k),
        *old(k) is Term ==> (r matches Some(Drawable::Term{last, ds}) && *last == (*old(k))->last && *ds == (*old(k))->ds && *final(k) == (TK::Term{ last: *final(last), ds: *final(ds) })),
{
    match k {
        TK::Term { last, ds } => Some(Drawable::Term { last, ds }),
        _ => None,
    }
}
fn user(k: &mut TK)
    requires *old(k) is Hidden
    ensures *final(k) == *old(k)
{
    let d = drawable(k);
    match d {
        Some(Drawable::Term { last, ds }) => { *last = 3; ds.lines.push(1); }
        None => {}
    }
}
fn user2(k: &mut TK)
    requires *old(k) is Term
    ensures (*final(k))->last == 3
{
    let d = drawable(k);
    match d {
        Some(Drawable::Term { last, ds }) => { *last = 3; ds.lines.push(1); }
        None => {}
    }
}
} // verus!
fn main() {}
