use vstd::prelude::*;
use vstd::std_specs::cmp::*;
use core::cmp::Ordering;
verus! {
#[derive(Clone, Copy, Eq, Ord, PartialEq, PartialOrd)]
pub struct VisualLines(pub usize);

impl PartialEqSpecImpl for VisualLines {
    open spec fn obeys_eq_spec() -> bool { true }
    open spec fn eq_spec(&self, o: &VisualLines) -> bool { self.0 == o.0 }
}
impl PartialOrdSpecImpl for VisualLines {
    open spec fn obeys_partial_cmp_spec() -> bool { true }
    open spec fn partial_cmp_spec(&self, o: &VisualLines) -> Option<Ordering> {
        if self.0 < o.0 { Some(Ordering::Less) } else if self.0 == o.0 { Some(Ordering::Equal) } else { Some(Ordering::Greater) }
    }
}

fn t(a: VisualLines, b: VisualLines) {
    let r = a < b;
    assert(r == (a.0 < b.0));
    let e = a == b;
    assert(e == (a.0 == b.0));
    let g = a > b;
    assert(g == (a.0 > b.0));
}
} // verus!
fn main() {}
