// in-place Kani harnesses for src/draw_target.rs (child module: sees private items via super::*)
#![allow(unused_imports, dead_code)]
use super::*;
