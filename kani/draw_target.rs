// in-place Kani harnesses for src/draw_target.rs (child module: sees private items via super::*)
#![allow(unused_imports, dead_code)]
use super::*;

static mut MOCK_COLS: usize = 0;
fn mock_width(_s: &str) -> usize {
    unsafe { MOCK_COLS }
}

/// C19 / C01: LineType::wrapped_height == max(1, ceil(cols / width)).
/// BOUNDED stand-in (the f64 division + ceil does not finish on the full u32 x u16 domain):
/// cols <= 4096, width in 1..=256.  Not counted as proved.
#[kani::proof]
#[kani::stub(console::measure_text_width, mock_width)]
fn c19_wrapped_height_bounded() {
    let cols: usize = kani::any();
    kani::assume(cols <= 4096);
    unsafe {
        MOCK_COLS = cols;
    }
    let line = LineType::Empty;
    let width: usize = kani::any();
    kani::assume(width >= 1 && width <= 256);
    let h = line.wrapped_height(width).as_usize();
    let expect = if cols == 0 {
        1
    } else {
        (cols + width - 1) / width
    };
    assert!(h == expect, "wrapped_height == max(1, ceil(cols/width))");
    kani::cover!(h > 1, "cover: wraps");
}
