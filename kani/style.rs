// in-place Kani harnesses for src/style.rs (child module: sees private items via super::*)
#![allow(unused_imports, dead_code)]
use super::*;

// std's RandomState::new() reads OS randomness (unsupported by Kani); format_bar never touches the
// custom-key map, so a fixed hasher state is used in the fixture (-Z stubbing).
fn fixed_random_state() -> std::collections::hash_map::RandomState {
    unsafe { std::mem::zeroed() }
}

fn mk_style(nchars: usize, char_width: usize) -> ProgressStyle {
    let mut pcs: Vec<Box<str>> = Vec::new();
    let mut i = 0;
    while i < nchars {
        pcs.push("x".into());
        i += 1;
    }
    ProgressStyle {
        tick_strings: Vec::new(),
        progress_chars: pcs,
        template: Template { parts: Vec::new() },
        char_width,
        tab_width: 8,
        format_map: HashMap::default(),
    }
}

/// C13 / C14: geometry of format_bar for EVERY fraction in [0,1] (all f32 bit patterns in range),
/// every bar width up to u16::MAX columns, cell widths 1..=2 and 2..=5 progress characters.
/// Loop-free in the function under test (the only loop builds the fixture): complete for the
/// stated domain.
#[kani::proof]
#[kani::unwind(7)]
#[kani::stub(std::collections::hash_map::RandomState::new, fixed_random_state)]
fn c13_format_bar_geometry() {
    let nchars: usize = kani::any();
    kani::assume(nchars >= 2 && nchars <= 5);
    let cw: usize = kani::any();
    kani::assume(cw >= 1 && cw <= 2);
    let style = mk_style(nchars, cw);
    let fract: f32 = kani::any();
    kani::assume(fract >= 0.0 && fract <= 1.0);
    let width: usize = kani::any();
    kani::assume(width <= 65_535);
    let bar = style.format_bar(fract, width, None);
    let cells = width / cw;
    let fill = fract * cells as f32;
    // filled cells: floor(fraction * cells), never more than the bar has
    assert!(
        bar.filled == fill as usize,
        "filled == floor(fraction*cells)"
    );
    assert!(bar.filled <= cells, "filled <= cells");
    // exactly one partial cell iff the bar is neither empty nor full
    assert!(
        bar.cur.is_some() == (fill > 0.0 && bar.filled < cells),
        "partial cell iff neither empty nor full"
    );
    if fract == 0.0 {
        assert!(bar.filled == 0 && bar.cur.is_none(), "empty at fraction 0");
    }
    if fract == 1.0 {
        assert!(
            bar.filled == cells && bar.cur.is_none(),
            "full at fraction 1"
        );
    }
    // the partial cell is one of the configured progress characters
    if let Some(c) = bar.cur {
        assert!(
            c >= 1 && c < nchars,
            "partial cell index within progress_chars"
        );
        assert!(c < bar.chars.len(), "index valid for BarDisplay::fmt");
    }
    kani::cover!(
        bar.cur.is_some() && bar.filled > 0,
        "cover: partially filled"
    );
}

fn mk_state(pos: u64, len: Option<u64>) -> ProgressState {
    use crate::state::AtomicPosition;
    let ap = std::sync::Arc::new(AtomicPosition::new());
    ap.set(pos);
    ProgressState::new(len, ap)
}

/// C13: the filled count equals the cell count exactly when position >= length, and is 0 at
/// position 0 -- for all lengths and positions up to 2^24 (where f32 division is exact enough),
/// all bar widths up to u16::MAX, one-column cells.
#[kani::proof]
#[kani::unwind(4)]
#[kani::stub(std::collections::hash_map::RandomState::new, fixed_random_state)]
#[kani::stub(std::time::Instant::now, zero_instant)]
fn c13_full_iff_complete() {
    let style = mk_style(2, 1);
    let pos: u64 = kani::any();
    let len: u64 = kani::any();
    kani::assume(pos <= 1 << 24 && len >= 1 && len <= 1 << 24);
    let st = mk_state(pos, Some(len));
    let width: usize = kani::any();
    kani::assume(width >= 1 && width <= 65_535);
    let bar = style.format_bar(st.fraction(), width, None);
    assert!(
        (bar.filled == width) == (pos >= len),
        "full exactly when position >= length"
    );
    if pos == 0 {
        assert!(bar.filled == 0, "empty at position 0");
    }
    kani::cover!(
        bar.filled > 0 && bar.filled < width,
        "cover: strictly inside"
    );
}

fn zero_instant() -> Instant {
    unsafe { std::mem::zeroed() }
}

/// C13: the filled count is monotone in the position (same length, same width).
#[kani::proof]
#[kani::unwind(4)]
#[kani::stub(std::collections::hash_map::RandomState::new, fixed_random_state)]
#[kani::stub(std::time::Instant::now, zero_instant)]
fn c13_filled_monotone() {
    let style = mk_style(2, 1);
    let p1: u64 = kani::any();
    let p2: u64 = kani::any();
    let len: u64 = kani::any();
    // bounded stand-in (the unbounded statement is the Verus lemma filled_monotone over the reals; the full
    // 2^24 x 2^24 x 2^16 domain did not finish within two hours of CBMC time)
    kani::assume(p1 <= p2 && p2 <= 1 << 10 && len >= 1 && len <= 1 << 10);
    let width: usize = kani::any();
    kani::assume(width <= 255);
    let b1 = style.format_bar(mk_state(p1, Some(len)).fraction(), width, None);
    let b2 = style.format_bar(mk_state(p2, Some(len)).fraction(), width, None);
    assert!(
        b1.filled <= b2.filled,
        "filled count is monotone in the position"
    );
    kani::cover!(b1.filled < b2.filled, "cover: strictly increasing");
}
