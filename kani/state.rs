// in-place Kani harnesses for src/state.rs (child module: sees private items via super::*)
#![allow(unused_imports, dead_code)]
use super::*;

fn mk_state(pos: u64, len: Option<u64>, status: Status) -> ProgressState {
    let ap = Arc::new(AtomicPosition {
        pos: AtomicU64::new(pos),
        capacity: AtomicU8::new(0),
        prev: AtomicU64::new(0),
        start: unsafe { std::mem::zeroed() },
    });
    ProgressState {
        pos: ap,
        len,
        tick: 0,
        started: unsafe { std::mem::zeroed() },
        status,
        est: Estimator::new(unsafe { std::mem::zeroed() }),
        message: TabExpandedString::NoTabs("".into()),
        prefix: TabExpandedString::NoTabs("".into()),
    }
}

/// C07 (and C13): the completed fraction, for ALL u64 positions and ALL Option<u64> lengths.
/// Loop-free, full domain: a complete proof, not a bounded stand-in.
#[kani::proof]
fn c07_fraction_full_domain() {
    let pos: u64 = kani::any();
    let len: Option<u64> = kani::any();
    let st = mk_state(pos, len, Status::InProgress);
    let f = st.fraction();
    assert!(f >= 0.0 && f <= 1.0, "fraction within [0,1]");
    if len == Some(0) {
        assert!(f == 1.0, "zero length is complete");
    }
    if len.is_none() {
        assert!(f == 0.0, "unknown length is 0");
    }
    if let Some(l) = len {
        if l > 0 && pos >= l {
            assert!(f == 1.0, "pos >= len is complete");
        }
        if l > 0 && pos == 0 {
            assert!(f == 0.0, "position 0 is empty");
        }
    }
    kani::cover!(
        len.is_some() && pos > 0 && f > 0.0 && f < 1.0,
        "cover: strictly inside"
    );
}

/// Same claims on a narrowed domain (bounded stand-in for the quick tier).
#[kani::proof]
fn c07_fraction_u24() {
    let pos: u64 = kani::any();
    let len: Option<u64> = kani::any();
    kani::assume(pos <= 1 << 24);
    if let Some(l) = len {
        kani::assume(l <= 1 << 24);
    }
    let st = mk_state(pos, len, Status::InProgress);
    let f = st.fraction();
    assert!(f >= 0.0 && f <= 1.0, "fraction within [0,1]");
    if len == Some(0) {
        assert!(f == 1.0, "zero length is complete");
    }
    if len.is_none() {
        assert!(f == 0.0, "unknown length is 0");
    }
    if let Some(l) = len {
        if l > 0 && pos >= l {
            assert!(f == 1.0, "pos >= len is complete");
        }
        if l > 0 && pos < l {
            assert!(
                f < 1.0,
                "for lengths up to 2^24 the fraction is 1 only when complete"
            );
        }
        if l > 0 && pos == 0 {
            assert!(f == 0.0, "position 0 is empty");
        }
    }
    kani::cover!(
        len.is_some() && pos > 0 && f > 0.0 && f < 1.0,
        "cover: strictly inside"
    );
}
