// in-place Kani harnesses for src/iter.rs (child module: sees private items via super::*)
#![allow(unused_imports, dead_code)]
use super::*;
