"""Unit assembly: cut items out of /repo/src *now*, apply the closed rewrite catalogue, splice
contracts, and emit one single-file Verus program plus the tables needed to map verifier
diagnostics back to named obligations.

Spec files (/verif/specs/*.py) build a `Unit` out of the classes below.
"""
import hashlib
import json
import os
import re

from . import rustscan
from .rustscan import ScanError

REPO = os.environ.get("VERIF_REPO", "/repo")
SPECS = os.path.join(os.path.dirname(os.path.dirname(os.path.abspath(__file__))), "specs")


class Drift(Exception):
    """The source no longer has the shape the spec was written against (lost anchor, rewrite
    pattern count mismatch, item not found).  Reported as *undecided* (exit 2), never as a
    violation."""


_cache = {}


def load_source(relpath):
    p = os.path.join(REPO, relpath)
    key = (p, os.path.getmtime(p))
    if key not in _cache:
        with open(p, encoding="utf-8") as f:
            _cache[key] = rustscan.SourceFile(relpath, f.read())
    return _cache[key]


class Rw:
    """One rewrite of the catalogue: regex `pat` -> `repl`, must apply exactly `count` times
    (count=None: at least once).  `rid` is the catalogue id (R1..R13) for the evidence."""

    def __init__(self, rid, pat, repl, count=1, flags=0):
        self.rid, self.pat, self.repl, self.count, self.flags = rid, pat, repl, count, flags

    def apply(self, text, where):
        new, n = re.subn(self.pat, self.repl, text, flags=self.flags)
        if self.count == "any":      # an optional normalisation: zero applications are fine
            return new, n
        if (self.count is None and n == 0) or (self.count is not None and n != self.count):
            raise Drift("%s: rewrite %s /%s/ applied %d times, expected %s" %
                        (where, self.rid, self.pat, n, self.count))
        return new, n


class RwFn:
    """A rewrite of the catalogue implemented by a function text -> (text, n_applications)."""

    def __init__(self, rid, func, count=None):
        self.rid, self.func, self.count = rid, func, count

    def apply(self, text, where):
        new, n = self.func(text)
        if (self.count is None and n == 0) or (self.count is not None and n != self.count):
            raise Drift("%s: rewrite %s applied %d times, expected %s" % (where, self.rid, n, self.count))
        return new, n


def r4_split_or_guard_arms(text):
    """R4: a match arm `(A | B, C | D) if GUARD => { BODY }` (or-pattern AND guard, rejected by
    Verus) is duplicated into adjacent arms, one per combination of alternatives, with the same
    guard and body.  Only flat tuple patterns with a block body are handled."""
    import itertools
    n = 0
    out = text
    while True:
        mask = rustscan.code_mask(out)
        m = None
        for mm in re.finditer(r"\(([^()=>]*?\|[^()=>]*?)\)\s+if\s+([^{}]*?)=>\s*\{", out):
            if mask[mm.start()]:
                m = mm
                break
        if not m:
            break
        op = m.end() - 1
        cl = rustscan.match_brace(out, mask, op)
        body = out[op:cl + 1]
        comps = [[a.strip() for a in c.split("|")] for c in m.group(1).split(",")]
        arms = "".join("(%s) if %s=> %s\n                " % (", ".join(combo), m.group(2), body)
                       for combo in itertools.product(*comps))
        out = out[:m.start()] + arms.rstrip() + out[cl + 1:]
        n += 1
    return out, n


def r3_index_loops(text):
    """R3: `for PAT in &mut E {B}` / `for PAT in &E {B}` / `for &PAT in &E {B}` /
    `for (I, PAT) in E.iter().enumerate() {B}` become index loops (the textbook desugaring;
    the index is advanced at the top of the body so that `continue` / `break` keep their
    meaning).  E must be a simple place expression (identifiers, dots)."""
    n = 0
    out = text
    pats = [
        (r"for\s+\((\w+),\s*(&?\w+)\)\s+in\s+([\w.]+)\.iter\(\)\.enumerate\(\)\s*\{", "enum"),
        (r"for\s+\((\w+),\s*(\w+)\)\s+in\s+([\w.]+)\.chars\(\)\.enumerate\(\)\s*\{", "chars"),
        (r"for\s+(&?\w+)\s+in\s+&mut\s+([\w.]+)\s*\{", "mut"),
        (r"for\s+(&?\w+)\s+in\s+&([\w.]+)\s*\{", "ref"),
        (r"for\s+(&?\w+)\s+in\s+([\w.]+)\.iter\(\)\s*\{", "ref"),
        (r"for\s+(\w+)\s+in\s+(\w+)\s*\{", "val"),
    ]
    while True:
        mask = rustscan.code_mask(out)
        hit = None
        for (pat, kind) in pats:
            for mm in re.finditer(pat, out):
                if mask[mm.start()] and (hit is None or mm.start() < hit[0].start()):
                    hit = (mm, kind)
                    break
        if not hit:
            break
        mm, kind = hit
        k = n
        if kind == "chars":
            # iterate over the characters of a string: materialise them once (R5 chars_of)
            ivar, pv, expr = mm.group(1), mm.group(2), mm.group(3)
            head = ("let __cs%d = chars_of(&%s); let mut __n%d: usize = 0; while __n%d < __cs%d.len() { let %s = __n%d; __n%d += 1; let %s = __cs%d[%s];"
                    % (k, expr, k, k, k, ivar, k, k, pv, k, ivar))
            out = out[:mm.start()] + head + out[mm.end():]
            n += 1
            continue
        if kind == "enum":
            ivar, pvar, expr = mm.group(1), mm.group(2), mm.group(3)
        else:
            ivar, pvar, expr = "__i%d" % k, mm.group(1), mm.group(2)
        deref = pvar.startswith("&")
        pv = pvar.lstrip("&")
        elem = "%s[__k%d]" % (expr, k)
        if kind == "mut":
            bind = "let %s = &mut %s;" % (pv, elem)
        elif deref or kind == "val":
            bind = "let %s = %s;" % (pv, elem)   # element copied out (Copy types only)
        else:
            bind = "let %s = &%s;" % (pv, elem)
        # the loop body: if it has no `continue`, advance the index at the END of the body (so that
        # the index still names the current element at a `break`); otherwise at the top
        op = mm.end() - 1
        cl = rustscan.match_brace(out, rustscan.code_mask(out), op)
        body_txt = out[op + 1:cl]
        has_continue = re.search(r"\bcontinue\b", strip_comments(body_txt)) is not None
        if has_continue:
            adv_top, adv_end = "__n%d += 1; " % k, ""
        else:
            adv_top, adv_end = "", " __n%d += 1; " % k
        if kind == "enum":
            head = "let mut __n%d: usize = 0; while __n%d < %s.len() { let %s = __n%d; let __k%d = __n%d; %s%s" % (k, k, expr, ivar, k, k, k, adv_top, bind)
        else:
            head = "let mut __n%d: usize = 0; while __n%d < %s.len() { let __k%d = __n%d; %s%s" % (k, k, expr, k, k, adv_top, bind)
        out = out[:mm.start()] + head + body_txt + adv_end + out[cl:]
        n += 1
    return out, n


def r3_drain_loops(text):
    """R3d: `for X in E.drain(..) { B }` -> `let mut __dr = drain_all(&mut E); while __dr.len() > 0 { let X =
    __dr.remove(0); B }` (same elements in the same order; E is left empty, as drain(..) leaves it)."""
    n = 0
    out = text
    while True:
        mask = rustscan.code_mask(out)
        mm = None
        for m in re.finditer(r"for\s+(\w+)\s+in\s+([\w.]+)\.drain\(\.\.\)\s*\{", out):
            if mask[m.start()]:
                mm = m
                break
        if not mm:
            break
        head = "let mut __dr%d = drain_all(&mut %s); while __dr%d.len() > 0 { let %s = __dr%d.remove(0);" % (n, mm.group(2), n, mm.group(1), n)
        out = out[:mm.start()] + head + out[mm.end():]
        n += 1
    return out, n


def r3_fold(text):
    """R3b: `E.iter().fold(INIT, |acc, x| BODY)` -> `{ let mut acc = INIT; index loop { acc = BODY; } acc }`
    (the textbook desugaring of Iterator::fold over a slice)."""
    n = 0
    out = text
    while True:
        mask = rustscan.code_mask(out)
        mm = None
        for m in re.finditer(r"([\w.]+)\.iter\(\)\.fold\(", out):
            if mask[m.start()]:
                mm = m
                break
        if not mm:
            break
        op = mm.end() - 1
        cl = rustscan.match_brace(out, mask, op)
        inner = out[op + 1:cl]
        m2 = re.match(r"\s*(.*?),\s*\|(\w+),\s*(\w+)\|\s*(.*)$", inner, re.S)
        if not m2:
            raise Drift("R3b: unsupported fold shape: " + inner[:80])
        init, acc, x, body = m2.group(1), m2.group(2), m2.group(3), m2.group(4).strip()
        expr = mm.group(1)
        k = n
        rep = ("{ let mut %s = %s; let mut __f%d: usize = 0; while __f%d < %s.len() { let %s = &%s[__f%d]; %s = %s; __f%d += 1; } %s }"
               % (acc, init, k, k, expr, x, expr, k, acc, body, k, acc))
        out = out[:mm.start()] + rep + out[cl + 1:]
        n += 1
    return out, n


def _split_top_commas(t):
    mask = rustscan.code_mask(t)
    out, depth, cur = [], 0, []
    for i, ch in enumerate(t):
        if mask[i]:
            if ch in "([{":
                depth += 1
            elif ch in ")]}":
                depth -= 1
            elif ch == "," and depth == 0:
                out.append("".join(cur).strip()); cur = []
                continue
        cur.append(ch)
    if "".join(cur).strip():
        out.append("".join(cur).strip())
    return out


def r7b_write_fmt(text):
    """R7b: `SINK.write_fmt(format_args!("FMT", args..)).unwrap()` (SINK a String) becomes a block of
    string-sink calls, one per piece of the format string: literal -> s_lit(&mut SINK, ".."),
    `{}` / `{name}` -> s_disp(&mut SINK, x, Fl::Plain), `{:#}` -> Fl::Alt, `{:.*}` (precision, value) and
    `{:.1$}` (value, precision) -> Fl::Prec(p).  What core::fmt prints for a value under a flag is the
    ASSUMED meaning of `sdisp`; writing into a String cannot fail (the unwrap is dropped with it)."""
    n = 0
    out = text
    while True:
        mask = rustscan.code_mask(out)
        mm = None
        for m in re.finditer(r"(\b[\w.]+?)\s*\.write_fmt\(\s*format_args!\(", out):
            if mask[m.start()]:
                mm = m
                break
        if not mm:
            break
        op = mm.end() - 1
        cl = rustscan.match_brace(out, mask, op)          # closes format_args!(
        inner = out[op + 1:cl]
        # after it: `)` closing write_fmt and `.unwrap()`
        m3 = re.match(r"\s*\)\s*\.unwrap\(\)", out[cl + 1:])
        if not m3:
            raise Drift("R7b: write_fmt(..) without .unwrap(): " + out[mm.start():cl + 30])
        end = cl + 1 + m3.end()
        parts = _split_top_commas(inner)
        fmt = parts[0]
        if not (fmt.startswith('"') and fmt.endswith('"')):
            raise Drift("R7b: non-literal format string " + fmt[:40])
        fmt = fmt[1:-1]
        args = parts[1:]
        sink = mm.group(1)
        calls = []
        pos = 0
        ai = 0
        for pm in re.finditer(r"\{\{|\}\}|\{([^{}]*)\}", fmt):
            if pm.start() > pos:
                calls.append('s_lit(&mut %s, "%s");' % (sink, fmt[pos:pm.start()]))
            pos = pm.end()
            if pm.group(0) in ("{{", "}}"):
                calls.append('s_lit(&mut %s, "%s");' % (sink, pm.group(0)[0]))
                continue
            name, _, flags = pm.group(1).partition(":")
            if flags == ".*":
                prec = args[ai]; val = args[ai + 1]; ai += 2
                calls.append("s_disp(&mut %s, %s, Fl::Prec(%s as usize));" % (sink, val, prec))
                continue
            if name == "":
                val = args[ai]; ai += 1
            else:
                val = name
            if flags == "":
                fl = "Fl::Plain"
            elif flags == "#":
                fl = "Fl::Alt"
            elif re.fullmatch(r"\.(\d+)\$", flags):
                fl = "Fl::Prec(%s)" % args[int(flags[1:-1])]
            elif re.fullmatch(r"\.\d+", flags):
                fl = "Fl::Prec(%s)" % flags[1:]
            else:
                raise Drift("R7b: unsupported flags {%s}" % pm.group(1))
            calls.append("s_disp(&mut %s, %s, %s);" % (sink, val, fl))
        if pos < len(fmt):
            calls.append('s_lit(&mut %s, "%s");' % (sink, fmt[pos:]))
        out = out[:mm.start()] + "{ " + " ".join(calls) + " }" + out[end:]
        n += 1
    return out, n



def r6_float_literals(text):
    """R6: decimal float literals (`0.0`, `1e-4`, `100f32`, `1_000_000_000f64`) become exact rationals
    `F64::ratio(n, d)` of the real-arithmetic shim."""
    from fractions import Fraction
    mask = rustscan.code_mask(text)
    n = 0
    out = []
    pos = 0
    for m in re.finditer(r"(?<![\w.])(\d[\d_]*\.\d[\d_]*(?:e[+-]?\d+)?|\d[\d_]*e[+-]?\d+|\d[\d_]*(?=_?f(?:32|64)))(?:_?f(?:32|64))?(?![\w.])", text):
        if not mask[m.start()]:
            continue
        lit = m.group(1).replace("_", "")
        fr = Fraction(lit)
        out.append(text[pos:m.start()])
        out.append("F64::ratio(%d, %d)" % (fr.numerator, fr.denominator))
        pos = m.end()
        n += 1
    out.append(text[pos:])
    return "".join(out), n


def r12_match_str(text):
    """R12: `match E.as_str() { "lit" => A, ... , _ => D }` -> `if str_eq(E, "lit") { A } else if ... else { D }`
    (string-literal patterns are not connected to view equality in Verus)."""
    n = 0
    out = text
    while True:
        mask = rustscan.code_mask(out)
        mm = None
        for m in re.finditer(r"match\s+(\w+)\.as_str\(\)\s*\{", out):
            if mask[m.start()]:
                mm = m
                break
        if not mm:
            break
        op = mm.end() - 1
        cl = rustscan.match_brace(out, mask, op)
        body = out[op + 1:cl]
        bm = rustscan.code_mask(body)
        arms = []
        i = 0
        L = len(body)
        while i < L:
            m2 = re.compile(r"\s*(\"(?:[^\"\\]|\\.)*\"|_)\s*=>\s*").match(body, i)
            if not m2:
                if body[i:].strip() == "":
                    break
                raise Drift("R12: unsupported arm near: " + body[i:i + 60])
            pat = m2.group(1)
            j = m2.end()
            if body[j] == "{":
                k = rustscan.match_brace(body, bm, j)
                expr = body[j + 1:k]
                j = k + 1
                m4 = re.compile(r"\s*,?").match(body, j)
                j = m4.end()
            else:
                depth = 0
                k = j
                while k < L:
                    if bm[k]:
                        if body[k] in "([{":
                            depth += 1
                        elif body[k] in ")]}":
                            depth -= 1
                        elif body[k] == "," and depth == 0:
                            break
                    k += 1
                expr = body[j:k].strip()
                if expr and not expr.endswith(";") and expr != "()":
                    expr += ";"
                if expr == "()":
                    expr = ""
                j = k + 1
            arms.append((pat, expr))
            i = j
        chain = ""
        default = ""
        first = True
        for pat, expr in arms:
            if pat == "_":
                default = expr
                continue
            chain += ("if" if first else " else if") + " str_eq(%s, %s) { %s }" % (mm.group(1), pat, expr)
            first = False
        chain += " else { %s }" % default
        # the literals' contents are revealed so that the tests decide view equality
        def _chars(lit):   # the literal's characters as a seq! (plain ASCII keys only)
            body = lit[1:-1]
            if not re.fullmatch(r"[A-Za-z0-9_ ]*", body):
                raise Drift("R12: non-alphanumeric literal pattern " + lit)
            return "seq![%s]" % ", ".join("'%s'" % ch for ch in body)
        # reveals are scoped to their block: assert the contents so that they stay known
        reveals = " ".join("reveal_strlit(%s); assert(%s@ =~= %s);" % (pat, pat, _chars(pat)) for pat, _ in arms if pat != "_")
        chain = "proof { %s }\n" % reveals + chain
        out = out[:mm.start()] + chain + out[cl + 1:]
        n += 1
    return out, n


def r7_write_macros(text):
    """R7: `write!(f, "FMT", args..)` becomes a block of sink calls, one per piece of the format
    string: literal text -> f.write_str("..")?, `{x}` / `{}` -> f.w_display(x)?, `{x:02}` ->
    f.w_pad2(x)?, `{x:.N}` -> f.w_fixed(x, N)?, `{x:?}` -> f.w_debug(x)?; the block ends in Ok(()).
    What core::fmt prints for each argument is the (ASSUMED) contract of those sink methods;
    which argument is printed with which flags, and the literal text, stay visible."""
    n = 0
    out = text
    while True:
        mask = rustscan.code_mask(out)
        mm = None
        for m in re.finditer(r"\bwrite!\(", out):
            if mask[m.start()]:
                mm = m
                break
        if not mm:
            break
        op = mm.end() - 1
        cl = rustscan.match_brace(out, mask, op)
        inner = out[op + 1:cl]
        m2 = re.match(r"\s*(\w+)\s*,\s*\"((?:[^\"\\]|\\.)*)\"\s*(?:,(.*))?$", inner, re.S)
        if not m2:
            raise Drift("R7: unsupported write! shape: " + inner[:80])
        sink, fmt, rest = m2.group(1), m2.group(2), (m2.group(3) or "")
        args = [a.strip() for a in rest.split(",") if a.strip()]
        pieces = []
        pos = 0
        ai = 0
        for pm in re.finditer(r"\{\{|\}\}|\{([^{}]*)\}", fmt):
            if pm.start() > pos:
                pieces.append(("lit", fmt[pos:pm.start()]))
            pos = pm.end()
            if pm.group(0) == "{{":
                pieces.append(("lit", "{"))
                continue
            if pm.group(0) == "}}":
                pieces.append(("lit", "}"))
                continue
            spec = pm.group(1)
            name, _, flags = spec.partition(":")
            if name == "":
                name = args[ai]
                ai += 1
            pieces.append(("arg", name, flags))
        if pos < len(fmt):
            pieces.append(("lit", fmt[pos:]))
        # merge adjacent literals
        calls = []
        for pc in pieces:
            if pc[0] == "lit":
                calls.append('proof { reveal_strlit("%s"); } %s.write_str("%s")?;' % (pc[1], sink, pc[1]))
            else:
                name, flags = pc[1], pc[2]
                if flags == "":
                    calls.append("%s.w_display(%s)?;" % (sink, name))
                elif flags == "02":
                    calls.append("%s.w_pad2(%s)?;" % (sink, name))
                elif flags == "?":
                    calls.append("%s.w_debug(%s)?;" % (sink, name))
                elif re.fullmatch(r"\.\d+", flags):
                    calls.append("%s.w_fixed(%s, %s)?;" % (sink, name, flags[1:]))
                else:
                    raise Drift("R7: unsupported format flags {%s}" % spec)
        block = "{ " + " ".join(calls) + " Ok(()) }"
        out = out[:mm.start()] + block + out[cl + 1:]
        n += 1
    return out, n


def strip_comments(text):
    """Remove // and /* */ comments (R1) but keep string literals intact."""
    mask = rustscan.code_mask(text)
    out = []
    i = 0
    n = len(text)
    while i < n:
        if not mask[i] and (text.startswith("//", i) or text.startswith("/*", i)):
            # skip the whole masked run that starts with a comment opener
            if text.startswith("//", i):
                j = text.find("\n", i)
                j = n if j < 0 else j
            else:
                depth, j = 1, i + 2
                while j < n and depth:
                    if text.startswith("/*", j):
                        depth += 1
                        j += 2
                    elif text.startswith("*/", j):
                        depth -= 1
                        j += 2
                    else:
                        j += 1
            i = j
        else:
            out.append(text[i])
            i += 1
    return "".join(out)


def strip_vis(text):
    return re.sub(r"\bpub(\((crate|super|self)\))?\s+", "", text)


def strip_inner_attrs(text):
    """R1: drop #[..] attribute lines inside item text (cfg'd alternatives must be handled by
    an explicit rewrite before this is called)."""
    return re.sub(r"(?m)^[ \t]*#\[[^\]]*\][ \t]*\n", "", text)


def name_return(sig, ret):
    """`fn f(..) -> T [where ..]`  ->  `fn f(..) -> (ret: T) [where ..]`"""
    mask = rustscan.code_mask(sig)
    depth = 0
    i = 0
    arrow = None
    while i < len(sig) - 1:
        if mask[i]:
            ch = sig[i]
            if ch in "([<" and not (ch == "<" and False):
                if ch != "<":
                    depth += 1
            elif ch in ")]":
                depth -= 1
            elif ch == "-" and sig[i + 1] == ">" and depth == 0:
                arrow = i
        i += 1
    if arrow is None:
        return sig, False
    rest = sig[arrow + 2:]
    mw = re.search(r"\bwhere\b", rest)
    ty = rest[:mw.start()] if mw else rest
    tail = rest[mw.start():] if mw else ""
    return sig[:arrow] + "-> (%s: %s) " % (ret, ty.strip()) + tail, True


class Decl:
    """struct / enum / const / type copied from the source (attributes dropped; `attrs`
    re-adds the derives Verus needs)."""

    def __init__(self, file, kind, name, rewrites=(), attrs="", keep_vis=False):
        self.file, self.kind, self.name = file, kind, name
        self.rewrites, self.attrs, self.keep_vis = list(rewrites), attrs, keep_vis

    def emit(self, unit):
        sf = load_source(self.file)
        try:
            it = sf.find_decl(self.kind, self.name)
        except ScanError as e:
            raise Drift(str(e))
        text = strip_inner_attrs(strip_comments(it.text))
        text = strip_vis(text)
        applied = ["R1"]
        for rw in self.rewrites:
            text, n = rw.apply(text, "%s %s" % (self.kind, self.name))
            applied.append(rw.rid)
        unit.note_item(self.file, "%s %s" % (self.kind, self.name), it, applied)
        return (self.attrs + "\n" if self.attrs else "") + text + "\n"


class ImplBlock:
    """A whole (small) trait impl block copied verbatim (comments/attributes dropped), e.g. the
    operator impls of VisualLines; `spec` is the R11 SpecImpl text giving the operators their
    structural meaning (Verus cannot put requires/ensures on trait impl methods)."""

    def __init__(self, file, container, spec="", rewrites=(), nth=0):
        self.file, self.container, self.spec, self.rewrites, self.nth = file, container, spec, list(rewrites), nth

    def emit(self, unit):
        sf = load_source(self.file)
        try:
            it = sf.find_impl(self.container, self.nth)
        except ScanError as e:
            raise Drift(str(e))
        text = strip_vis(strip_inner_attrs(strip_comments(it.text)))
        applied = ["R1"] + (["R11"] if self.spec else [])
        for rw in self.rewrites:
            text, n = rw.apply(text, "impl " + self.container)
            applied.append(rw.rid)
        unit.note_item(self.file, "impl " + self.container, it, applied)
        return text + "\n" + self.spec.strip("\n") + "\n"


class Raw:
    """Hand-written Verus text (spec functions, shims local to a unit).  Scanned for
    assumption keywords like everything else."""

    def __init__(self, text):
        self.text = text

    def emit(self, unit):
        return self.text.strip("\n") + "\n"


class Clause:
    def __init__(self, label, expr, props=None, note=""):
        self.label, self.expr, self.props, self.note = label, expr, props, note


def _clauses(lst):
    out = []
    for c in lst or []:
        if isinstance(c, Clause):
            out.append(c)
        elif isinstance(c, str):
            out.append(Clause("c%d" % (len(out) + 1), c))
        else:
            out.append(Clause(*c))
    return out



_FN_INDEX = None


class _Everything(set):
    def __contains__(self, x):
        return True


_ALL_NAMES = _Everything()


def _match_paren(text, mask, open_idx):
    d = 0
    for i in range(open_idx, len(text)):
        if mask[i]:
            if text[i] in "([{":
                d += 1
            elif text[i] in ")]}":
                d -= 1
                if d == 0:
                    return i
    return -1


def _split_top(text):
    """split at top-level commas (text without the enclosing parentheses)"""
    mask = rustscan.code_mask(text)
    out, d, last = [], 0, 0
    for i, ch in enumerate(text):
        if not mask[i]:
            continue
        if ch in "([{<" and not (ch == "<" and i > 0 and text[i - 1] in " =") :
            d += 1
        elif ch in ")]}>" and not (ch == ">" and i > 0 and text[i - 1] in "-="):
            d -= 1
        elif ch == "," and d == 0:
            out.append(text[last:i]); last = i + 1
    tail = text[last:]
    if tail.strip():
        out.append(tail)
    return [x.strip() for x in out]


_NEW_FNS = {"repo": None, "map": None}


def new_functions():
    """Every function of /repo/src/*.rs that is NOT on the pinned tree (specs/fn_index.json): name -> [(SourceFile,
    container, Item)].  These are the helpers a refactoring has split off; R21 inlines calls to them."""
    if _NEW_FNS["map"] is not None and _NEW_FNS["repo"] == REPO:
        return _NEW_FNS["map"]
    out = {}
    try:
        with open(os.path.join(SPECS, "fn_index.json")) as f:
            index = json.load(f)
    except Exception:
        index = None
    if index is not None:
        import glob
        for path in sorted(glob.glob(os.path.join(REPO, "src", "*.rs"))):
            rel = "src/" + os.path.basename(path)
            if rel not in index:
                continue     # a new file: nothing in it is under contract
            old = set(index[rel])
            try:
                sf = load_source(rel)
            except Exception:
                continue
            for (hdr, kw, o, c) in sf.impls():
                for mm in rustscan.find_code(sf.src, sf.mask, r"\bfn\s+(\w+)\b", o, c):
                    if sf._depth_between(o, mm.start()) == 1 and ("%s::%s" % (hdr, mm.group(1))) not in old:
                        try:
                            out.setdefault(mm.group(1), []).append((sf, hdr, sf._make_item("fn", mm.group(1), mm.start(), hdr)))
                        except ScanError:
                            pass
            for mm in rustscan.find_code(sf.src, sf.mask, r"\bfn\s+(\w+)\b"):
                if sf._depth_at(mm.start()) == 0 and ("::%s" % mm.group(1)) not in old:
                    try:
                        out.setdefault(mm.group(1), []).append((sf, None, sf._make_item("fn", mm.group(1), mm.start(), None)))
                    except ScanError:
                        pass
    _NEW_FNS["repo"], _NEW_FNS["map"] = REPO, out
    return out


def r21_inline_helpers(body, self_name, under_contract=()):
    """R21: a call of a function that is new relative to the pinned tree (a helper that a refactoring split off; see
    new_functions) is replaced by the helper's body: a block that first evaluates the arguments in order, binds them to
    the parameters and then runs the body, with `self` replaced by the receiver (the textbook beta-reduction of a
    call).  Only for helpers with a unique name, without `return`, `?` and recursion (type parameters are left to inference); receivers must be
    plain places (`self`, `self.style`, a local); three levels deep.  Returns (body, [names inlined])."""
    done = []
    news = new_functions()
    if not news:
        return body, done
    for _round in range(3):
        mask = rustscan.code_mask(body)
        hit = None
        for name, cands in news.items():
            if len(cands) != 1 or name == self_name or name in under_contract:
                continue
            (csf, ccont, cal) = cands[0]
            for mm in re.finditer(r"\b%s\(" % re.escape(name), body):
                if not mask[mm.start()] or re.search(r"\bfn\s*$", body[:mm.start()]):
                    continue
                csig = strip_vis(strip_comments(cal.signature)).strip()
                cbody = strip_comments(cal.body)
                cm = rustscan.code_mask(cbody)
                if any(cm[x.start()] for x in re.finditer(r"\breturn\b|\?", cbody)):
                    continue
                if re.search(r"\b%s\(" % re.escape(name), cbody):
                    continue
                po = csig.index("(")
                pc = _match_paren(csig, rustscan.code_mask(csig), po)
                params = _split_top(csig[po + 1:pc])
                takes_self = bool(params) and re.match(r"^(&\s*(mut\s+)?|mut\s+)?self$", re.sub(r"&\s*'\w+\s*", "&", params[0])) is not None
                # what stands in front of the name: a receiver (`recv.name(`), a path (`Self::name(`, `Type::name(`) or nothing
                start = mm.start()
                recv = None
                pre = body[:start]
                if pre.endswith("."):
                    rm = re.search(r"([A-Za-z_]\w*(?:\.\w+)*)\.$", pre)
                    if not rm or not takes_self:
                        continue
                    recv = rm.group(1)
                    start = rm.start(1)
                    if start > 0 and body[start - 1] in ".)]?":
                        continue      # the receiver is the result of a longer expression
                elif pre.endswith("::"):
                    rm = re.search(r"((?:[A-Za-z_]\w*::)+)$", pre)
                    if not rm or takes_self:
                        continue
                    start = rm.start(1)
                elif takes_self:
                    continue
                if takes_self:
                    params = params[1:]
                ao = mm.end() - 1
                ac = _match_paren(body, mask, ao)
                if ac < 0:
                    continue
                args = _split_top(body[ao + 1:ac])
                if len(args) != len(params):
                    continue
                hit = (start, ac + 1, name, params, args, cbody, recv)
                break
            if hit:
                break
        if not hit:
            break
        (a, b, name, params, args, cbody, recv) = hit
        inner = cbody[cbody.index("{") + 1:cbody.rindex("}")]
        if recv is not None and recv != "self":
            im = rustscan.code_mask(inner)
            inner = "".join(inner[i] for i in range(len(inner)))
            # `self` of the helper is the receiver of the call
            pieces, last = [], 0
            for x in re.finditer(r"\bself\b", inner):
                if im[x.start()]:
                    pieces.append(inner[last:x.start()]); pieces.append(recv); last = x.end()
            pieces.append(inner[last:])
            inner = "".join(pieces)
        binds = "".join("let __r21_%d = %s; " % (i, x) for i, x in enumerate(args))
        binds += "".join("let %s = __r21_%d; " % (prm, i) for i, prm in enumerate(params))
        body = body[:a] + "({ /* R21: %s inlined */ %s%s })" % (name, binds, inner) + body[b:]
        done.append(name)
    return body, done


class Fn:
    """A function cut out of the source with a contract spliced in.

    container : normalised impl header ("RateLimiter", "fmt::Display for HumanCount") or None
    emit_as   : header of the impl block to emit the function into (default: the source's own
                header text when it is an inherent impl, else `impl <SelfType>` — R13: trait
                methods are verified as inherent methods because Verus rejects `requires` on
                trait impls)
    ensures   : [(label, expr[, props[, note]])]  -> each is a named obligation
    findings  : same shape; each is verified on its own renamed copy `name__F_label`
                (so callers never see a clause that does not hold)
    loops     : {ordinal: {"invariant": [...], "decreases": "..", "ensures": [...]} }
    proofs    : [(anchor_regex, "before"|"after", text)]
    """

    def __init__(self, file, container, name, ret="r", requires=(), ensures=(), findings=(),
                 loops=None, proofs=(), rewrites=(), sig_rewrites=(), emit_as=None, nth=0,
                 decreases=None, attrs="", props=None, rename=None, no_canary=False,
                 opens_invariants=None, no_unwind=False, extra_variants=(), stub=False, also=()):
        self.file, self.container, self.name, self.ret = file, container, name, ret
        self.requires = _clauses(requires)
        self.ensures = _clauses(ensures)
        self.findings = _clauses(findings)
        self.loops = loops or {}
        self.proofs = list(proofs)
        self.rewrites = list(rewrites)
        self.sig_rewrites = list(sig_rewrites)
        self.emit_as = emit_as
        self.nth = nth
        self.decreases = decreases
        self.attrs = attrs
        self.props = props
        self.rename = rename
        self.no_canary = no_canary
        self.no_unwind = no_unwind
        self.also = list(also)   # properties every clause (and every safety condition) of this function serves in addition
        self.stub = stub   # emit signature + contract only (external_body): an ASSUMED contract here,
                           # to be discharged by the unit that verifies the same function

    # -- helpers ---------------------------------------------------------------------------
    def _impl_header(self, sf):
        if self.emit_as is not None:
            return self.emit_as
        if self.container is None:
            return None
        it = sf.find_impl(self.container)
        hdr = it.src[it.decl_start:it.body_open].strip()
        if " for " in rustscan.norm_impl_header(hdr):
            # R13: trait impl -> inherent impl of the self type, generics kept
            mm = re.match(r"impl(\s*<[^{]*?>)?\s+.*?\bfor\s+(.*)$", re.sub(r"\s+", " ", hdr))
            gen = mm.group(1) or ""
            return "impl%s %s" % (gen, mm.group(2))
        return hdr

    def emit(self, unit):
        sf = load_source(self.file)
        try:
            it = sf.find_fn(self.name, self.container, self.nth)
        except ScanError as e:
            raise Drift(str(e))
        where = "%s::%s" % (self.container or "", self.name)
        applied = ["R1"]
        sig = strip_vis(strip_comments(it.signature)).strip()
        body = strip_comments(it.body)
        if not self.stub:
            body, inl = r21_inline_helpers(body, self.name, set(it2.name for it2 in unit.items if isinstance(it2, Fn)))
            if inl:
                applied.append("R21")
                unit.inlined.setdefault(where, []).extend(inl)
        for rw in self.sig_rewrites:
            sig, n = rw.apply(sig, where + " (signature)")
            applied.append(rw.rid)
        for rw in self.rewrites:
            body, n = rw.apply(body, where)
            applied.append(rw.rid)
        body = strip_inner_attrs(body)
        self._last_source = it.body      # the function's source as it stands in /repo (used by attribution rules)
        if re.search(r"\(\s*mut self\b", sig):
            # R18: Verus rejects `mut self`; bind it to a local instead (same semantics)
            sig = re.sub(r"\(\s*mut self\b", "(self", sig, count=1)
            body = re.sub(r"\bself\b", "self_", body)
            i0 = body.index("{")
            body = body[:i0 + 1] + "\n        let mut self_ = self;" + body[i0 + 1:]
            applied.append("R18")
        sig, _ = name_return(sig, self.ret)
        # loop contracts
        if self.loops:
            lp = rustscan.loops_in(body)
            for k in sorted(self.loops, reverse=True):
                if k >= len(lp):
                    raise Drift("%s: loop #%d not found (function has %d loops)" % (where, k, len(lp)))
                spec = self.loops[k]
                ins = "\n"
                if spec.get("invariant_except_break"):
                    ins += "    invariant_except_break\n" + "".join(
                        "        %s,\n" % e for e in spec["invariant_except_break"])
                if spec.get("invariant"):
                    ins += "    invariant\n" + "".join("        %s,\n" % e for e in spec["invariant"])
                if spec.get("ensures"):
                    ins += "    ensures\n" + "".join("        %s,\n" % e for e in spec["ensures"])
                if spec.get("decreases"):
                    ins += "    decreases %s,\n" % spec["decreases"]
                pos = lp[k][2]
                if spec.get("body_start") or spec.get("body_end"):
                    m2 = rustscan.code_mask(body)
                    close = rustscan.match_brace(body, m2, pos)
                    if spec.get("body_end"):
                        body = body[:close] + spec["body_end"].rstrip("\n") + "\n" + body[close:]
                    if spec.get("body_start"):
                        body = body[:pos + 1] + "\n" + spec["body_start"].rstrip("\n") + "\n" + body[pos + 1:]
                body = body[:pos] + ins + body[pos:]
        # proof blocks at anchors
        skipped_hints = []
        for pr in self.proofs:
            (anchor, side, text) = pr[:3]
            # a hint is tied to one code shape: when that shape is gone the hint is skipped and the function has to be
            # proved without it (a failure is then undecided, never a violation: see skipped_hints in the driver)
            optional = not (len(pr) > 3 and pr[3] == "required")
            if anchor in ("@start", "@end"):
                # position-only anchors: right after the opening brace / right before the closing brace of the body
                if anchor == "@start":
                    i0 = body.index("{") + 1
                    body = body[:i0] + "\n" + text.rstrip("\n") + "\n" + body[i0:]
                else:
                    i1 = body.rindex("}")
                    body = body[:i1] + text.rstrip("\n") + "\n" + body[i1:]
                continue
            ms = list(re.finditer(anchor, body))
            if optional and len(ms) != 1:
                skipped_hints.append(anchor)
                continue
            if len(ms) != 1:
                raise Drift("%s: proof anchor /%s/ matches %d times" % (where, anchor, len(ms)))
            m = ms[0]
            if side == "before":
                ls = body.rfind("\n", 0, m.start()) + 1
                body = body[:ls] + text.rstrip("\n") + "\n" + body[ls:]
            elif side == "after":
                le = body.find("\n", m.end())
                body = body[:le + 1] + text.rstrip("\n") + "\n" + body[le + 1:]
            elif side == "at":   # replace the match itself
                body = body[:m.start()] + text + body[m.end():]
            else:
                raise ValueError(side)
        header = self._impl_header(sf)
        unit.note_item(self.file, "fn " + where.lstrip(":"), it, applied)

        out = []
        props = self.props or unit.properties
        base = self.rename or self.name

        def variant(vname, extra, kind):
            fid = "%s%s" % ((self.container_short() + "::") if self.container else "", vname)
            s = re.sub(r"\bfn\s+%s\b" % re.escape(self.name), "fn " + vname, sig, count=1)
            txt = "/*@FN:%s*/\n" % fid
            if header:
                txt += header + " {\n"
            if self.attrs:
                txt += self.attrs + "\n"
            if self.stub:
                txt += "#[verifier::external_body]\n"
            txt += s + "\n"
            if self.requires:
                txt += "    requires\n"
                for c in self.requires:
                    txt += "        /*@RQ:%s*/ %s,\n" % (c.label, c.expr)
            ens = list(self.ensures) + list(extra)
            if ens:
                txt += "    ensures\n"
                for c in ens:
                    txt += "        /*@EN:%s*/ %s,\n" % (c.label, c.expr)
            if self.decreases:
                txt += "    decreases %s,\n" % self.decreases
            if self.no_unwind:
                txt += "    no_unwind\n"
            txt += ("{ unimplemented!() }" if self.stub else body) + "\n"
            if header:
                txt += "}\n"
            txt += "/*@ENDFN*/\n"
            unit.register_fn(fid, kind, self, [c for c in ens], props)
            unit.fns[fid]["named_asserts"] = sorted(set(re.findall(r"/\*@AS:(.*?)\*/", txt)))
            # optional proof hints that could not be placed: a failure of this function is then undecided, not a violation
            unit.fns[fid]["skipped_hints"] = list(skipped_hints)
            unit.fns[fid]["loop_invariants"] = sum(len(v.get("invariant", [])) + len(v.get("invariant_except_break", [])) for v in self.loops.values())
            return txt

        if self.stub:
            # A stubbed callee whose real body no unit verifies is an ASSUMED contract: its source text is
            # pinned (committed baseline, never written at run time) so that a change to it is at least
            # noticed (undecided + bounded fallback) instead of silently keeping the old assumption.
            key = "%s::%s::%s" % (self.file, self.container or "", self.name)
            base_h = _stub_baseline().get(key)
            if base_h is not None:
                norm = re.sub(r"\s+", " ", strip_comments(it.signature + it.body)).strip()
                h = hashlib.sha256(norm.encode()).hexdigest()[:16]
                if h != base_h:
                    raise Drift("%s: the body of this ASSUMED (stubbed, nowhere verified) function changed (hash %s, pinned %s)" % (where, h, base_h))
            return variant(base, [], "stub")
        out.append(variant(base, [], "main"))
        for f in (self.findings if getattr(unit, "_emit_findings", True) else []):
            vn = "%s__F_%s" % (base, re.sub(r"[^A-Za-z0-9_]", "_", f.label))
            out.append(variant(vn, [f], "finding"))
            fidv = "%s%s" % ((self.container_short() + "::") if self.container else "", vn)
            unit.fns[fidv]["finding_label"] = f.label
        if not self.no_canary and getattr(unit, "_emit_findings", True):
            out.append(variant("%s__canary" % base, [Clause("canary", "false")], "canary"))
        return "".join(out)

    def container_short(self):
        if not self.container:
            return ""
        c = self.container
        if " for " in c:
            c = c.split(" for ")[1]
        return c.strip()


_STUB_BASELINE = None


def _stub_baseline():
    global _STUB_BASELINE
    if _STUB_BASELINE is None:
        p = os.path.join(SPECS, "stub_baseline.json")
        _STUB_BASELINE = json.load(open(p)) if os.path.exists(p) else {}
    return _STUB_BASELINE


class Lemma:
    """A hand-written proof function: a property-level theorem that mentions only contracts /
    spec functions.  Each `ensures` is a named obligation; a canary copy checks that the
    hypotheses are satisfiable-looking (i.e. `false` cannot be derived by the same proof)."""

    def __init__(self, name, params, requires=(), ensures=(), body="{}", decreases=None,
                 props=None, no_canary=False, attrs=""):
        self.name, self.params = name, params
        self.requires, self.ensures = _clauses(requires), _clauses(ensures)
        self.body, self.decreases, self.props = body, decreases, props
        self.no_canary = no_canary
        self.attrs = attrs

    def emit(self, unit):
        props = self.props or unit.properties
        out = []

        def variant(vname, extra, kind):
            txt = "/*@FN:%s*/\n" % vname
            if self.attrs:
                txt += self.attrs + "\n"
            txt += "proof fn %s%s\n" % (vname, self.params)
            if self.requires:
                txt += "    requires\n" + "".join(
                    "        /*@RQ:%s*/ %s,\n" % (c.label, c.expr) for c in self.requires)
            ens = list(self.ensures) + list(extra)
            if ens:
                txt += "    ensures\n" + "".join(
                    "        /*@EN:%s*/ %s,\n" % (c.label, c.expr) for c in ens)
            if self.decreases:
                txt += "    decreases %s,\n" % self.decreases
            body = self.body
            if vname != self.name:
                # recursive calls in the canary must call the canary's own name-independent
                # original: keep calling the original lemma (sound: it is verified separately)
                pass
            txt += body.strip("\n") + "\n/*@ENDFN*/\n"
            unit.register_fn(vname, kind, self, ens, props, lemma=True)
            return txt

        out.append(variant(self.name, [], "main"))
        if not self.no_canary and self.requires and getattr(unit, "_emit_findings", True):
            out.append(variant(self.name + "__canary", [Clause("canary", "false")], "canary"))
        return "".join(out)


HEADER = """// GENERATED by /verif/vlib/unit.py from /repo/src on every run -- do not edit.
#![allow(unused_imports, unused_variables, dead_code, unused_mut, unused_assignments, non_snake_case, unreachable_code, unused_parens, unused_braces)]
use vstd::prelude::*;
use vstd::std_specs::ops::*;
use vstd::std_specs::cmp::*;
use vstd::std_specs::convert::*;
use core::cmp::Ordering;
use std::ops::{Add, AddAssign, Sub};
verus! {
global size_of usize == 8;
"""

FOOTER = """
} // verus!
fn main() {}
"""

ASSUMPTION_WORDS = [r"\bassume\s*\(", r"\badmit\s*\(", r"external_body", r"assume_specification",
                    r"\baxiom\b", r"external_fn_specification", r"external_type_specification",
                    r"#\[verifier::external\]", r"verifier::exec_allows_no_decreases_clause",
                    r"verifier::loop_isolation", r"broadcast\s+proof"]


class Unit:
    def __init__(self, name, properties, prelude=(), items=(), trusted=(), rlimit=None, note=""):
        self.name = name
        self.properties = list(properties)
        self.prelude = list(prelude)
        self.items = list(items)
        self.trusted = list(trusted)   # human-readable list of assumed contracts of this unit
        self.rlimit = rlimit
        self.note = note
        self.reset()

    def reset(self):
        self.fns = {}          # fid -> dict(kind, clauses, props, lemma, obj)
        self.extracted = []    # evidence: items cut from the source
        self.rewrite_counts = {}
        self.inlined = {}      # R21: function -> helpers of the same type inlined into it

    def note_item(self, file, what, it, applied):
        h = hashlib.sha256(it.text.encode()).hexdigest()[:16]
        nh = hashlib.sha256(re.sub(r"\s+", " ", strip_comments(it.text)).strip().encode()).hexdigest()[:16]
        self.extracted.append({"file": file, "item": what, "line": it.line, "sha256_16": h, "norm_sha256_16": nh,
                               "rewrites": applied})
        for r in applied:
            self.rewrite_counts[r] = self.rewrite_counts.get(r, 0) + 1

    def register_fn(self, fid, kind, obj, clauses, props, lemma=False):
        if fid in self.fns:
            raise ValueError("duplicate function id " + fid)
        # a clause without explicit properties belongs to the function's properties plus the
        # property ids its label starts with ("C03-texts-move-to-orphans" -> C03)
        # (kept per unit: clause objects are shared between the unit that verifies a function and the
        # units that use the same contract as a stub)
        cprops = {}
        def _toks(c):
            return [t for t in re.match(r"((?:C\d\d-)*)", c.label).group(1).strip("-").split("-") if t]
        # what the function's own labelled / tagged clauses serve (requires are not counted: they are caller obligations)
        also = set(getattr(obj, "also", ()) or ())
        served = set(also)
        for c in clauses:
            if getattr(c, "kind", "ensures") != "requires":
                served |= set(c.props or _toks(c))
        for c in clauses:
            if c.props:
                cprops[c.label] = sorted(set(c.props) | also)
            else:
                # a label that starts with property ids belongs to exactly those properties; an unlabelled clause
                # (frame, wf, helper definitions) to the properties the function's labelled clauses serve, and only
                # when there are none to the properties of its function / unit
                toks = _toks(c)
                cprops[c.label] = sorted(set(toks) | also) if toks else sorted(served or set(props))
        self.fns[fid] = {"kind": kind, "clauses": {c.label: c for c in clauses}, "props": props,
                         "clause_props": cprops, "lemma": lemma, "obj": obj}

    def known_fn_names(self, file, container):
        """names of the functions of `container` (in `file`) that exist on the pinned tree (specs/fn_index.json) or
        that this unit has under contract: calls to them are left alone (contracts, models and rewrites deal with
        them); only a helper that is new relative to the pinned tree is inlined (R21)"""
        global _FN_INDEX
        if _FN_INDEX is None:
            try:
                with open(os.path.join(SPECS, "fn_index.json")) as f:
                    _FN_INDEX = json.load(f)
            except Exception:
                _FN_INDEX = {}
        if file not in _FN_INDEX:
            return _ALL_NAMES     # no index for this file: never inline
        pre = (container or "") + "::"
        names = set(x[len(pre):] for x in _FN_INDEX[file] if x.startswith(pre))
        return names | set(it.name for it in self.items if isinstance(it, Fn) and it.file == file and it.container == container)

    def generate(self, findings=True):
        """findings=False: leave the finding variants out (they are verified by a second, parallel
        run on the full file restricted to `*__F_*`, under a small resource limit)."""
        self._emit_findings = findings
        self.reset()
        parts = [HEADER]
        for p in self.prelude:
            with open(os.path.join(SPECS, "prelude", p + ".rs"), encoding="utf-8") as f:
                # everything lives in one private module: drop visibility so that shims may
                # mention the (private) extracted types
                ptxt = f.read()
                if ptxt.startswith("// @private"):
                    ptxt = re.sub(r"\bpub\s+((?:open|closed)\s+)?", "", ptxt)
                parts.append("// ---- prelude: %s ----\n" % p + ptxt + "\n")
        for it in self.items:
            parts.append(it.emit(self))
        self._check_trait_impl_coverage()
        self._check_pinned()
        parts.append(FOOTER)
        text = "".join(parts)
        self.text = text
        self._index(text)
        return text

    def _check_pinned(self):
        """`pinned` = [(file, container | kind, name)]: source items the unit's properties depend on but which
        are outside the verifier's reach (float formatting through dependencies, const tables).  Their text is
        pinned by hash (committed baseline); a change makes the unit undecided, which triggers the bounded
        routines registered for it."""
        for (file, container, name) in getattr(self, "pinned", []):
            sf = load_source(file)
            try:
                if container in ("const", "static", "struct", "enum"):
                    it = sf.find_decl(container, name)
                    text = it.text
                else:
                    it = sf.find_fn(name, container, 0)
                    text = it.signature + it.body
            except ScanError as e:
                raise Drift("pinned item lost: " + str(e))
            norm = re.sub(r"\s+", " ", strip_comments(text)).strip()
            h = hashlib.sha256(norm.encode()).hexdigest()[:16]
            key = "%s::%s::%s" % (file, container or "", name)
            base_h = _stub_baseline().get(key)
            if base_h is None:
                raise Drift("pinned item %s has no baseline hash (current %s)" % (key, h))
            if h != base_h:
                raise Drift("%s: this item is outside the verifier's reach and pinned by hash; it changed (hash %s, pinned %s)" % (key, h, base_h))

    def _check_trait_impl_coverage(self):
        """A trait impl block some of whose methods are under contract here must not contain a
        method that is not: a method added to such a block overrides a provided method of the
        trait and changes what callers of the trait see, without touching any function under
        contract.  (Inherent impl blocks are not checked: a new inherent method changes no
        existing call.)  `allow_uncovered` lists the methods left out on the pinned tree."""
        covered = {}
        for it in self.items:
            if isinstance(it, Fn) and it.container and " for " in it.container:
                covered.setdefault((it.file, it.container), set()).add(it.name)
        allow = getattr(self, "allow_uncovered", {})
        for (file, container), names in covered.items():
            sf = load_source(file)
            present = set()
            for (h, kw, o, c) in sf.impls():
                if h != container:
                    continue
                for mm in rustscan.find_code(sf.src, sf.mask, r"\bfn\s+(\w+)\b", o, c):
                    if sf._depth_between(o, mm.start()) == 1:
                        present.add(mm.group(1))
            extra = present - names - set(allow.get(container, []))
            if extra:
                raise Drift("impl block '%s' (%s) has method(s) not under contract: %s "
                            "(a method added to a trait impl overrides a provided method)" % (container, file, ", ".join(sorted(extra))))

    def _index(self, text):
        """Build line tables: function ranges and clause marker lines."""
        self.fn_ranges = []     # (start_line, end_line, fid)
        self.clause_lines = []  # (line, fid, kind, label)
        cur = None
        for ln, line in enumerate(text.split("\n"), 1):
            m = re.search(r"/\*@FN:(.*?)\*/", line)
            if m:
                cur = (ln, m.group(1))
            if "/*@ENDFN*/" in line and cur:
                self.fn_ranges.append((cur[0], ln, cur[1]))
                cur = None
            for m in re.finditer(r"/\*@(RQ|EN):(.*?)\*/", line):
                if cur:
                    self.clause_lines.append((ln, cur[1], m.group(1), m.group(2)))

    def fn_at(self, line):
        for (a, b, fid) in self.fn_ranges:
            if a <= line <= b:
                return fid
        return None

    def clause_at(self, line):
        """The clause whose marker line is the greatest one <= line, within the same fn."""
        fid = self.fn_at(line)
        best = None
        for (ln, f, kind, label) in self.clause_lines:
            if f == fid and ln <= line:
                if best is None or ln > best[0]:
                    best = (ln, f, kind, label)
        return best

    def assumption_scan(self):
        """Mechanical scan of the generated text for assumption keywords; returns
        {keyword: count}.  The driver compares it with the unit's declared list."""
        body = strip_comments(self.text)
        res = {}
        for w in ASSUMPTION_WORDS:
            n = len(re.findall(w, body))
            if n:
                res[w] = n
        return res
