"""Property driver: extract -> verify -> classify -> evidence / replay files.

Exit codes: 0 property held on everything decided; 1 VIOLATION (printed); 2 undecided
(drift, unsupported construct, resource limit, vacuity canary) -- never an alarm.
"""
import concurrent.futures as cf
import copy
import importlib
import json
import os
import subprocess
import sys
import time
import re

from . import verus as V
from . import kani as K
from .unit import Drift, REPO

ROOT = os.path.dirname(os.path.dirname(os.path.abspath(__file__)))
BUILD = os.path.join(ROOT, ".build")
OUT = os.environ.get("VERIF_OUT", ROOT)   # evidence/ and replays/ go here (override for mutant runs)


def load_registry():
    sys.path.insert(0, ROOT)
    reg = importlib.import_module("specs.registry")
    return reg


def load_unit(name):
    mod = importlib.import_module("specs." + name)
    return mod.UNIT


def load_known():
    p = os.path.join(ROOT, "known_findings.json")
    if not os.path.exists(p):
        return {"findings": [], "fixed": []}
    with open(p) as f:
        return json.load(f)


def repo_rev():
    try:
        r = subprocess.run(["git", "-C", REPO, "rev-parse", "--short", "HEAD"], capture_output=True, text=True)
        d = subprocess.run(["git", "-C", REPO, "status", "--porcelain"], capture_output=True, text=True)
        return r.stdout.strip() + ("+dirty" if d.stdout.strip() else "")
    except Exception:
        return "unknown"


def verify_unit(uname, prop, seed):
    """Generate and verify one unit; returns a result dict (never raises)."""
    t0 = time.time()
    res = {"unit": uname, "backend": "verus", "status": "ok", "failures": [], "reason": ""}
    try:
        unit = load_unit(uname)
        text = unit.generate()
    except Drift as e:
        res.update(status="undecided", reason="drift: %s" % e)
        return res, None
    wd = os.path.join(BUILD, "verus", prop)
    os.makedirs(wd, exist_ok=True)
    path = os.path.join(wd, uname + ".rs")
    # variants (finding copies and vacuity canaries) go to a second run; a unit without any has none
    has_findings = any(info["kind"] in ("finding", "canary") for info in unit.fns.values())
    rl = unit.rlimit
    fut = None
    if has_findings:
        # second run, in parallel: the finding variants only, on the full file, under a small resource
        # limit (a listed finding is expected NOT to verify; running out of resources counts as that)
        fpath = os.path.join(wd, uname + "__findings.rs")
        with open(fpath, "w") as f:
            f.write(text)
        funit = copy.copy(unit)
        funit._index(text)
        ex2 = cf.ThreadPoolExecutor(max_workers=1)
        vrl = getattr(unit, "variants_rlimit", None) or rl
        fut = ex2.submit(V.run_verus, fpath, vrl, None, 900, ("--verify-root", "--verify-function", "*__*", "--multiple-errors", "1"))
        text = unit.generate(findings=False)
    with open(path, "w") as f:
        f.write(text)
    cmd, out, err, rc, wall = V.run_verus(path, rlimit=rl, seed=None)
    js, diags, other = V.parse(out, err)
    r = V.classify(unit, js, diags, rc)
    if r["status"] == "undecided" and "resource limit" in r["reason"]:
        rl2 = (rl or 10) * 3
        cmd, out, err, rc, wall2 = V.run_verus(path, rlimit=rl2, seed=None)
        wall += wall2
        js, diags, other = V.parse(out, err)
        r = V.classify(unit, js, diags, rc)
        r["retried_rlimit"] = rl2
    if fut is not None:
        fcmd, fout, ferr, frc, fwall = fut.result()
        fjs, fdiags, fother = V.parse(fout, ferr)
        fr = V.classify(funit, fjs, fdiags, frc)
        ex2.shutdown()
        # keep only what concerns finding variants
        r["failures"] += [f for f in fr["failures"] if "__" in (f["fid"] or "")]
        r["rlimit_findings"] = fr.get("rlimit_findings", [])
        r["functions"].update({k: v for k, v in fr.get("functions", {}).items() if "__" in k})
        if fr["status"] == "undecided" and "resource limit" not in fr["reason"]:
            r["status"] = "undecided"; r["reason"] = "findings run: " + fr["reason"]
        wall = max(wall, fwall)
        # the driver needs the function table of the full file (with finding variants)
        unit.generate(findings=True)
    res.update(r)
    res["cmd"] = "cd %s && %s" % (wd, " ".join(cmd))
    res["wall_s"] = round(wall, 2)
    res["path"] = path
    res["gen_s"] = round(time.time() - t0 - wall, 2)
    return res, unit


def run_property(prop, tier, seed):
    t_start = time.time()
    reg = load_registry()
    cfg = reg.PROPERTIES[prop]
    known = load_known()
    known_by_ob = {}
    for k in known.get("findings", []):
        if prop in k.get("properties", [k.get("property")]):
            known_by_ob[k["obligation"]] = k

    units = list(cfg.get("units", []))
    if tier == "thorough":
        units += list(cfg.get("units_thorough", []))
    kani_h = list(cfg.get("kani_quick", []))
    if tier == "thorough":
        kani_h += list(cfg.get("kani_thorough", []))

    results = []
    unit_objs = {}
    with cf.ThreadPoolExecutor(max_workers=max(1, min(8, len(units) + len(kani_h)))) as ex:
        futs = {ex.submit(verify_unit, u, prop, seed): ("verus", u) for u in units}
        kfuts = {}
        if kani_h:
            kfuts = {ex.submit(K.run_harness, h, prop, tier): ("kani", h["harness"]) for h in kani_h}
        for fu in cf.as_completed(list(futs) + list(kfuts)):
            if fu in futs:
                r, uo = fu.result()
                results.append(r)
                unit_objs[r["unit"]] = uo
            else:
                results.append(fu.result())

    violations = []     # (obligation id, failure dict, unit result)
    known_hits = []
    undecided = []
    obligations = 0
    discharged = 0
    finding_obligations = 0
    finding_failing = 0
    finding_now_holding = []
    canaries_run = 0
    canaries_rejected = 0
    samples = []
    fn_table = []
    trusted = []
    bounded = []
    extracted = []
    assumption_scan = {}
    rewrite_counts = {}
    stubs = []
    named_asserts = set()
    undecided_units = []
    fallback_runs = []

    for r in sorted(results, key=lambda x: x.get("unit", x.get("harness", ""))):
        if r.get("backend") == "kani":
            K.account(r, prop, known_by_ob, violations, known_hits, undecided, bounded, samples)
            if r.get("complete") and r["status"] == "ok":
                obligations += r.get("checks", 0)
                discharged += r.get("checks_ok", 0)
            trusted += r.get("trusted", [])
            continue
        uname = r["unit"]
        unit = unit_objs.get(uname)
        if r["status"] == "undecided":
            undecided.append("%s: %s" % (uname, r["reason"]))
            undecided_units.append((uname, r))
            if unit is None:
                continue
        if unit is None:
            continue
        trusted += ["%s: %s" % (uname, t) for t in unit.trusted]
        extracted += [dict(e, unit=uname) for e in unit.extracted]
        for k, v in unit.rewrite_counts.items():
            rewrite_counts[k] = rewrite_counts.get(k, 0) + v
        scan = unit.assumption_scan()
        assumption_scan[uname] = scan
        fails_by_fid = {}
        for f in r["failures"]:
            fails_by_fid.setdefault(f["fid"], []).append(f)
        for fid, info in unit.fns.items():
            kind = info["kind"]
            fl = fails_by_fid.get(fid, [])
            relevant = prop in info["props"] or any(prop in ps for ps in info["clause_props"].values()) or uname in cfg.get("safety_units", []) \
                or uname in cfg.get("state_equivalence_units", [])
            if kind == "stub":
                o = info["obj"]
                stubs.append({"unit": uname, "function": fid, "file": o.file,
                              "clauses": sorted(info["clauses"]),
                              "verified_in": reg.VERIFIED_IN.get((o.file, o.container, o.name), "ASSUMED (no unit verifies this function yet)")})
                continue
            if kind == "canary":
                canaries_run += 1
                if fl:   # any failure: `false` was not derived (with --multiple-errors 1 the first error may be another clause)
                    canaries_rejected += 1
                elif r["status"] == "ok":
                    undecided.append("%s: vacuity canary %s was NOT rejected (contradictory requires / shim?)" % (uname, fid))
                continue
            if kind == "finding":
                flabel = info.get("finding_label") or fid.split("__F_")[-1]
                fcl = info["clauses"].get(flabel)
                if prop not in (info["clause_props"].get(flabel) or info["props"]):
                    continue
                obid = "%s/%s#%s" % (uname, fid, flabel)
                finding_obligations += 1
                # the variant differs from the (separately verified) main copy only by the finding clause:
                # any failure of the variant is attributed to that clause
                hit = [f for f in fl if f["label"] == flabel] or fl[:1]
                if not hit and fid in r.get("rlimit_findings", []):
                    hit = [{"fid": fid, "label": flabel, "message": "resource limit exceeded while checking the finding clause (not verified)", "detail": "rlimit", "rendered": "", "source": ""}]
                if hit:
                    finding_failing += 1
                    if obid in known_by_ob:
                        known_hits.append((obid, known_by_ob[obid], hit[0]))
                    else:
                        violations.append((obid, hit[0], r, info))
                elif r["status"] == "ok" and not fl:
                    finding_now_holding.append(obid)
                continue
            # main
            n_cl = len(info["clauses"])
            # obligations of a function: its named postconditions, its named assertions, its loop
            # invariants, and one for all implicit safety conditions of the body (callee
            # preconditions, overflow, bounds, termination)
            n_ob = n_cl + (0 if info["lemma"] else 1) + len(info.get("named_asserts", [])) + info.get("loop_invariants", 0)
            if not relevant:
                continue
            obligations += n_ob
            failed_labels = set()
            if fl and info.get("skipped_hints"):
                # the proof of this function ran without some of its hints (their anchors are gone): a failure is
                # not evidence of a violation; the unit's bounded routines get to decide
                undecided.append("%s: %s could not be proved after its proof hints lost their anchors (%s)" % (uname, fid, ", ".join(info["skipped_hints"])[:200]))
                if (uname, r) not in undecided_units:
                    undecided_units.append((uname, r))
                continue
            for f in fl:
                cl = info["clauses"].get(f["label"])
                if cl is None and not f["label"].startswith("safety"):
                    named_asserts.add((fid, f["label"]))
                ltoks = [t for t in re.match(r"((?:C\d\d-)*)", f["label"]).group(1).split("-") if t]
                if cl is not None:
                    props = info["clause_props"].get(f["label"], info["props"])
                elif ltoks:      # a named assertion carries its properties in its label
                    props = set(ltoks) | set(getattr(info.get("obj"), "also", ()) or ())
                else:   # a failed safety condition / invariant leaves every clause of the function unproved
                    props = set().union(*[set(ps) for ps in info["clause_props"].values()]) or set(info["props"])
                    if uname in cfg.get("safety_units", []):
                        props.add(prop)      # panic-freedom of this unit's functions is part of this property
                if prop not in props and uname in cfg.get("state_equivalence_units", []):
                    # C06 (state equivalence): the logical-state contracts of these units never mention the target, so they
                    # hold for hidden and visible bars alike; a failure concerns C06 only if the function consults hiddenness
                    src = getattr(info.get("obj"), "_last_source", "") or ""
                    if re.search(r"is_hidden\s*\(|\.hidden\s*\(|remote\s*\(", src):
                        props = set(props) | {prop}
                if prop not in props:
                    continue
                failed_labels.add(f["label"])
                obid = "%s/%s#%s" % (uname, fid, f["label"])
                if obid in known_by_ob:
                    known_hits.append((obid, known_by_ob[obid], f))
                else:
                    violations.append((obid, f, r, info))
            if r["status"] == "ok":
                discharged += n_ob - len(failed_labels)
            fn_table.append({"unit": uname, "function": fid, "clauses": sorted(info["clauses"]),
                             "lemma": info["lemma"], "ok": not fl})
            if len(samples) < 12 and info["clauses"]:
                lab = sorted(info["clauses"])[0]
                samples.append({"obligation": "%s/%s#%s" % (uname, fid, lab),
                                "clause": info["clauses"][lab].expr[:300]})

    # ---------------------------------------------------------------- bounded fallback
    # A unit that could not be extracted / type-checked (the code was restructured beyond the rewrite
    # catalogue) is UNDECIDED for the proof.  Its contracts' executable forms are then evaluated on the
    # real code over a finite family of inputs (bounded stand-in): a failing input found there is a
    # violation with a replayable witness; finding none leaves the unit undecided (never "proved").
    fallback_violations = []
    other_notes = []
    ran_routines = set()
    und_names = set(u for (u, _) in undecided_units)
    # thorough tier: the same routines also run when every unit was extracted and proved, as an independent
    # check of the modelling assumptions (ghost terminal, real arithmetic, std helpers) against the real code
    targets = list(undecided_units)
    # units whose extracted source differs from the pinned tree: the proof decides, and the bounded routines give a
    # second opinion from the real code (they can only add a violation with a replayable input)
    changed_units = set()
    try:
        with open(os.path.join(ROOT, "specs", "item_baseline.json")) as fh:
            item_base = json.load(fh)
    except Exception:
        item_base = {}
    for r in results:
        uname = r.get("unit")
        unit = unit_objs.get(uname) if uname else None
        if unit is None or uname in und_names:
            continue
        base = item_base.get(uname, {})
        cur = {"%s::%s" % (e["file"], e["item"]): e.get("norm_sha256_16") for e in unit.extracted}
        if any(base.get(k) != v for k, v in cur.items()):
            changed_units.add(uname)
    if tier == "thorough":
        targets += [(r.get("unit"), r) for r in results if r.get("unit") and r.get("unit") not in und_names]
    else:
        targets += [(r.get("unit"), r) for r in results if r.get("unit") in changed_units]
    FB = getattr(reg, "FALLBACK", {})

    def _what(routine, what):
        # "see <unit>": the description lives with the unit the routine was written for
        if what.startswith("see "):
            for (rt, _rp, w) in FB.get(what.split()[1], []):
                if rt == routine and not w.startswith("see "):
                    return w
        return what
    for (uname, r) in targets:
        cands = list(FB.get(uname, []))
        if uname in und_names:
            # a unit that could not be decided by proof: every routine whose oracle is about THIS property runs, whichever
            # unit it was written for (the routines run the whole crate; an undecided unit leaves the property open)
            have = set(rt for (rt, _rp, _w) in cands)
            for (ou, lst) in FB.items():
                for (rt, rp, w) in lst:
                    if rt not in have and prop in rp:
                        cands.append((rt, rp, w)); have.add(rt)
        for (routine, rprops, what) in cands:
            if prop not in rprops or routine in ran_routines:
                continue
            what = _what(routine, what)
            ran_routines.add(routine)
            from . import witness
            d = witness.run_routine(routine.split()[0], routine.split()[1:], timeout=900)
            drifted = uname in und_names
            fallback_runs.append({"unit": uname, "routine": routine, "what": what, "found": bool(d.get("found")),
                                  "why": "unit undecided" if drifted else ("thorough tier" if tier == "thorough" else "extracted source differs from the pinned tree"),
                                  "observed": d.get("clause", d.get("error", ""))})
            if d.get("found"):
                # a routine serves several properties; the clause it reports names the ones its failed oracle is about.
                # A finding that names other properties only is theirs (their checks report it): it is no violation of
                # this one, and since the routine stops at its first finding it says nothing more about this one either.
                named = set(re.findall(r"\bC\d\d\b", str(d.get("clause", ""))))
                if named and prop not in named:
                    fallback_runs[-1]["found"] = False
                    fallback_runs[-1]["finding_belongs_to"] = sorted(named)
                    other_notes.append("NOTE property=%s routine=%s stopped at a finding that belongs to %s: %s" % (prop, routine.split()[0], ",".join(sorted(named)), str(d.get("clause", ""))[:160]))
                    continue
                d["replay_cmd"] = "%s %s" % (witness.BIN, d.get("rerun", "replay " + routine).split(" ", 1)[1])
                d["note"] = ("the unit could not be extracted (%s); input found by the bounded fallback on the real code" % r.get("reason", "")[:200]) if drifted \
                    else "input found on the real code by the bounded routine of the thorough tier although the contracts verify: a modelling assumption does not hold for this input"
                fallback_violations.append(("%s/#bounded-%s:%s" % (uname, "fallback" if drifted else ("thorough" if tier == "thorough" else "changed"), routine.split()[0]), d, r, what))

    # ---------------------------------------------------------------- report
    rc = 0
    lines = []
    replay_dir = os.path.join(OUT, "replays")
    os.makedirs(replay_dir, exist_ok=True)
    known_replayed = []
    for (obid, k, f) in known_hits:
        rep = None
        if k.get("replay"):
            # the listed witness is re-run against the real code on every run
            try:
                from . import witness
                parts = k["replay"].split()
                rr = witness.run_routine(parts[0], parts[1:])
                rep = {"obligation": obid, "replay": k["replay"], "reproduced": bool(rr.get("found")), "observed": rr.get("clause", rr.get("error", ""))}
            except Exception as e:
                rep = {"obligation": obid, "replay": k["replay"], "reproduced": None, "error": repr(e)}
            known_replayed.append(rep)
        lines.append("KNOWN-FINDING: property=%s %s -- %s%s" % (prop, obid, k.get("what", ""),
                     (" [witness replayed on the real code: %s]" % ("reproduced" if rep and rep.get("reproduced") else "NOT reproduced")) if rep else ""))
    seen = set()
    for (obid, f, r, info) in violations:
        if obid in seen:
            continue
        seen.add(obid)
        safe = obid.replace("/", "-").replace("::", ".").replace("#", "-").replace(":", "_")
        rp = os.path.join(replay_dir, "%s-%s.json" % (prop, safe))
        witness = find_witness(prop, obid, f, info)
        clause_text = ""
        if info is not None and f.get("label") in info.get("clauses", {}):
            clause_text = info["clauses"][f["label"]].expr
        with open(rp, "w") as fh:
            json.dump({"property": prop, "obligation": obid, "function": f.get("fid"),
                       "clause": clause_text, "message": f.get("message"), "detail": f.get("detail"),
                       "source_line": f.get("source"), "verifier_output": f.get("rendered"),
                       "backend": r.get("backend"), "checker_cmd": r.get("cmd"),
                       "witness": witness, "repo_rev": repo_rev()}, fh, indent=1)
        tail = "" if witness and witness.get("found") else " no-failing-input-found"
        lines.append("VIOLATION property=%s replay=%s obligation=%s%s" % (prop, rp, obid, tail))
        rc = 1
    for (obid, d, r, what) in fallback_violations:
        if obid in seen:
            continue
        seen.add(obid)
        safe = obid.replace("/", "-").replace("::", ".").replace("#", "-").replace(":", "_")
        rp = os.path.join(replay_dir, "%s-%s.json" % (prop, safe))
        with open(rp, "w") as fh:
            json.dump({"property": prop, "obligation": obid, "function": None, "clause": what,
                       "message": "bounded fallback found a failing input on the real code",
                       "detail": r.get("reason"), "verifier_output": "", "backend": "replay (bounded)",
                       "witness": d, "repo_rev": repo_rev()}, fh, indent=1)
        lines.append("VIOLATION property=%s replay=%s obligation=%s" % (prop, rp, obid))
        rc = 1
    if rc == 0 and undecided:
        rc = 2
    lines.extend(other_notes)
    for u in undecided:
        lines.append("UNDECIDED property=%s %s" % (prop, u.replace("\n", " | ")[:1500]))

    wall = time.time() - t_start
    level = cfg.get("level", "proof")
    cov = {
        "obligations": obligations,
        "discharged": discharged,
        "checker_cmd": "; ".join(sorted(set(r.get("cmd", "") for r in results if r.get("cmd")))),
        "trusted_base": sorted(set(trusted + reg.GLOBAL_TRUSTED)),
        "explanation": cfg.get("explanation", ""),
        "samples": samples or [{"note": "no obligation produced"}],
        "functions_under_contract": fn_table,
        "extracted_items": extracted,
        "rewrite_applications": rewrite_counts,
        "assumption_keyword_scan": assumption_scan,
        "units": [{k: r.get(k) for k in ("unit", "harness", "backend", "status", "verified", "errors",
                                          "wall_s", "smt_ms", "rlimit_units", "reason", "solver", "bound", "complete")
                   if r.get(k) is not None} for r in results],
        "stubbed_callees": stubs,
        "canaries": {"run": canaries_run, "rejected": canaries_rejected},
        "known_finding_obligations": {"total": finding_obligations, "failing_as_listed": len(known_hits),
                                      "now_holding": finding_now_holding},
        "known_findings_printed": [o for (o, _, _) in known_hits],
        "known_findings_replayed": known_replayed,
        "bounded_stand_ins": bounded,
        "bounded_fallback_runs": fallback_runs,
        "undecided": undecided,
        "repo_rev": repo_rev(),
    }
    ev = {"property_id": prop, "tier": tier, "seed": seed, "level": level, "coverage": cov,
          "assumptions": sorted(set(cfg.get("assumptions", []) + reg.GLOBAL_ASSUMPTIONS)),
          "wall_s": round(wall, 2), "violations": len(seen)}
    os.makedirs(os.path.join(OUT, "evidence"), exist_ok=True)
    with open(os.path.join(OUT, "evidence", prop + ".json"), "w") as fh:
        json.dump(ev, fh, indent=1)
    for l in lines:
        print(l)
    print("SUMMARY property=%s tier=%s obligations=%d discharged=%d known_findings=%d violations=%d undecided=%d canaries=%d/%d wall=%.1fs exit=%d"
          % (prop, tier, obligations, discharged, len(known_hits), len(seen), len(undecided),
             canaries_rejected, canaries_run, wall, rc))
    return rc


def find_witness(prop, obid, f, info):
    """Try to produce a concrete failing input on the REAL code for a failed obligation.
    The search only produces witnesses; it never decides."""
    try:
        from . import witness
        return witness.search(prop, obid, f, info)
    except Exception as e:  # the witness machinery must never turn a violation into a crash
        return {"found": False, "error": repr(e)}


def main(argv):
    import argparse
    ap = argparse.ArgumentParser()
    ap.add_argument("prop")
    ap.add_argument("--tier", default=os.environ.get("VERIF_TIER", "quick"))
    ap.add_argument("--replay")
    a = ap.parse_args(argv)
    seed = int(os.environ.get("VERIF_SEED", "0") or 0)
    if a.replay:
        from . import witness
        return witness.replay_file(a.replay)
    return run_property(a.prop, a.tier, seed)
