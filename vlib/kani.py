"""In-place Kani harness runner (filled in below)."""
import os, re, subprocess, time, json

ROOT = os.path.dirname(os.path.dirname(os.path.abspath(__file__)))
BUILD = os.path.join(ROOT, ".build")
REPO = os.environ.get("VERIF_REPO", "/repo")


def run_harness(h, prop, tier):
    """h: dict(harness=name, solver=.., timeout=s, complete=bool, bound=str, flags=[..], trusted=[..])"""
    name = h["harness"]
    tdir = os.path.join(BUILD, "kani-target")
    os.makedirs(tdir, exist_ok=True)
    cmd = ["cargo", "kani", "-Z", "stubbing", "--harness", name, "--target-dir", tdir] + list(h.get("flags", []))
    if h.get("solver"):
        cmd += ["--solver", h["solver"]]
    env = dict(os.environ, CARGO_NET_OFFLINE="true")
    t0 = time.time()
    res = {"backend": "kani", "harness": name, "status": "ok", "failures": [], "reason": "",
           "complete": bool(h.get("complete")), "bound": h.get("bound", ""), "solver": h.get("solver", "default"),
           "trusted": list(h.get("trusted", [])), "cmd": "cd %s && CARGO_NET_OFFLINE=true %s" % (REPO, " ".join(cmd)),
           "obligation": h.get("obligation", "kani/" + name), "what": h.get("what", "")}
    try:
        p = subprocess.run(cmd, cwd=REPO, env=env, capture_output=True, text=True, timeout=h.get("timeout", 600))
        out = p.stdout + "\n" + p.stderr
        rc = p.returncode
    except subprocess.TimeoutExpired as e:
        out = (e.stdout.decode() if e.stdout else "") + (e.stderr.decode() if e.stderr else "")
        rc = -9
    res["wall_s"] = round(time.time() - t0, 1)
    res["raw_tail"] = out[-6000:]
    m = re.search(r"\*\* (\d+) of (\d+) failed", out)
    if rc == -9:
        res.update(status="undecided", reason="kani harness %s timed out after %ss" % (name, h.get("timeout", 600)))
    elif "VERIFICATION:- SUCCESSFUL" in out:
        mm = re.search(r"\*\* 0 of (\d+) failed", out)
        n = int(mm.group(1)) if mm else 1
        res["checks"] = n
        res["checks_ok"] = n
        cov = re.findall(r"Status: (SATISFIED|UNSATISFIABLE|UNREACHABLE)\s*\n\s*Description: \"(cover[^\"]*)\"", out)
        # vacuity: every kani::cover! must be SATISFIED
        covers = re.findall(r"Check \d+: [^\n]*cover[^\n]*\n\s*- Status: (\w+)", out)
        res["covers"] = covers
        if covers and any(c != "SATISFIED" for c in covers):
            res.update(status="undecided", reason="kani harness %s: a cover! is not satisfiable (vacuous assumption)" % name)
    elif "VERIFICATION:- FAILED" in out:
        failed = re.findall(r"Check \d+: ([^\n]*)\n\s*- Status: FAILURE\n\s*- Description: \"([^\"]*)\"", out)
        res["checks"] = int(m.group(2)) if m else len(failed)
        res["checks_ok"] = res["checks"] - (int(m.group(1)) if m else len(failed))
        unwind = [f for f in failed if "unwinding assertion" in f[1]]
        if unwind and len(unwind) == len(failed):
            res.update(status="undecided", reason="kani harness %s: unwinding assertion failed (bound too small)" % name)
        else:
            for (cid, desc) in failed:
                if "unwinding assertion" in desc:
                    continue
                res["failures"].append({"fid": name, "label": desc, "message": desc, "detail": cid, "rendered": out[-3000:]})
    else:
        res.update(status="undecided", reason="kani harness %s: no verdict (rc=%s): %s" % (name, rc, out[-1500:]))
    return res


def account(r, prop, known_by_ob, violations, known_hits, undecided, bounded, samples):
    name = r["harness"]
    if r["status"] == "undecided":
        undecided.append(r["reason"])
        return
    if not r.get("complete"):
        bounded.append({"harness": name, "bound": r.get("bound"), "result": "pass" if not r["failures"] else "FAIL",
                        "wall_s": r.get("wall_s"), "note": "bounded stand-in: not counted as proved"})
    else:
        samples.append({"obligation": r["obligation"], "clause": r.get("what", ""), "backend": "kani"})
    for f in r["failures"]:
        obid = "%s#%s" % (r["obligation"], re.sub(r"[^A-Za-z0-9_.]+", "_", f["label"])[:60])
        if obid in known_by_ob:
            known_hits.append((obid, known_by_ob[obid], f))
        else:
            violations.append((obid, f, r, None))


def replay_known(k):
    return None
