"""Minimal Rust source scanner used by the extractor.

It understands just enough lexical structure (comments, string / raw string / byte string
literals, char literals vs lifetimes) to match braces reliably and to find items by name.
It never evaluates or rewrites anything by itself; see unit.py for the rewrite catalogue.
"""
import re


class ScanError(Exception):
    pass


def code_mask(src):
    """Return a bytearray m with m[i] == 1 iff src[i] is *code* (not inside a comment,
    string literal or char literal).  Delimiters of literals are masked as non-code too."""
    n = len(src)
    m = bytearray(b"\x01") * n
    i = 0
    while i < n:
        c = src[i]
        if c == "/" and i + 1 < n and src[i + 1] == "/":
            j = src.find("\n", i)
            if j < 0:
                j = n
            for k in range(i, j):
                m[k] = 0
            i = j
        elif c == "/" and i + 1 < n and src[i + 1] == "*":
            depth = 1
            j = i + 2
            while j < n and depth:
                if src.startswith("/*", j):
                    depth += 1
                    j += 2
                elif src.startswith("*/", j):
                    depth -= 1
                    j += 2
                else:
                    j += 1
            for k in range(i, j):
                m[k] = 0
            i = j
        elif c == '"' or (c in "rb" and _raw_or_byte_string_start(src, i)):
            j = _skip_string(src, i)
            for k in range(i, j):
                m[k] = 0
            i = j
        elif c == "'":
            j = _skip_char_or_lifetime(src, i)
            if j is not None:
                for k in range(i, j):
                    m[k] = 0
                i = j
            else:
                i += 1  # lifetime: leave as code
        else:
            i += 1
    return m


def _raw_or_byte_string_start(src, i):
    # must not be part of an identifier
    if i > 0 and (src[i - 1].isalnum() or src[i - 1] == "_"):
        return False
    mm = re.match(r'(?:b?r#*"|b")', src[i:i + 12])
    return mm is not None


def _skip_string(src, i):
    n = len(src)
    mm = re.match(r'(b?)(r?)(#*)"', src[i:i + 40])
    if not mm:
        raise ScanError("bad string start at %d" % i)
    raw = bool(mm.group(2))
    hashes = mm.group(3)
    j = i + mm.end()
    if raw:
        end = '"' + hashes
        k = src.find(end, j)
        if k < 0:
            raise ScanError("unterminated raw string")
        return k + len(end)
    while j < n:
        if src[j] == "\\":
            j += 2
        elif src[j] == '"':
            return j + 1
        else:
            j += 1
    raise ScanError("unterminated string")


def _skip_char_or_lifetime(src, i):
    """src[i] == "'".  Return end index of a char literal, or None for a lifetime."""
    n = len(src)
    if i + 1 >= n:
        return None
    if src[i + 1] == "\\":
        j = i + 2
        # escape: \n, \', \x7f, \u{...}
        if j < n and src[j] == "u":
            k = src.find("}", j)
            j = k + 1
        elif j < n and src[j] == "x":
            j += 3
        else:
            j += 1
        if j < n and src[j] == "'":
            return j + 1
        raise ScanError("bad char literal at %d" % i)
    # 'x' (any single char incl. multibyte) followed by '
    if i + 2 < n and src[i + 2] == "'":
        return i + 3
    return None


def match_brace(src, mask, open_idx):
    """open_idx points at a code '{' / '(' / '['.  Return index of the matching closer."""
    pairs = {"{": "}", "(": ")", "[": "]"}
    o = src[open_idx]
    c = pairs[o]
    depth = 0
    i = open_idx
    n = len(src)
    while i < n:
        if mask[i]:
            ch = src[i]
            if ch == o:
                depth += 1
            elif ch == c:
                depth -= 1
                if depth == 0:
                    return i
        i += 1
    raise ScanError("unbalanced %s at %d" % (o, open_idx))


def find_code(src, mask, pattern, start=0, end=None):
    """Iterate over regex matches of `pattern` whose first char is code."""
    end = len(src) if end is None else end
    for mm in re.finditer(pattern, src[:end]):
        if mm.start() >= start and mask[mm.start()]:
            yield mm


def _item_start(src, mask, kw_idx):
    """Walk backwards from a keyword over visibility, attributes and doc comments; return the
    index where the item (with its attributes) starts, and the index where the bare
    declaration (after attributes/docs, including visibility) starts."""
    # visibility / qualifiers directly before the keyword on the same declaration
    line_start = src.rfind("\n", 0, kw_idx) + 1
    decl_start = kw_idx
    prefix = src[line_start:kw_idx]
    mm = re.search(r"((?:pub(?:\([^)]*\))?\s+)?(?:(?:const|async|unsafe|default)\s+)*)$", prefix)
    if mm:
        decl_start = line_start + mm.start(1)
    # attributes and doc comments on the preceding lines
    item_start = src.rfind("\n", 0, decl_start) + 1
    pos = item_start
    while pos > 0:
        prev_line_start = src.rfind("\n", 0, pos - 1) + 1
        line = src[prev_line_start:pos - 1].strip()
        if line.startswith("///") or line.startswith("#[") or line.startswith("//!"):
            pos = prev_line_start
            item_start = prev_line_start
        elif line.endswith("]") and not line.startswith("#["):
            # possibly a multi-line attribute; walk up to its '#['
            q = prev_line_start
            found = None
            for _ in range(12):
                l2 = src[q:src.find("\n", q)].strip()
                if l2.startswith("#["):
                    found = q
                    break
                if q == 0:
                    break
                q = src.rfind("\n", 0, q - 1) + 1
            if found is None:
                break
            pos = found
            item_start = found
        else:
            break
    return item_start, decl_start


class Item:
    def __init__(self, file, kind, name, start, decl_start, body_open, end, src, container=None):
        self.file = file
        self.kind = kind
        self.name = name
        self.start = start            # incl. attributes / docs
        self.decl_start = decl_start  # `pub fn ...`
        self.body_open = body_open    # index of '{' (or None for `;`-terminated items)
        self.end = end                # one past the closing '}' or ';'
        self.src = src
        self.container = container    # impl header (normalised) or None

    @property
    def text(self):
        return self.src[self.decl_start:self.end]

    @property
    def attrs(self):
        return self.src[self.start:self.decl_start]

    @property
    def signature(self):
        if self.body_open is None:
            return self.text
        return self.src[self.decl_start:self.body_open]

    @property
    def body(self):
        return self.src[self.body_open:self.end]

    @property
    def line(self):
        return self.src.count("\n", 0, self.decl_start) + 1


def norm_impl_header(h):
    """'impl<'a> fmt::Display for Foo<'a> where ..' -> 'fmt::Display for Foo'"""
    h = re.sub(r"\s+", " ", h.strip())
    h = re.sub(r"^impl\b", "", h).strip()
    # strip generics (nested <>)
    out = []
    depth = 0
    i = 0
    while i < len(h):
        ch = h[i]
        if ch == "<":
            depth += 1
        elif ch == ">" and depth > 0 and not (i > 0 and h[i - 1] == "-"):
            depth -= 1
        elif depth == 0:
            out.append(ch)
        i += 1
    h = "".join(out)
    h = re.sub(r"\bwhere\b.*$", "", h)
    return re.sub(r"\s+", " ", h).strip()


class SourceFile:
    def __init__(self, path, text):
        self.path = path
        self.src = text
        self.mask = code_mask(text)

    def impls(self):
        """Yield (normalised header, open_idx, close_idx) for every top-level impl block
        (also inside `mod` blocks that are not cfg(test) — we simply scan all)."""
        for mm in find_code(self.src, self.mask, r"(?m)^[ \t]*(?:unsafe\s+)?impl\b"):
            kw = self.src.index("impl", mm.start())
            # header runs to the first code '{'
            j = kw
            while not (self.src[j] == "{" and self.mask[j]):
                j += 1
            header = self.src[kw:j]
            close = match_brace(self.src, self.mask, j)
            yield norm_impl_header(header), kw, j, close

    def find_fn(self, name, container=None, nth=0):
        """Find `fn name` inside the impl block whose normalised header equals `container`
        (or at top level when container is None)."""
        if container is None:
            lo, hi = 0, len(self.src)
            candidates = []
            for mm in find_code(self.src, self.mask, r"\bfn\s+%s\b" % re.escape(name)):
                # top level == brace depth 0
                if self._depth_at(mm.start()) == 0:
                    candidates.append(mm)
        else:
            candidates = []
            blocks = [(o, c) for (h, kw, o, c) in self.impls() if h == container]
            if not blocks:
                raise ScanError("%s: impl block '%s' not found" % (self.path, container))
            for (o, c) in blocks:
                for mm in find_code(self.src, self.mask, r"\bfn\s+%s\b" % re.escape(name), o, c):
                    if self._depth_between(o, mm.start()) == 1:
                        candidates.append(mm)
        if len(candidates) <= nth:
            raise ScanError("%s: fn %s%s not found" % (self.path, (container + "::") if container else "", name))
        mm = candidates[nth]
        return self._make_item("fn", name, mm.start(), container)

    def find_decl(self, kind, name):
        """kind in struct|enum|const|static|trait|type; top level."""
        for mm in find_code(self.src, self.mask, r"\b%s\s+%s\b" % (kind, re.escape(name))):
            if self._depth_at(mm.start()) == 0:
                return self._make_item(kind, name, mm.start(), None)
        raise ScanError("%s: %s %s not found" % (self.path, kind, name))

    def find_impl(self, container, nth=0):
        blocks = [(kw, o, c) for (h, kw, o, c) in self.impls() if h == container]
        if len(blocks) <= nth:
            raise ScanError("%s: impl block '%s' not found" % (self.path, container))
        kw, o, c = blocks[nth]
        start, decl = _item_start(self.src, self.mask, kw)
        return Item(self.path, "impl", container, start, decl, o, c + 1, self.src, None)

    def _depth_at(self, idx):
        return self._depth_between(0, idx)

    def _depth_between(self, lo, idx):
        d = 0
        s, m = self.src, self.mask
        for i in range(lo, idx):
            if m[i]:
                if s[i] == "{":
                    d += 1
                elif s[i] == "}":
                    d -= 1
        return d

    def _make_item(self, kind, name, kw_idx, container):
        s, m = self.src, self.mask
        start, decl = _item_start(s, m, kw_idx)
        # find the end: first code '{' or ';' at paren/bracket depth 0 after the keyword
        j = kw_idx
        pd = 0
        ad = 0
        while j < len(s):
            if m[j]:
                ch = s[j]
                if ch in "([":
                    pd += 1
                elif ch in ")]":
                    pd -= 1
                elif pd == 0 and ch == "{":
                    close = match_brace(s, m, j)
                    end = close + 1
                    # struct Foo { .. }  has no trailing ';' ; const X: T = Foo { .. }; does
                    if kind in ("const", "static"):
                        k = end
                        while k < len(s) and not (s[k] == ";" and m[k]):
                            k += 1
                        return Item(self.path, kind, name, start, decl, None, k + 1, s, container)
                    return Item(self.path, kind, name, start, decl, j, end, s, container)
                elif pd == 0 and ch == ";":
                    return Item(self.path, kind, name, start, decl, None, j + 1, s, container)
            j += 1
        raise ScanError("item end not found for %s %s" % (kind, name))


def loops_in(text):
    """Return [(kw, kw_idx, body_open_idx)] for every for/while/loop in `text`, in source order."""
    mask = code_mask(text)
    out = []
    for mm in find_code(text, mask, r"\b(for|while|loop)\b"):
        kw = mm.group(1)
        if kw == "for":
            # exclude `for<'a>` HRTB and `impl X for Y`
            after = text[mm.end():mm.end() + 2]
            if after.lstrip().startswith("<"):
                continue
            # must be followed (eventually) by ` in ` before the brace
        j = mm.end()
        pd = 0
        ok = None
        while j < len(text):
            if mask[j]:
                ch = text[j]
                if ch in "([":
                    pd += 1
                elif ch in ")]":
                    pd -= 1
                elif ch == "{" and pd == 0:
                    ok = j
                    break
                elif ch == ";" and pd == 0:
                    break
            j += 1
        if ok is None:
            continue
        header = text[mm.end():ok]
        if kw == "for" and not re.search(r"\bin\b", header):
            continue
        out.append((kw, mm.start(), ok))
    return out
