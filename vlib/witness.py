"""Witness search / replay against the REAL code (through /verif/replay, a cargo project that
depends on /repo built with --cfg indicatif_verif).  Produces inputs only; never decides."""
import hashlib
import json
import os
import shlex
import shutil
import subprocess
import tempfile

ROOT = os.path.dirname(os.path.dirname(os.path.abspath(__file__)))
REPO = os.environ.get("VERIF_REPO", "/repo")
# development only: with VERIF_REPO pointing at another checkout the driver crates are copied (path dependency
# rewritten) and built into a target directory of their own, so that several trees can be checked side by side
_SFX = "" if REPO == "/repo" else "-" + hashlib.sha256(REPO.encode()).hexdigest()[:8]
TARGET = os.path.join(ROOT, ".build", "replay-target" + _SFX)
BIN = os.path.join(TARGET, "release", "replay")
_built = {"ok": None, "log": ""}


def _crate_dir(name):
    src = os.path.join(ROOT, name)
    if REPO == "/repo":
        return src
    dst = os.path.join(ROOT, ".build", "reloc" + _SFX, name)
    tmp = tempfile.mkdtemp(dir=os.path.join(ROOT, ".build"))
    try:
        work = os.path.join(tmp, name)
        shutil.copytree(src, work, ignore=shutil.ignore_patterns("target"))
        ct = os.path.join(work, "Cargo.toml")
        t = open(ct).read().replace('path = "/repo"', 'path = "%s"' % REPO)
        open(ct, "w").write(t)
        os.makedirs(os.path.dirname(dst), exist_ok=True)
        same = False
        if os.path.isdir(dst):
            same = subprocess.run(["diff", "-rq", work, dst], capture_output=True).returncode == 0
        if not same:
            shutil.rmtree(dst, ignore_errors=True)
            try:
                os.rename(work, dst)
            except OSError:
                pass    # another check of the same tree got there first
    finally:
        shutil.rmtree(tmp, ignore_errors=True)
    return dst


def build():
    """Build the driver with the hooks of /verif/hooks compiled into indicatif.  When that fails (a private
    signature the hooks use has changed) build it without them: the routines that need only the public API stay
    available, the others answer "unknown routine"."""
    global BIN
    if _built["ok"] is not None:
        return _built["ok"]
    env = dict(os.environ, CARGO_NET_OFFLINE="true", RUSTFLAGS="--cfg indicatif_verif")
    p = subprocess.run(["cargo", "build", "--offline", "--release", "--target-dir", TARGET],
                       cwd=_crate_dir("replay"), env=env, capture_output=True, text=True)
    _built["ok"] = p.returncode == 0
    _built["log"] = (p.stdout + p.stderr)[-3000:]
    if not _built["ok"]:
        env = dict(os.environ, CARGO_NET_OFFLINE="true")
        env.pop("RUSTFLAGS", None)
        p2 = subprocess.run(["cargo", "build", "--offline", "--release", "--no-default-features", "--target-dir", TARGET + "-nohooks"],
                            cwd=_crate_dir("replay"), env=env, capture_output=True, text=True)
        if p2.returncode == 0:
            BIN = os.path.join(TARGET + "-nohooks", "release", "replay")
            _built["ok"] = True
            _built["degraded"] = True
            _built["log"] = "hooks do not compile against the current tree; driver built without them: " + _built["log"][-1200:]
    return _built["ok"]


ATARGET = os.path.join(ROOT, ".build", "replay-async-target" + _SFX)
ABIN = os.path.join(ATARGET, "release", "replay-async")
_abuilt = {"ok": None, "log": ""}


def build_async():
    """/verif/replay-async: indicatif with its `tokio` feature, compiled against a signature-only
    stand-in for tokio::io (the tokio crate is not available offline)."""
    if _abuilt["ok"] is not None:
        return _abuilt["ok"]
    env = dict(os.environ, CARGO_NET_OFFLINE="true")
    p = subprocess.run(["cargo", "build", "--offline", "--release", "--target-dir", ATARGET],
                       cwd=_crate_dir("replay-async"), env=env, capture_output=True, text=True)
    _abuilt["ok"] = p.returncode == 0
    _abuilt["log"] = (p.stdout + p.stderr)[-3000:]
    return _abuilt["ok"]


_cache = {}


def run_routine(routine, args=(), timeout=300):
    key = (routine, tuple(args))
    if key not in _cache:
        _cache[key] = _run_routine(routine, args, timeout)
    return dict(_cache[key])


def _run_routine(routine, args=(), timeout=300):
    binary = None
    if routine.startswith("async_"):
        if not build_async():
            return {"found": False, "error": "replay-async driver does not build against the current tree", "log": _abuilt["log"]}
        binary = ABIN
    elif not build():
        return {"found": False, "error": "replay driver does not build against the current tree", "log": _built["log"]}
    if binary is None:
        binary = BIN
    try:
        p = subprocess.run([binary, routine] + list(args), capture_output=True, text=True, timeout=timeout)
    except subprocess.TimeoutExpired:
        return {"found": False, "error": "witness routine %s timed out" % routine}
    out = p.stdout.strip().splitlines()
    if p.returncode != 0 or not out:
        # a panic of the real code inside a routine is itself an observation
        return {"found": False, "error": "routine exited %s" % p.returncode, "stderr": p.stderr[-1500:]}
    try:
        d = json.loads(out[-1])
    except Exception:
        if out[-1].lstrip().startswith('{"found": true'):
            # the routine reported a failing input but its report is not well-formed JSON: keep it as text
            return {"found": True, "clause": "see raw report", "raw": out[-1][:3000], "rerun": "replay " + " ".join([routine] + list(args)), "routine": routine}
        return {"found": False, "error": "unparsable routine output", "stdout": p.stdout[-1500:]}
    d["routine"] = routine
    return d


def routines_for(obid):
    import importlib
    reg = importlib.import_module("specs.registry")
    best = []
    for prefix, rs in reg.WITNESS.items():
        if obid.startswith(prefix) and len(prefix) > len(best[0] if best else ""):
            best = [prefix, rs]
    return best[1] if best else []


def search(prop, obid, f, info):
    tried = []
    import importlib
    reg = importlib.import_module("specs.registry")
    rs = list(routines_for(obid))
    # then the bounded routines of the unit (oracles written from the property text, run on the real code)
    unit = obid.split("/", 1)[0]
    for (r, rprops, _what) in getattr(reg, "FALLBACK", {}).get(unit, []):
        if prop in rprops and r not in rs:
            rs.append(r)
    for r in rs:
        d = run_routine(r.split()[0], r.split()[1:])
        tried.append(r)
        if d.get("found"):
            d["replay_cmd"] = "%s %s" % (BIN, d.get("rerun", "replay " + r).split(" ", 1)[1])
            d["note"] = "input found by small-scope search on the real code (built from /repo with --cfg indicatif_verif); the clause named here is the executable form evaluated by the replay driver"
            return d
    return {"found": False, "routines_tried": tried,
            "note": "no failing input found by the registered witness routines" if tried else "no witness routine registered for this obligation"}


def replay_file(path):
    with open(path) as fh:
        d = json.load(fh)
    w = d.get("witness") or {}
    print("property=%s obligation=%s" % (d.get("property"), d.get("obligation")))
    print("verifier: %s %s" % (d.get("message"), d.get("detail") or ""))
    if not w.get("found"):
        print("no concrete input recorded (no-failing-input-found); verifier output follows")
        print(d.get("verifier_output", ""))
        return 0
    rerun = w.get("rerun", "")
    parts = shlex.split(rerun)
    r = run_routine(parts[1], parts[2:])
    print(json.dumps(r, indent=1))
    if r.get("found"):
        print("REPRODUCED on the current tree: clause %s" % r.get("clause"))
        return 1
    print("not reproduced on the current tree")
    return 0
