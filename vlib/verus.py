"""Run Verus on a generated unit and map its diagnostics to named obligations."""
import json
import os
import subprocess
import time

VERUS = os.environ.get("VERIF_VERUS", "verus")


def run_verus(path, rlimit=None, seed=None, timeout=900, extra=()):
    me = "4"
    if "--multiple-errors" in extra:
        i = list(extra).index("--multiple-errors"); me = extra[i + 1]; extra = tuple(list(extra)[:i] + list(extra)[i + 2:])
    cmd = [VERUS, os.path.basename(path), "--output-json", "--time", "--multiple-errors", me,
           "--error-format=json", "--triggers-mode", "silent"]
    if rlimit:
        cmd += ["--rlimit", str(rlimit)]
    if seed is not None:
        cmd += ["--smt-option", "smt.random_seed=%d" % seed]
    cmd += list(extra)
    # development aid (tools/seedpar, tools/sweep): with VERIF_VCACHE=<dir> the verifier's answer for a byte-identical
    # generated file and identical arguments is reused; the registered check commands never set it
    cdir = os.environ.get("VERIF_VCACHE")
    ckey = None
    if cdir:
        import hashlib
        with open(path, "rb") as fh:
            ckey = hashlib.sha256(fh.read() + b"\0" + "\0".join(cmd[1:]).replace(os.path.basename(path), "F").encode()).hexdigest()
        cf = os.path.join(cdir, ckey + ".json")
        if os.path.exists(cf):
            try:
                with open(cf) as fh:
                    d = json.load(fh)
                bn = os.path.basename(path)
                return cmd, d["out"].replace(d["bn"], bn), d["err"].replace(d["bn"], bn), d["rc"], d["wall"]
            except Exception:
                pass
    t0 = time.time()
    try:
        p = subprocess.run(cmd, cwd=os.path.dirname(path), capture_output=True, text=True,
                           timeout=timeout)
        out, err, rc = p.stdout, p.stderr, p.returncode
    except subprocess.TimeoutExpired as e:
        out = e.stdout.decode() if e.stdout else ""
        err = e.stderr.decode() if e.stderr else ""
        rc = -9
    wall = time.time() - t0
    if cdir and ckey and rc != -9:
        try:
            os.makedirs(cdir, exist_ok=True)
            tmp = os.path.join(cdir, "%s.%d.tmp" % (ckey, os.getpid()))
            with open(tmp, "w") as fh:
                json.dump({"out": out, "err": err, "rc": rc, "wall": wall, "bn": os.path.basename(path)}, fh)
            os.replace(tmp, os.path.join(cdir, ckey + ".json"))
        except Exception:
            pass
    return cmd, out, err, rc, wall


def parse(out, err):
    js = None
    try:
        i = out.index("{")
        js = json.loads(out[i:])
    except Exception:
        js = None
    diags = []
    other = []
    for line in err.splitlines():
        line = line.strip()
        if line.startswith("{"):
            try:
                d = json.loads(line)
                diags.append(d)
                continue
            except Exception:
                pass
        if line:
            other.append(line)
    return js, diags, other


def classify(unit, js, diags, rc):
    """Return dict(status, failures[], functions{}, ...).

    status: 'ok' (verus ran to completion; failures lists the failed obligations),
            'undecided' (rlimit / timeout / compile error / unsupported construct)."""
    res = {"status": "ok", "failures": [], "functions": {}, "reason": "", "verified": 0,
           "errors": 0, "smt_ms": 0, "rlimit_units": 0, "total_ms": 0}
    if js is None or "verification-results" not in js:
        msgs = [d.get("rendered") or d.get("message", "") for d in diags if d.get("level") == "error"]
        res["status"] = "undecided"
        res["reason"] = "verus produced no verification result (rc=%s): %s" % (rc, "\n".join(msgs)[:4000])
        return res
    vr = js["verification-results"]
    res["verified"] = vr.get("verified", 0)
    res["errors"] = vr.get("errors", 0)
    tm = js.get("times-ms", {})
    res["total_ms"] = tm.get("total", 0)
    smt = tm.get("smt", {})
    res["smt_ms"] = smt.get("smt-run", 0)
    res["rlimit_units"] = smt.get("rlimit-run", 0)
    for mod in smt.get("smt-run-module-times", []):
        for fb in mod.get("function-breakdown", []):
            res["functions"][fb["function"]] = {"success": fb.get("success"), "ms": fb.get("time", 0),
                                                "rlimit": fb.get("rlimit", 0), "mode": fb.get("mode:")}
    if vr.get("encountered-vir-error"):
        msgs = [d.get("rendered") or d.get("message", "") for d in diags if d.get("level") == "error"]
        res["status"] = "undecided"
        res["reason"] = "verus front-end error (unsupported construct / type error in generated unit): " + "\n".join(msgs)[:4000]
        return res
    rustc_errs = [d for d in diags if d.get("level") == "error" and d.get("code")]
    if not rustc_errs and not vr.get("success") and vr.get("errors", 0) == 0:
        # verification never started (lexer/parser/mode error): not a verdict
        rustc_errs = [d for d in diags if d.get("level") == "error"]
    if rustc_errs:
        res["status"] = "undecided"
        res["reason"] = "rustc error in generated unit (extractor/spec problem, not a verdict): " + \
            "\n".join((d.get("rendered") or d.get("message", "")) for d in rustc_errs)[:4000]
        return res
    for d in diags:
        if d.get("level") != "error":
            continue
        msg = d.get("message", "")
        if msg.startswith("aborting due to"):
            continue
        spans = d.get("spans", [])
        low = msg.lower()
        if "resource limit" in low or "rlimit" in low or "timed out" in low or "solver" in low and "unknown" in low:
            prim = [s for s in spans if s.get("is_primary")] or spans
            fid0 = unit.fn_at(prim[0]["line_start"]) if prim else None
            if fid0 and "__F_" in fid0:
                # a finding variant ran out of resources: it did not verify, which is what a listed
                # finding does anyway; recorded, judged by the driver
                res.setdefault("rlimit_findings", []).append(fid0)
                continue
            if fid0 and fid0.endswith("__canary"):
                # `false` was not derived within the resource limit: the canary is rejected
                res["failures"].append({"fid": fid0, "label": "canary", "message": msg, "detail": "rlimit",
                                        "line": prim[0]["line_start"], "source": "", "rendered": ""})
                continue
            res["status"] = "undecided"
            res["reason"] = "resource limit: " + msg + " in " + str(fid0)
            continue
        prim = [s for s in spans if s.get("is_primary")] or spans
        if not prim:
            res["status"] = "undecided"
            res["reason"] = "diagnostic without span: " + msg
            continue
        pl = prim[0]["line_start"]
        fid = None
        label = None
        detail = ""
        if "postcondition not satisfied" in low:
            cl = unit.clause_at(pl)
            # the function is the one whose contract contains the clause
            fid = unit.fn_at(pl)
            label = cl[3] if cl else "postcondition"
        elif "precondition not satisfied" in low:
            fid = unit.fn_at(pl)   # call site
            sec = [s for s in spans if not s.get("is_primary")]
            callee = ""
            if sec:
                c2 = unit.clause_at(sec[0]["line_start"])
                f2 = unit.fn_at(sec[0]["line_start"])
                if c2 and f2:
                    callee = "%s#%s" % (f2, c2[3])
                else:
                    callee = (sec[0].get("text") or [{}])[0].get("text", "").strip()
            label = "safety:precondition"
            detail = "precondition of callee not established: " + callee
        else:
            fid = unit.fn_at(pl)
            line_txt = (prim[0].get("text") or [{}])[0].get("text", "")
            import re as _re
            mk = _re.search(r"/\*@AS:(.*?)\*/", line_txt)
            if mk:
                label = mk.group(1)            # a named assertion spliced in by the spec
            elif "assertion failed" in low:
                label = "safety:assert"
            elif "invariant" in low:
                label = "safety:invariant"
            elif "overflow" in low or "underflow" in low or "division" in low or "shift" in low:
                label = "safety:arithmetic"
            elif "decreases" in low or "termination" in low:
                label = "safety:termination"
            else:
                label = "safety"
            detail = msg
        if fid is None:
            # error located in prelude / raw text: treat as undecided (machinery problem)
            res["status"] = "undecided"
            res["reason"] = "verification error outside any extracted function (prelude/raw): %s at line %d" % (msg, pl)
            continue
        src_line = (prim[0].get("text") or [{}])[0].get("text", "").strip()
        res["failures"].append({"fid": fid, "label": label, "message": msg, "detail": detail,
                                "line": pl, "source": src_line, "rendered": d.get("rendered", "")})
    return res
