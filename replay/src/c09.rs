//! C09 on the real f64 estimator under an injected clock: the laws proved over the reals, evaluated
//! with a relative tolerance, and the witness of the non-monotone decay finding.
use indicatif::verif_hooks::state::Est;
use std::time::Duration;

/// Known finding: after a burst the reported rate RISES during a stall before it decays.
pub fn est_decay(_args: &[String]) -> String {
    let t0 = crate::base();
    let mut e = Est::new(t0);
    let mut t = t0;
    let mut steps = 0u64;
    for _ in 0..60 {
        t += Duration::from_secs(1);
        steps += 1;
        e.record(steps, t);
    }
    t += Duration::from_secs(1);
    steps += 10_000;
    e.record(steps, t);
    let r0 = e.rate(t);
    let mut prev = r0;
    let mut rises = Vec::new();
    for k in 1..=8u64 {
        let r = e.rate(t + Duration::from_millis(500 * k));
        if r > prev * (1.0 + 1e-9) {
            rises.push(format!("{:.1}->{:.1}@+{}ms", prev, r, 500 * k));
        }
        prev = r;
    }
    let v: Vec<&str> = rises.iter().map(String::as_str).collect();
    format!("{{\"found\": {}, \"clause\": \"C09 the reported rate must not increase while progress stalls\", \"input\": {{\"history\": \"60 samples of 1 step/s, one sample of 10000 steps in 1 s, then no updates\", \"rate_at_last_sample\": {:.3}, \"increases_during_stall\": {}}}, \"rerun\": \"replay est_decay\"}}",
        !rises.is_empty(), r0, crate::jlist(&v))
}

/// Bounded stand-in for the proved laws on the real f64 code (relative tolerance 1e-6):
/// finite and non-negative, at most the largest sample rate, exact for steady progress at any
/// cadence, forgetful after reset.  Positions are exact integers: `per_unit` steps per time unit.
pub fn est_laws(_args: &[String]) -> String {
    let mut tried = 0u64;
    // (unit in ms, steps per unit): rates from 1e-3/s to 1e12/s
    let rates: [(u64, u64); 6] = [(1_000_000, 1), (1000, 1), (1000, 37), (1, 1), (1, 1000), (1, 1_000_000_000)];
    let gap_units: [&[u64]; 6] = [&[1], &[3], &[1, 5000, 20, 86_400], &[100, 100, 100, 3000], &[15], &[7, 13, 29, 101, 997]];
    for (unit_ms, per_unit) in rates {
        let rate = per_unit as f64 * 1000.0 / unit_ms as f64;
        for gaps in gap_units {
            let t0 = crate::base();
            let mut e = Est::new(t0);
            let mut t = t0;
            let mut steps = 0u64;
            for i in 0..40 {
                let g = gaps[i % gaps.len()];
                t += Duration::from_millis(g * unit_ms);
                steps += g * per_unit;
                e.record(steps, t);
                // updates that bring no progress (a redraw, a steady tick) at the same instant or in between must not
                // change what the estimator has learnt: "no matter how often or how irregularly updates arrive"
                e.record(steps, t);
                let r = e.rate(t);
                tried += 1;
                if !(r.is_finite() && r >= 0.0) {
                    return format!("{{\"found\": true, \"clause\": \"C09 per_sec finite and non-negative\", \"input\": {{\"rate\": {}, \"gap_units\": {:?}, \"sample\": {}, \"reported\": \"{}\"}}, \"rerun\": \"replay est_laws\"}}", rate, gaps, i, r);
                }
                if (r - rate).abs() / rate > 1e-6 {
                    return format!("{{\"found\": true, \"clause\": \"C09 steady progress is reported at its true rate whatever the cadence\", \"input\": {{\"rate\": {}, \"unit_ms\": {}, \"gap_units\": {:?}, \"sample\": {}, \"reported\": {}}}, \"rerun\": \"replay est_laws\"}}", rate, unit_ms, gaps, i, r);
                }
                // stalled queries stay within [0, largest rate]
                for stall_ms in [1u64, 500, 60_000] {
                    let q = e.rate(t + Duration::from_millis(stall_ms));
                    tried += 1;
                    if !(q.is_finite() && q >= 0.0 && q <= rate * (1.0 + 1e-6)) {
                        return format!("{{\"found\": true, \"clause\": \"C09 the rate lies between zero and the largest rate observed\", \"input\": {{\"rate\": {}, \"gap_units\": {:?}, \"stall_ms\": {}, \"reported\": \"{}\"}}, \"rerun\": \"replay est_laws\"}}", rate, gaps, stall_ms, q);
                    }
                }
            }
            // idle updates during a stall do not erase the stall: the rate at t+stall is the same with and without them
            {
                let stall = Duration::from_millis(3000);
                let plain = e.rate(t + stall);
                let mut k = 1u64;
                while k < 12 {
                    e.record(steps, t + Duration::from_millis(250 * k));
                    k += 1;
                }
                let with_idle = e.rate(t + stall);
                tried += 1;
                if (with_idle - plain).abs() > 1e-6 * plain.abs().max(1e-12) {
                    return format!("{{\"found\": true, \"clause\": \"C09 updates without progress do not change the estimate (rate independent of how often updates arrive, decay while stalled)\", \"input\": {{\"rate\": {}, \"gap_units\": {:?}, \"rate_after_3s_stall\": {}, \"same_with_11_idle_updates\": {}}}, \"rerun\": \"replay est_laws\"}}", rate, gaps, plain, with_idle);
                }
            }
            // reset forgets: fresh steady samples at ten times the rate
            e.reset(t);
            for _ in 0..5 {
                t += Duration::from_millis(unit_ms);
                steps += 10 * per_unit;
                e.record(steps, t);
            }
            let r = e.rate(t);
            tried += 1;
            if (r - 10.0 * rate).abs() / (10.0 * rate) > 1e-6 {
                return format!("{{\"found\": true, \"clause\": \"C09 estimates after reset ignore everything before it\", \"input\": {{\"rate_before\": {}, \"rate_after\": {}, \"reported\": {}}}, \"rerun\": \"replay est_laws\"}}", rate, 10.0 * rate, r);
            }
        }
    }
    // a reset after an idle period without any recorded progress forgets the idle time too
    for idle_ms in [0u64, 1, 5_000, 3_600_000] {
        let t0 = crate::base();
        let mut e = Est::new(t0);
        let mut t = t0 + Duration::from_millis(idle_ms);
        e.record(0, t);          // an update without progress
        e.reset(t);
        let mut steps = 0u64;
        for _ in 0..5 {
            t += Duration::from_millis(100);
            steps += 1;
            e.record(steps, t);
        }
        let r = e.rate(t);
        tried += 1;
        if (r - 10.0).abs() / 10.0 > 1e-6 {
            return format!("{{\"found\": true, \"clause\": \"C09 estimates after reset ignore everything before it (also an idle period without progress)\", \"input\": {{\"idle_ms_before_reset\": {}, \"true_rate_after\": 10, \"reported\": {}}}, \"rerun\": \"replay est_laws\"}}", idle_ms, r);
        }
    }
    format!("{{\"found\": false, \"tried\": {}}}", tried)
}
