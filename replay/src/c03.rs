//! C03 witnesses on the real library: printed log lines must stay on screen, once, in order.
use indicatif::{InMemoryTerm, MultiProgress, ProgressBar, ProgressDrawTarget, ProgressStyle};

fn screen(t: &InMemoryTerm) -> Vec<String> {
    t.contents().lines().map(|l| l.trim_end().to_string()).collect()
}
fn bar(mp: &MultiProgress, name: &'static str) -> ProgressBar {
    let pb = mp.add(ProgressBar::new(10));
    pb.set_style(ProgressStyle::with_template(&format!("{} {{pos}}", name)).unwrap());
    pb
}
fn report(name: &str, history: &str, expected: &[&str], scr: Vec<String>) -> String {
    let missing: Vec<&str> = expected.iter().filter(|e| !scr.iter().any(|l| l == *e)).cloned().collect();
    format!("{{\"found\": {}, \"clause\": \"{}: printed lines [{}] are no longer on the terminal\", \"input\": {{\"history\": {}, \"screen\": {}}}, \"rerun\": \"replay {}\"}}",
        !missing.is_empty(), name, missing.join(","), crate::js(history), crate::jlist(&scr.iter().map(|s| s.as_str()).collect::<Vec<_>>()), name)
}

/// Finding C03-log-untouched: a zombie reaped by the println's own draw is counted into the rows to clear.
pub fn c03_clear_overshoot(_a: &[String]) -> String {
    let term = InMemoryTerm::new(12, 30);
    let mp = MultiProgress::with_draw_target(ProgressDrawTarget::term_like(Box::new(term.clone())));
    mp.println("log-1").unwrap();
    mp.println("log-2").unwrap();
    let a = bar(&mp, "A");
    let b = bar(&mp, "B");
    a.tick(); b.tick();
    b.finish(); a.finish();
    drop(b); drop(a);
    mp.println("log-3").unwrap();
    report("c03_clear_overshoot", "println log-1, log-2; bars A,B; B.finish(); A.finish(); drop(B); drop(A); println log-3", &["log-1", "log-2", "log-3"], screen(&term))
}

/// Finding C03-text-directly-below-log: text printed through a member while zombie rows exist.
pub fn c03_text_below_zombies(_a: &[String]) -> String {
    let term = InMemoryTerm::new(12, 30);
    let mp = MultiProgress::with_draw_target(ProgressDrawTarget::term_like(Box::new(term.clone())));
    let a = bar(&mp, "A");
    let b = bar(&mp, "B");
    a.tick(); b.tick();
    a.finish();
    drop(a);
    b.println("bar-text");
    mp.println("log-x").unwrap();
    report("c03_text_below_zombies", "bars A,B; A.finish(); drop(A); B.println(bar-text); mp.println(log-x)", &["bar-text", "log-x"], screen(&term))
}

/// Finding C03-skip-preserves-state: rate limited draws re-count a zombie waiting at the head.
pub fn c03_skip_recount(_a: &[String]) -> String {
    let term = InMemoryTerm::new(16, 30);
    let mp = MultiProgress::with_draw_target(ProgressDrawTarget::term_like_with_hz(Box::new(term.clone()), 1));
    mp.println("log-1").unwrap();
    mp.println("log-2").unwrap();
    mp.println("log-3").unwrap();
    let a = bar(&mp, "A");
    let b = bar(&mp, "B");
    let c = bar(&mp, "C");
    a.tick(); b.tick(); c.tick();
    for _ in 0..60 { c.tick(); }   // the bucket of the 1 Hz target runs dry
    b.finish();
    drop(b);          // not at the head: only flagged
    a.finish();
    drop(a);          // head: reaped at once; B now waits at the head
    for _ in 0..5 { c.tick(); }    // skipped draws: each one re-counts B's row
    mp.println("log-4").unwrap();
    report("c03_skip_recount", "println x3; bars A,B,C; 60 x C.tick() on a 1 Hz target (bucket empty); B.finish(); drop(B); A.finish(); drop(A); 5 x C.tick() (skipped); println log-4", &["log-1", "log-2", "log-3", "log-4"], screen(&term))
}
