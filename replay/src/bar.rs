//! Bounded stand-ins for the draw-path units (bar_draw, draw_to_term, multi_state): scenario
//! families on the REAL code against indicatif's own terminal emulator (InMemoryTerm).  Run only
//! when one of those units cannot be extracted from the current tree.  The families avoid the
//! listed known findings (no frame with an empty first line, no cursor-moving mode, no println
//! while dropped bars wait to be reaped, no line that exactly fills the terminal width).
use indicatif::{InMemoryTerm, MultiProgress, ProgressBar, ProgressDrawTarget, ProgressFinish, ProgressStyle, TermLike};
use std::io;
use std::sync::atomic::{AtomicUsize, Ordering};
use std::sync::Arc;
use std::time::Instant;

const W: usize = 40;
const H: u16 = 16;

fn wrap(s: &str) -> Vec<String> {
    // the text of one logical line as rows of the terminal (ASCII only)
    let mut out = Vec::new();
    for l in s.split('\n') {
        if l.is_empty() {
            out.push(String::new());
            continue;
        }
        let b = l.as_bytes();
        let mut i = 0;
        while i < b.len() {
            let j = (i + W).min(b.len());
            out.push(l[i..j].to_string());
            i = j;
        }
    }
    out
}

fn style() -> ProgressStyle {
    ProgressStyle::with_template("[{msg}]\n{pos}/{len}").unwrap()
}

fn mk(term: &InMemoryTerm, len: Option<u64>, hz: Option<u8>) -> ProgressBar {
    let target = match hz {
        Some(h) => ProgressDrawTarget::term_like_with_hz(Box::new(term.clone()), h),
        None => ProgressDrawTarget::term_like(Box::new(term.clone())),
    };
    let pb = ProgressBar::with_draw_target(len, target);
    pb.set_style(style());
    pb
}

#[derive(Clone, Copy, Debug)]
enum Op { Inc, Msg(&'static str), Log(&'static str), Len(u64), Pos(u64), Reset, Tick, Suspend }

const LONG: &str = "a long message that is clearly wider than forty columns wide";
const OPS: [Op; 12] = [Op::Inc, Op::Msg("short"), Op::Msg(LONG), Op::Msg("two\nlines"), Op::Msg(""), Op::Msg("gap\n\nbelow"), Op::Log("log line"),
    Op::Log("a printed line that is wider than the forty columns of the terminal"), Op::Len(20), Op::Pos(5), Op::Reset, Op::Suspend];

struct Model { logs: Vec<String>, msg: String, pos: u64, len: Option<u64>, cleared: bool }
impl Model {
    fn frame(&self) -> Vec<String> {
        if self.cleared {
            return vec![];
        }
        let mut f = wrap(&format!("[{}]", self.msg));
        f.push(format!("{}/{}", self.pos, self.len.unwrap_or(self.pos)));
        f
    }
    fn screen(&self) -> String {
        let mut rows: Vec<String> = self.logs.iter().flat_map(|l| wrap(l)).collect();
        rows.extend(self.frame());
        rows.join("\n").trim_end().to_string()
    }
    fn apply(&mut self, pb: &ProgressBar, op: Op) {
        match op {
            Op::Inc => { pb.inc(1); self.pos += 1; }
            Op::Msg(m) => { pb.set_message(m); self.msg = m.to_string(); }
            Op::Log(l) => { pb.println(l); self.logs.push(l.to_string()); }
            Op::Len(n) => { pb.set_length(n); self.len = Some(n); }
            Op::Pos(p) => { pb.set_position(p); self.pos = p; }
            Op::Reset => { pb.reset(); self.pos = 0; }
            Op::Tick => pb.tick(),
            Op::Suspend => pb.suspend(|| ()),
        }
    }
}

fn report(clause: &str, history: &[String], want: &str, got: &str, rerun: &str) -> String {
    let h: Vec<&str> = history.iter().map(String::as_str).collect();
    format!("{{\"found\": true, \"clause\": {}, \"input\": {{\"history\": {}, \"expected_screen\": {}, \"screen\": {}}}, \"rerun\": \"replay {}\"}}",
        crate::js(clause), crate::jlist(&h), crate::js(want), crate::js(got), rerun)
}

/// C01 / C03: after every completed draw the screen is the printed lines followed by the current frame.
pub fn bar_screen(_args: &[String]) -> String {
    std::panic::set_hook(Box::new(|_| {}));
    let mut tried = 0u64;
    for len in [Some(10u64), None] {
        for a in 0..OPS.len() {
            for b in 0..OPS.len() {
                for c in [0usize, 3, 5, 6, 10] {
                    let term = InMemoryTerm::new(H, W as u16);
                    let pb = mk(&term, len, None);
                    let mut m = Model { logs: vec![], msg: String::new(), pos: 0, len, cleared: false };
                    let mut hist = vec![format!("bar len={:?} template [{{msg}}]\\n{{pos}}/{{len}} on a 40x16 terminal, no rate limit", len)];
                    pb.tick();
                    for op in [OPS[a], OPS[b], OPS[c]] {
                        m.apply(&pb, op);
                        hist.push(format!("{:?}", op));
                        tried += 1;
                        let got = term.contents();
                        if got != m.screen() {
                            return report("C01 screen = printed lines + current frame after every draw (C03: printed lines stay, once, in order; C19: wrapped rows are counted as they are shown)", &hist, &m.screen(), &got, "bar_screen");
                        }
                    }
                    // finishing variants
                    let fin = (a + b + c) % 5;
                    match fin {
                        0 => { pb.finish(); if let Some(l) = m.len { m.pos = l; } }
                        1 => { pb.finish_with_message("done"); m.msg = "done".into(); if let Some(l) = m.len { m.pos = l; } }
                        2 => { pb.finish_and_clear(); m.cleared = true; if let Some(l) = m.len { m.pos = l; } }
                        3 => pb.abandon(),
                        _ => { pb.abandon_with_message("gone"); m.msg = "gone".into(); }
                    }
                    hist.push(format!("finish variant {}", fin));
                    tried += 1;
                    let got = term.contents();
                    if got != m.screen() || !pb.is_finished() {
                        return report("C04 the finishing call paints the final state (C01: a cleared bar leaves nothing)", &hist, &m.screen(), &got, "bar_screen");
                    }
                    drop(pb);
                    let got = term.contents();
                    if got != m.screen() {
                        hist.push("drop".into());
                        return report("C04 dropping a finished bar changes nothing on screen", &hist, &m.screen(), &got, "bar_screen");
                    }
                }
            }
        }
    }
    format!("{{\"found\": false, \"tried\": {}}}", tried)
}

/// C01 / C03 / C04 after the end and at the edges of a single bar's life: a finished bar keeps behaving (suspend, println and
/// later updates leave printed lines above one copy of the final frame), a template that renders to nothing wipes the old
/// frame, and ordinary output written after a completed draw starts on a fresh line below the frame (also below a last line
/// that wraps).
pub fn bar_after(_args: &[String]) -> String {
    std::panic::set_hook(Box::new(|_| {}));
    let mut tried = 0u64;
    // (i) a rendering that shrinks to nothing
    for with_log in [false, true] {
        let term = InMemoryTerm::new(H, W as u16);
        let pb = ProgressBar::with_draw_target(Some(10), ProgressDrawTarget::term_like(Box::new(term.clone())));
        pb.set_style(ProgressStyle::with_template("{prefix}{msg}").unwrap());
        let mut hist = vec!["bar with template {prefix}{msg}".to_string()];
        let mut logs: Vec<String> = vec![];
        if with_log { pb.println("log line"); logs.push("log line".into()); hist.push("println(log line)".into()); }
        for m in ["downloading index", "", "compiling", "", ""] {
            pb.set_message(m);
            hist.push(format!("set_message({:?})", m));
            tried += 1;
            let mut rows = logs.clone();
            if !m.is_empty() { rows.push(m.to_string()); }
            let want = rows.join("\n");
            let got = term.contents();
            if got != want {
                return report("C01 a rendering that shrinks (here: to nothing) leaves no residue of the earlier frame", &hist, &want, &got, "bar_after");
            }
        }
    }
    // a custom key whose text contains a line break is split into rows like any other text
    for (msg, pfx) in [("", ""), ("m", ""), ("two\nlines", "")] {
        let term = InMemoryTerm::new(H, W as u16);
        let pb = ProgressBar::with_draw_target(Some(10), ProgressDrawTarget::term_like(Box::new(term.clone())));
        pb.set_style(ProgressStyle::with_template("{prefix}{msg}|{k}").unwrap()
            .with_key("k", |s: &indicatif::ProgressState, w: &mut dyn std::fmt::Write| { let _ = write!(w, "top {}\nbottom", s.pos()); }));
        pb.set_message(msg);
        pb.set_prefix(pfx);
        let mut hist = vec![format!("template {{prefix}}{{msg}}|{{k}} with a custom key k writing \"top <pos>\\nbottom\"; message {:?}", msg)];
        let mut logs: Vec<String> = vec![];
        for step in 0..4 {
            match step { 0 => pb.tick(), 1 => pb.inc(1), 2 => { pb.println("log"); logs.push("log".into()); } _ => pb.inc(1) }
            hist.push(["tick", "inc(1)", "println(log)", "inc(1)"][step].to_string());
            tried += 1;
            let pos = match step { 0 => 0, 1 | 2 => 1, _ => 2 };
            let mut rows = logs.clone();
            rows.extend(format!("{}{}|top {}\nbottom", pfx, msg, pos).split('\n').map(String::from));
            let want = rows.join("\n");
            let got = term.contents();
            if got != want {
                return report("C01 the rendering of a custom key with a line break is counted row by row: no residue after a redraw", &hist, &want, &got, "bar_after");
            }
        }
        pb.finish_and_clear();
        tried += 1;
        let got = term.contents();
        if got != logs.join("\n") {
            hist.push("finish_and_clear".into());
            return report("C01 a cleared bar leaves no residue (custom key with a line break)", &hist, &logs.join("\n"), &got, "bar_after");
        }
    }
    // a line of double-width characters that wraps: counted by its columns, not by its characters
    {
        let term = InMemoryTerm::new(8, 10);
        let pb = ProgressBar::with_draw_target(Some(10), ProgressDrawTarget::term_like(Box::new(term.clone())));
        pb.set_style(ProgressStyle::with_template("{msg}").unwrap());
        let wide = "\u{65e5}\u{672c}\u{8a9e}\u{65e5}\u{672c}\u{8a9e}\u{65e5}\u{672c}";   // 8 characters, 16 columns
        let mut hist = vec!["10-column terminal, template {msg}".to_string()];
        for (m, want) in [(wide, "\u{65e5}\u{672c}\u{8a9e}\u{65e5}\u{672c}\n\u{8a9e}\u{65e5}\u{672c}"), ("x", "x"), (wide, "\u{65e5}\u{672c}\u{8a9e}\u{65e5}\u{672c}\n\u{8a9e}\u{65e5}\u{672c}"), ("", "")] {
            pb.set_message(m);
            hist.push(format!("set_message({:?})", m));
            tried += 1;
            let got = term.contents();
            if got != want {
                return report("C01/C19 a wrapped line of double-width characters is erased completely by the next frame", &hist, want, &got, "bar_after");
            }
        }
    }
    // (ii) life after finishing, (iii) where ordinary output lands
    for msg in ["", "short", LONG, "two\nlines"] {
        for fin in 0..5 {
            for later in 0..4 {
                let term = InMemoryTerm::new(H, W as u16);
                let pb = mk(&term, Some(10), None);
                let mut m = Model { logs: vec![], msg: msg.to_string(), pos: 3, len: Some(10), cleared: false };
                let mut hist = vec![format!("bar len=10 template [{{msg}}]\\n{{pos}}/{{len}}; set_message({:?}); set_position(3)", msg)];
                pb.set_message(msg.to_string());
                pb.set_position(3);
                match fin {
                    0 => { pb.finish(); m.pos = 10; }
                    1 => { pb.finish_with_message("done"); m.msg = "done".into(); m.pos = 10; }
                    2 => { pb.finish_and_clear(); m.cleared = true; m.pos = 10; }
                    3 => pb.abandon(),
                    _ => { pb.abandon_with_message("gone"); m.msg = "gone".into(); }
                }
                hist.push(["finish", "finish_with_message(done)", "finish_and_clear", "abandon", "abandon_with_message(gone)"][fin].to_string());
                match later {
                    0 => { let t = term.clone(); pb.suspend(|| { let _ = t.write_line("from suspend"); }); m.logs.push("from suspend".into()); hist.push("suspend(|| write_line(from suspend))".into()); }
                    1 => { pb.println("late log"); m.logs.push("late log".into()); hist.push("println(late log)".into()); }
                    2 => { pb.set_message("later"); m.msg = "later".into(); hist.push("set_message(later)".into()); }
                    _ => {}
                }
                tried += 1;
                let got = term.contents();
                if got != m.screen() {
                    return report("C01/C03/C04 a finished bar: printed lines and the closure's output stay above ONE copy of the final frame", &hist, &m.screen(), &got, "bar_after");
                }
                if later == 0 {
                    pb.println("after suspend"); m.logs.push("after suspend".into()); hist.push("println(after suspend)".into());
                    tried += 1;
                    let got = term.contents();
                    if got != m.screen() {
                        return report("C03 lines written by the suspend closure of a finished bar survive the next draw", &hist, &m.screen(), &got, "bar_after");
                    }
                }
                // ordinary output after the last completed draw starts on a fresh line below the frame
                let _ = term.write_str("X");
                hist.push("the program writes X".into());
                let want = if m.screen().is_empty() { "X".to_string() } else { format!("{}\nX", m.screen()) };
                tried += 1;
                let got = term.contents();
                if got != want {
                    return report("C01 ordinary output written after a completed draw starts on a fresh line below the frame", &hist, &want, &got, "bar_after");
                }
            }
        }
    }
    // a last bar line that wraps: the cursor still rests at the end of its last row
    for cols in [41usize, 79, 80, 81] {
        let term = InMemoryTerm::new(H, W as u16);
        let pb = ProgressBar::with_draw_target(Some(10), ProgressDrawTarget::term_like(Box::new(term.clone())));
        pb.set_style(ProgressStyle::with_template("{msg}").unwrap());
        let text = "m".repeat(cols);
        pb.set_message(text.clone());
        pb.abandon();
        let _ = term.write_str("X");
        tried += 1;
        let mut rows = wrap(&text);
        rows.push("X".into());
        let want = rows.join("\n");
        let got = term.contents();
        if got != want {
            let hist = vec![format!("bar with template {{msg}}, a message of {} columns on a 40-column terminal; abandon; the program writes X", cols)];
            return report("C01 ordinary output written after a completed draw starts on a fresh line, also below a last line that wraps", &hist, &want, &got, "bar_after");
        }
    }
    format!("{{\"found\": false, \"tried\": {}}}", tried)
}

/// C04 / C05: with the limiter exhausted, finishing (and dropping an unfinished bar) still paints the final state;
/// println and suspend are forced too (C03).
pub fn bar_forced(_args: &[String]) -> String {
    std::panic::set_hook(Box::new(|_| {}));
    let mut tried = 0u64;
    for variant in 0..14 {
        let in_multi = variant >= 7;
        let variant = variant % 7;
        let term = InMemoryTerm::new(H, W as u16);
        // second half: the bar is the only member of a MultiProgress on the 1 Hz target
        let mp = if in_multi { Some(MultiProgress::with_draw_target(ProgressDrawTarget::term_like_with_hz(Box::new(term.clone()), 1))) } else { None };
        let pb = match &mp {
            Some(mp) => { let pb = mp.add(ProgressBar::new(10)); pb.set_style(style()); pb.with_finish(ProgressFinish::AndLeave) }
            None => mk(&term, Some(10), Some(1)).with_finish(ProgressFinish::AndLeave),
        };
        let mut m = Model { logs: vec![], msg: String::new(), pos: 0, len: Some(10), cleared: false };
        let mut hist = vec![if in_multi { "bar len=10, only member of a MultiProgress on a 1 Hz target".to_string() } else { "bar len=10 on a 1 Hz target".to_string() }, "60 x set_message(spam<i>) + inc(0) (exhausts the limiter)".to_string()];
        for i in 0..60 {
            pb.set_message(format!("spam{}", i));       // every request asks for a different frame
            pb.inc(0);
        }
        pb.set_position(3);
        m.pos = 3;
        pb.set_message("late");
        m.msg = "late".into();
        match variant {
            0 => { pb.finish(); m.pos = 10; hist.push("finish".into()); }
            1 => { pb.finish_with_message("done"); m.pos = 10; m.msg = "done".into(); hist.push("finish_with_message(done)".into()); }
            2 => { pb.finish_and_clear(); m.pos = 10; m.cleared = true; hist.push("finish_and_clear".into()); }
            3 => { pb.abandon(); hist.push("abandon".into()); }
            4 => { drop(pb); m.pos = 10; hist.push("drop (on_finish = AndLeave)".into()); }
            5 => { pb.println("log"); m.logs.push("log".into()); hist.push("println(log)".into()); }
            _ => { pb.suspend(|| ()); hist.push("suspend".into()); }
        }
        tried += 1;
        let got = term.contents();
        if got != m.screen() {
            // the final state is there, with remnants of an earlier frame around it: that is a redraw that does not erase (C01)
            let want = m.screen();
            let (wr, gr): (Vec<&str>, Vec<&str>) = (want.split('\n').collect(), got.split('\n').collect());
            let residue = !want.is_empty() && gr.len() >= wr.len() && wr.iter().zip(gr.iter()).all(|(w, g)| g.starts_with(w));
            let clause = if residue { "C01/C04 the forced draw paints the final state and leaves no remnant of an earlier frame" }
                else if variant <= 4 { "C04/C05 forced draws (finish*, abandon*, drop of an unfinished bar) paint the final state regardless of the limiter" }
                else { "C03/C05/C01 println and suspend are forced draws: the printed line and the latest frame are on screen regardless of the limiter" };
            return report(clause, &hist, &m.screen(), &got, "bar_forced");
        }
    }
    format!("{{\"found\": false, \"tried\": {}}}", tried)
}

#[derive(Debug, Clone)]
struct Counting { inner: InMemoryTerm, flushes: Arc<AtomicUsize> }
impl TermLike for Counting {
    fn width(&self) -> u16 { self.inner.width() }
    fn height(&self) -> u16 { self.inner.height() }
    fn move_cursor_up(&self, n: usize) -> io::Result<()> { self.inner.move_cursor_up(n) }
    fn move_cursor_down(&self, n: usize) -> io::Result<()> { self.inner.move_cursor_down(n) }
    fn move_cursor_right(&self, n: usize) -> io::Result<()> { self.inner.move_cursor_right(n) }
    fn move_cursor_left(&self, n: usize) -> io::Result<()> { self.inner.move_cursor_left(n) }
    fn write_line(&self, s: &str) -> io::Result<()> { self.inner.write_line(s) }
    fn write_str(&self, s: &str) -> io::Result<()> { self.inner.write_str(s) }
    fn clear_line(&self) -> io::Result<()> { self.inner.clear_line() }
    fn flush(&self) -> io::Result<()> { self.flushes.fetch_add(1, Ordering::SeqCst); self.inner.flush() }
}

/// C05: ordinary updates paint at most 20 + rate * T + 1 frames, whatever the position / length.
pub fn bar_frames(_args: &[String]) -> String {
    std::panic::set_hook(Box::new(|_| {}));
    let mut tried = 0u64;
    for (pos, len) in [(0u64, Some(10u64)), (3, Some(10)), (10, Some(10)), (15, Some(10)), (0, Some(0)), (5, None)] {
        for hz in [1u8, 20] {
            let flushes = Arc::new(AtomicUsize::new(0));
            let t = Counting { inner: InMemoryTerm::new(H, W as u16), flushes: flushes.clone() };
            let pb = ProgressBar::with_draw_target(len, ProgressDrawTarget::term_like_with_hz(Box::new(t), hz));
            pb.set_style(style());
            pb.set_position(pos);
            let before = flushes.load(Ordering::SeqCst);
            let t0 = Instant::now();
            for i in 0..400 {
                if i % 2 == 0 { pb.set_message("m") } else { pb.tick() }
            }
            let secs = t0.elapsed().as_secs_f64();
            let frames = flushes.load(Ordering::SeqCst) - before;
            let bound = 20.0 + hz as f64 * secs + 1.0;
            tried += 1;
            if frames as f64 > bound {
                return format!("{{\"found\": true, \"clause\": \"C05 at most 20 + rate*T + 1 frames from ordinary updates\", \"input\": {{\"pos\": {}, \"len\": {:?}, \"hz\": {}, \"updates\": 400, \"seconds\": {:.4}, \"frames\": {}, \"bound\": {:.1}}}, \"rerun\": \"replay bar_frames\"}}",
                    pos, len.map(|x| x as i64).unwrap_or(-1), hz, secs, frames, bound);
            }
            pb.abandon();
        }
    }
    format!("{{\"found\": false, \"tried\": {}}}", tried)
}

/// C06: a hidden bar evolves exactly like a visible one.
pub fn bar_hidden(_args: &[String]) -> String {
    std::panic::set_hook(Box::new(|_| {}));
    let mut tried = 0u64;
    let fins = 6;
    for a in 0..OPS.len() {
        for b in 0..OPS.len() {
            for fin in 0..fins {
                let term = InMemoryTerm::new(H, W as u16);
                let vis = mk(&term, Some(10), None);
                let hid = ProgressBar::with_draw_target(Some(10), ProgressDrawTarget::hidden());
                hid.set_style(style());
                let mut mv = Model { logs: vec![], msg: String::new(), pos: 0, len: Some(10), cleared: false };
                let mut mh = Model { logs: vec![], msg: String::new(), pos: 0, len: Some(10), cleared: false };
                let mut hist: Vec<String> = vec![];
                let mut steps: Vec<Box<dyn Fn(&ProgressBar)>> = vec![];
                for op in [OPS[a], OPS[b]] {
                    mv.apply(&vis, op);
                    mh.apply(&hid, op);
                    hist.push(format!("{:?}", op));
                }
                match fin {
                    0 => steps.push(Box::new(|p| p.finish())),
                    1 => steps.push(Box::new(|p| p.finish_and_clear())),
                    2 => steps.push(Box::new(|p| p.abandon_with_message("x"))),
                    3 => { steps.push(Box::new(|p| p.finish())); steps.push(Box::new(|p| p.reset())); }
                    4 => { steps.push(Box::new(|p| p.finish_and_clear())); steps.push(Box::new(|p| p.reset())); steps.push(Box::new(|p| p.inc(2))); }
                    _ => {}
                }
                hist.push(format!("finish variant {}", fin));
                // texts with tabs and a tab width that changes afterwards: the getters show the current expansion
                if (a + b + fin) % 3 == 0 {
                    steps.push(Box::new(|p| p.set_message("a\tb")));
                    steps.push(Box::new(|p| p.set_prefix("p\tq")));
                    steps.push(Box::new(|p| p.set_tab_width(3)));
                    hist.push("set_message(a\\tb); set_prefix(p\\tq); set_tab_width(3)".into());
                }
                for s in steps.iter() {
                    s(&vis);
                    s(&hid);
                }
                tried += 1;
                let gv = (vis.position(), vis.length(), vis.message(), vis.prefix(), vis.is_finished());
                let gh = (hid.position(), hid.length(), hid.message(), hid.prefix(), hid.is_finished());
                if gv != gh {
                    let h: Vec<&str> = hist.iter().map(String::as_str).collect();
                    return format!("{{\"found\": true, \"clause\": \"C06 getters of a hidden bar evolve exactly as for a visible bar (C07: one of the two does not follow the history)\", \"input\": {{\"history\": {}, \"visible\": {}, \"hidden\": {}}}, \"rerun\": \"replay bar_hidden\"}}",
                        crate::jlist(&h), crate::js(&format!("{:?}", gv)), crate::js(&format!("{:?}", gh)));
                }
            }
        }
    }
    format!("{{\"found\": false, \"tried\": {}}}", tried)
}

/// C02: the bars of a MultiProgress appear in the documented order after inserts and removals.
pub fn multi_order(_args: &[String]) -> String {
    std::panic::set_hook(Box::new(|_| {}));
    let mut tried = 0u64;
    // op codes: 0 add, 1 insert(0), 2 insert(1), 3 insert_from_back(0), 4 insert_from_back(1), 5 insert_before(first), 6 insert_after(first), 7 remove(first), 8 remove(last),
    // 9 add / insert / insert_after a bar that is already a member
    for a in 0..10 {
        for b in 0..10 {
            for c in 0..10 {
                for d in [0usize, 2, 4, 7, 9] {
                    let term = InMemoryTerm::new(H, W as u16);
                    let mp = MultiProgress::with_draw_target(ProgressDrawTarget::term_like(Box::new(term.clone())));
                    let mut order: Vec<(String, ProgressBar)> = vec![];
                    let mut hist: Vec<String> = vec![];
                    let mut n = 0;
                    for (step, op) in [0usize, a, b, c, d].into_iter().enumerate() {
                        let name = format!("bar{}", n);
                        let mkbar = || {
                            let pb = ProgressBar::new(10);
                            pb.set_style(ProgressStyle::with_template("{msg}").unwrap());
                            pb
                        };
                        match op {
                            0 => { let pb = mp.add(mkbar()); pb.set_message(name.clone()); order.push((name.clone(), pb)); n += 1; hist.push("add".into()); }
                            1 | 2 => { let i = op - 1; let pb = mp.insert(i, mkbar()); pb.set_message(name.clone()); let at = i.min(order.len()); order.insert(at, (name.clone(), pb)); n += 1; hist.push(format!("insert({})", i)); }
                            3 | 4 => { let i = op - 3; let pb = mp.insert_from_back(i, mkbar()); pb.set_message(name.clone()); let at = order.len().saturating_sub(i); order.insert(at, (name.clone(), pb)); n += 1; hist.push(format!("insert_from_back({})", i)); }
                            5 if !order.is_empty() => { let pb = mp.insert_before(&order[0].1, mkbar()); pb.set_message(name.clone()); order.insert(0, (name.clone(), pb)); n += 1; hist.push("insert_before(first)".into()); }
                            6 if !order.is_empty() => { let pb = mp.insert_after(&order[0].1, mkbar()); pb.set_message(name.clone()); order.insert(1, (name.clone(), pb)); n += 1; hist.push("insert_after(first)".into()); }
                            7 if !order.is_empty() => { let (_, pb) = order.remove(0); mp.remove(&pb); hist.push("remove(first)".into()); }
                            8 if !order.is_empty() => { let (_, pb) = order.pop().unwrap(); mp.remove(&pb); hist.push("remove(last)".into()); }
                            // "Adding a progress bar that is already a member of the MultiProgress will have no effect"
                            9 if order.len() >= 2 => {
                                let pb = order[0].1.clone();
                                match step % 3 {
                                    0 => { let _ = mp.add(pb); hist.push("add(first bar again)".into()); }
                                    1 => { let _ = mp.insert(1, pb); hist.push("insert(1, first bar again)".into()); }
                                    _ => { let last = order[order.len() - 1].1.clone(); let _ = mp.insert_after(&last, pb); hist.push("insert_after(last, first bar again)".into()); }
                                }
                            }
                            _ => continue,
                        }
                        if order.is_empty() {
                            continue; // nothing draws after the last bar is removed: the screen is only defined at the next draw
                        }
                        for (_, pb) in order.iter() {
                            pb.tick();
                        }
                        tried += 1;
                        let want = order.iter().map(|x| x.0.clone()).collect::<Vec<_>>().join("\n");
                        let got = term.contents();
                        if got != want {
                            return report("C02 bars are shown exactly once each, in the documented order", &hist, &want, &got, "multi_order");
                        }
                    }
                }
            }
        }
    }
    format!("{{\"found\": false, \"tried\": {}}}", tried)
}

/// C04 (MultiProgress): visibly finished bars keep their final rendering, in order, after all bars were dropped.
pub fn multi_finish(_args: &[String]) -> String {
    std::panic::set_hook(Box::new(|_| {}));
    let mut tried = 0u64;
    let perms: [[usize; 3]; 6] = [[0, 1, 2], [0, 2, 1], [1, 0, 2], [1, 2, 0], [2, 0, 1], [2, 1, 0]];
    for wide in [false, true] {
    for fp in perms {
        for dp in perms {
            let term = InMemoryTerm::new(H, W as u16);
            let mp = MultiProgress::with_draw_target(ProgressDrawTarget::term_like(Box::new(term.clone())));
            // `wide`: every bar is wider than the terminal and wraps onto a second row
            let pad = if wide { " wider than the terminal, it wraps around" } else { "" };
            let mut bars: Vec<Option<ProgressBar>> = (0..3).map(|i| {
                let pb = mp.add(ProgressBar::new(10));
                pb.set_style(ProgressStyle::with_template("{msg} {pos}/{len}").unwrap());
                pb.set_message(format!("bar{}{}", i, pad));
                Some(pb)
            }).collect();
            // a fourth bar below stays alive and keeps redrawing while the others are dropped
            let live = mp.add(ProgressBar::new(10));
            live.set_style(ProgressStyle::with_template("{msg} {pos}/{len}").unwrap());
            live.set_message("live");
            let mut hist = vec!["three bars and a fourth one (live) below".to_string()];
            for i in fp {
                bars[i].as_ref().unwrap().finish();
                hist.push(format!("finish bar{}", i));
            }
            for i in dp {
                bars[i] = None;
                live.inc(1);
                hist.push(format!("drop bar{}; live.inc(1)", i));
            }
            live.finish();
            drop(live);
            drop(mp);
            tried += 1;
            let mut want_rows: Vec<String> = (0..3).flat_map(|i| wrap(&format!("bar{}{} 10/10", i, pad))).collect();
            want_rows.push("live 10/10".to_string());
            let want: String = want_rows.join("\n");
            let got = term.contents();
            if got != want {
                return report("C04 visibly finished bars of a MultiProgress keep their final rendering (all wrapped rows; C19), in order (C02), after all bars are dropped", &hist, &want, &got, "multi_finish");
            }
        }
    }
    }
    // the MultiProgress moves to a terminal of another width: a finished bar is counted with the rows it takes THERE
    for (w1, w2) in [(30u16, 10u16), (10, 30), (30, 12), (12, 30)] {
        for first in [true, false] {
            let term1 = InMemoryTerm::new(12, w1);
            let term2 = InMemoryTerm::new(12, w2);
            let mp = MultiProgress::with_draw_target(ProgressDrawTarget::term_like(Box::new(term1.clone())));
            let mk2 = |m: &str| { let pb = ProgressBar::new(10); pb.set_style(ProgressStyle::with_template("{msg} {pos}").unwrap()); pb.set_message(m.to_string()); pb };
            let text = "a-finished-bar-of-25-cols";
            let (a, b) = if first { let a = mp.add(mk2(text)); let b = mp.add(mk2("b")); (a, b) } else { let b = mp.add(mk2("b")); let a = mp.add(mk2(text)); (a, b) };
            a.tick(); b.tick();
            a.finish();
            mp.set_draw_target(ProgressDrawTarget::term_like(Box::new(term2.clone())));
            b.inc(1);
            drop(a);
            b.inc(1);
            b.inc(1);
            tried += 1;
            let hist = vec![format!("{}-column terminal; bars a ({}) and b, a added {}", w1, text, if first { "first" } else { "second" }),
                "tick both; a.finish()".to_string(), format!("mp.set_draw_target({}-column terminal)", w2), "b.inc(1); drop(a); b.inc(1); b.inc(1)".to_string()];
            let full = format!("{} 10", text);
            let arows: Vec<String> = full.as_bytes().chunks(w2 as usize).map(|c| String::from_utf8_lossy(c).trim_end().to_string()).collect();
            let mut rows: Vec<String> = vec![];
            if first { rows.extend(arows.clone()); rows.push("b 3".into()); } else { rows.push("b 3".into()); rows.extend(arows.clone()); }
            let want = rows.join("\n");
            let got = term2.contents();
            if got != want {
                return report("C19/C04 after a move to a terminal of another width, a finished and dropped bar keeps all the rows it takes there, and redraws erase exactly the live rows", &hist, &want, &got, "multi_finish");
            }
        }
    }
    format!("{{\"found\": false, \"tried\": {}}}", tried)
}


/// C03 / C02: lines printed through the MultiProgress or through a member bar (also the empty line) appear
/// once, in order, above the bars; the bars stay in order below them.  No bar is finished or dropped here.
pub fn multi_logs(_args: &[String]) -> String {
    std::panic::set_hook(Box::new(|_| {}));
    let mut tried = 0u64;
    let texts = ["", "text", "two\nlines"];
    // op = (who, text): who 0 = mp.println, 1..=3 = bar_i.println, 4 = bar0.set_message + tick, 5 = bar2.inc, 6 = mp.clear
    for a in 0..7 {
        for b in 0..7 {
            for c in 0..7 {
                for ti in 0..texts.len() {
                    let term = InMemoryTerm::new(H, W as u16);
                    let mp = MultiProgress::with_draw_target(ProgressDrawTarget::term_like(Box::new(term.clone())));
                    let bars: Vec<ProgressBar> = (0..3).map(|i| {
                        let pb = mp.add(ProgressBar::new(10));
                        pb.set_style(ProgressStyle::with_template("{msg} {pos}").unwrap());
                        pb.set_message(format!("bar{}", i));
                        pb
                    }).collect();
                    let mut msgs = vec!["bar0".to_string(), "bar1".to_string(), "bar2".to_string()];
                    let mut pos = [0u64; 3];
                    let mut logs: Vec<String> = vec![];
                    let mut hist = vec!["three bars with template {msg} {pos}".to_string()];
                    for (k, op) in [a, b, c].iter().enumerate() {
                        let t = texts[(ti + k) % texts.len()];
                        match *op {
                            0 => { let _ = mp.println(t); logs.push(t.to_string()); hist.push(format!("mp.println({:?})", t)); }
                            1 | 2 | 3 => { bars[op - 1].println(t); logs.push(t.to_string()); hist.push(format!("bar{}.println({:?})", op - 1, t)); }
                            4 => { bars[0].set_message("renamed"); msgs[0] = "renamed".into(); hist.push("bar0.set_message(renamed)".into()); }
                            5 => { bars[2].inc(1); pos[2] += 1; hist.push("bar2.inc(1)".into()); }
                            _ => { let _ = mp.clear(); hist.push("mp.clear() (the ticks that follow repaint the bars)".into()); }
                        }
                        for pb in bars.iter() {
                            pb.tick();
                        }
                        tried += 1;
                        let mut rows: Vec<String> = logs.iter().flat_map(|l| wrap(l)).collect();
                        for i in 0..3 {
                            rows.push(format!("{} {}", msgs[i], pos[i]));
                        }
                        let want = rows.join("\n");
                        let got = term.contents();
                        if got != want {
                            return report("C03 printed lines (also empty ones) stay once, in order, above the bars; C02 bars in order below", &hist, &want, &got, "multi_logs");
                        }
                    }
                }
            }
        }
    }
    // a member that was finished and cleared (its handle is alive, it renders nothing) prints: the line appears once
    for cleared in 0..3usize {
        for ti in 0..texts.len() {
            for via_mp_too in [false, true] {
                let term = InMemoryTerm::new(H, W as u16);
                let mp = MultiProgress::with_draw_target(ProgressDrawTarget::term_like(Box::new(term.clone())));
                let bars: Vec<ProgressBar> = (0..3).map(|i| {
                    let pb = mp.add(ProgressBar::new(10));
                    pb.set_style(ProgressStyle::with_template("{msg} {pos}").unwrap());
                    pb.set_message(format!("bar{}", i));
                    pb.tick();
                    pb
                }).collect();
                bars[cleared].finish_and_clear();
                let mut hist = vec!["three bars with template {msg} {pos}, all painted".to_string(), format!("bar{}.finish_and_clear()", cleared)];
                let mut logs: Vec<String> = vec![];
                let t = texts[ti];
                bars[cleared].println(t); logs.push(t.to_string()); hist.push(format!("bar{}.println({:?})", cleared, t));
                if via_mp_too { let _ = mp.println("second"); logs.push("second".into()); hist.push("mp.println(second)".into()); }
                for round in 0..2 {
                    for (i, pb) in bars.iter().enumerate() { if i != cleared { pb.inc(1); } }
                    hist.push("inc(1) on the two live bars".into());
                    tried += 1;
                    let mut rows: Vec<String> = logs.iter().flat_map(|l| wrap(l)).collect();
                    for i in 0..3 { if i != cleared { rows.push(format!("bar{} {}", i, round + 1)); } }
                    let want = rows.join("\n");
                    let got = term.contents();
                    if got != want {
                        return report("C03 a line printed through a finished-and-cleared member stays once, in order, above the bars; C02 the live bars once below", &hist, &want, &got, "multi_logs");
                    }
                }
            }
        }
    }
    format!("{{\"found\": false, \"tried\": {}}}", tried)
}

/// C02 / C03 with MultiProgressAlignment::Bottom: printed lines stay (once, in order) above the region, the live
/// bars follow in order at the bottom; only blank rows (what the bars no longer use) may lie between the two.
pub fn multi_bottom(_args: &[String]) -> String {
    std::panic::set_hook(Box::new(|_| {}));
    use indicatif::MultiProgressAlignment;
    let mut tried = 0u64;
    // op: 0 = mp.println, 1..=3 = remove bar i, 4..=6 = bar i println, 7..=9 = bar i finish_and_clear + drop,
    // 10 = mp.suspend with a closure that writes a line, 11 = mp.clear
    let run = |ops: &[usize], tried: &mut u64| -> Option<String> {
        let term = InMemoryTerm::new(H, W as u16);
        let mp = MultiProgress::with_draw_target(ProgressDrawTarget::term_like(Box::new(term.clone())));
        mp.set_alignment(MultiProgressAlignment::Bottom);
        let mut bars: Vec<Option<ProgressBar>> = (0..3).map(|i| {
            let pb = mp.add(ProgressBar::new(10));
            pb.set_style(ProgressStyle::with_template("{msg} {pos}").unwrap());
            pb.set_message(format!("bar{}", i));
            Some(pb)
        }).collect();
        for pb in bars.iter().flatten() { pb.tick(); }
        let mut logs: Vec<String> = vec![];
        let mut region = 3usize;
        let mut hist = vec!["MultiProgress with Bottom alignment, three bars with template {msg} {pos}, all ticked".to_string()];
        for (k, op) in ops.iter().enumerate() {
            match *op {
                0 => { let t = format!("log-{}", k); let _ = mp.println(&t); logs.push(t.clone()); hist.push(format!("mp.println({:?})", t)); }
                1..=3 => match bars[op - 1].take() { Some(pb) => { mp.remove(&pb); hist.push(format!("mp.remove(bar{})", op - 1)); } None => return None },
                4..=6 => match &bars[op - 4] { Some(pb) => { let t = format!("blog-{}", k); pb.println(&t); logs.push(t.clone()); hist.push(format!("bar{}.println({:?})", op - 4, t)); } None => return None },
                7..=9 => match bars[op - 7].take() { Some(pb) => { pb.finish_and_clear(); drop(pb); hist.push(format!("bar{}.finish_and_clear(); drop", op - 7)); } None => return None },
                10 => { let t = format!("out-{}", k); let tt = term.clone(); mp.suspend(|| { let _ = tt.write_line(&t); }); logs.push(t.clone()); hist.push(format!("mp.suspend(|| write_line({:?}))", t)); }
                _ => { let _ = mp.clear(); hist.push("mp.clear()".into()); }
            }
            for pb in bars.iter().flatten() { pb.tick(); }
            hist.push("tick every live bar".into());
            let live: Vec<String> = (0..3).filter(|i| bars[*i].is_some()).map(|i| format!("bar{} 0", i)).collect();
            if live.is_empty() && (1..=3).contains(op) {
                continue;   // remove() itself paints nothing: the rows go away with the next draw
            }
            *tried += 1;
            // any number of blank rows may separate the printed lines from the bars (the region keeps rows the
            // bars no longer use); nothing else may differ
            let got = term.contents();
            let got = got.trim_end_matches('\n').to_string();   // blank rows at the end are part of the (empty) region
            let rows: Vec<&str> = if got.is_empty() { vec![] } else { got.split('\n').collect() };
            let _ = &rows;
            // Bottom alignment: the region keeps the height it had (rows the bars no longer use stay blank above them) until it
            // is wiped by clear / suspend
            if *op >= 10 { region = live.len(); } else { region = region.max(live.len()); }
            let mut want: Vec<String> = logs.clone();
            if !live.is_empty() {
                for _ in live.len()..region { want.push(String::new()); }
                want.extend(live.iter().cloned());
            }
            let want = want.join("\n");
            if got != want {
                return Some(report("C03 printed lines stay once, in order, above the region; C02 live bars in order at the bottom (Bottom alignment: only blank rows between them)", &hist, &want, &got, "multi_bottom"));
            }
        }
        None
    };
    for a in 0..12 { for b in 0..12 { for c in 0..12 { for d in 0..12 {
        if let Some(r) = run(&[a, b, c, d], &mut tried) { return r; }
    }}}}
    format!("{{\"found\": false, \"tried\": {}}}", tried)
}

/// C19 / C03 / C02: more rows of bars than the terminal has: only the leading bar lines that fit are painted, nothing above the
/// region is touched by later redraws, omitted bars appear as soon as there is room.  One-row, two-row (explicit newline) and
/// wrapping bars on terminals of 3..=6 rows, with a printed line above.
pub fn multi_overflow(_args: &[String]) -> String {
    std::panic::set_hook(Box::new(|_| {}));
    let mut tried = 0u64;
    for height in 3u16..=6 {
        for kind in 0..3 {
            for nbars in 2usize..=4 {
                let term = InMemoryTerm::new(height, 10);
                let mp = MultiProgress::with_draw_target(ProgressDrawTarget::term_like(Box::new(term.clone())));
                let _ = mp.println("log");
                let mut hist = vec![format!("{}x10 terminal; mp.println(log)", height)];
                // rows of one bar
                let rows_of = |i: usize, pos: u64| -> Vec<String> {
                    match kind {
                        0 => vec![format!("b{} {}", i, pos)],
                        1 => vec![format!("b{} top", i), format!("b{} {}", i, pos)],
                        _ => { let t = format!("b{}-wraps-over {}", i, pos); vec![t[..10].to_string(), t[10..].to_string()] }
                    }
                };
                let bars: Vec<ProgressBar> = (0..nbars).map(|i| {
                    let pb = mp.add(ProgressBar::new(10));
                    let t = match kind { 0 => format!("b{} {{pos}}", i), 1 => format!("b{} top\nb{} {{pos}}", i, i), _ => format!("b{}-wraps-over {{pos}}", i) };
                    pb.set_style(ProgressStyle::with_template(&t).unwrap());
                    pb
                }).collect();
                hist.push(format!("{} bars of {} row(s) each", nbars, if kind == 0 { 1 } else { 2 }));
                let mut pos = vec![0u64; nbars];
                // rows that have scrolled out at the top stay out (the emulator, like a terminal, never scrolls back)
                let mut scrolled = 0usize;
                for round in 0..3 {
                    for (i, pb) in bars.iter().enumerate() {
                        if round > 0 { pb.inc(1); pos[i] += 1; } else { pb.tick(); }
                    }
                    hist.push(if round == 0 { "tick every bar".to_string() } else { "inc(1) on every bar".to_string() });
                    tried += 1;
                    // leading bar LINES that fit into the terminal height (the crate stops at the first line that does not
                    // fit; a line that wraps counts with all its rows)
                    let mut shown: Vec<String> = vec![];
                    let mut used = 0usize;
                    'outer: for i in 0..nbars {
                        let r = rows_of(i, pos[i]);
                        let lines: Vec<Vec<String>> = if kind == 2 { vec![r] } else { r.into_iter().map(|x| vec![x]).collect() };
                        for l in lines {
                            if used + l.len() > height as usize { break 'outer; }
                            used += l.len();
                            shown.extend(l);
                        }
                    }
                    // what is visible: the emulator shows the last `height` rows of [log ++ shown]
                    let mut all = vec!["log".to_string()];
                    all.extend(shown);
                    scrolled = scrolled.max(all.len().saturating_sub(height as usize));
                    let want = all[scrolled.min(all.len())..].join("\n");
                    let got = term.contents();
                    if got != want {
                        return report("C19 only the leading bars that fit are painted and redraws erase exactly their rows (C03: the printed line above is not touched)", &hist, &want, &got, "multi_overflow");
                    }
                }
                // room appears without a paint (remove / clear): ordinary updates of the bars that were cut off bring them in
                for how in 0..2 {
                    if how == 0 { mp.remove(&bars[0]); hist.push("mp.remove(first bar)".into()); } else { let _ = mp.clear(); hist.push("mp.clear()".into()); }
                    for (i, pb) in bars.iter().enumerate().skip(1).rev() { pb.inc(1); pos[i] += 1; }
                    hist.push("inc(1) on the remaining bars, last one first".into());
                    tried += 1;
                    let mut shown: Vec<String> = vec![];
                    let mut used = 0usize;
                    'outer2: for i in 1..nbars {
                        let r = rows_of(i, pos[i]);
                        let lines: Vec<Vec<String>> = if kind == 2 { vec![r] } else { r.into_iter().map(|x| vec![x]).collect() };
                        for l in lines {
                            if used + l.len() > height as usize { break 'outer2; }
                            used += l.len();
                            shown.extend(l);
                        }
                    }
                    let mut all = vec!["log".to_string()];
                    all.extend(shown);
                    scrolled = scrolled.max(all.len().saturating_sub(height as usize));
                    let want = all[scrolled.min(all.len())..].join("\n");
                    let got = term.contents();
                    if got != want {
                        return report("C19 omitted bars appear as soon as there is room (after a removal or a clear, on their next ordinary update)", &hist, &want, &got, "multi_overflow");
                    }
                }
            }
        }
    }
    // members that take no row (finished and cleared with a live handle, or never drawn) do not count against the height
    for height in 1u16..=3 {
        for extra in 1usize..=3 {
            for kind in 0..2 {
                let term = InMemoryTerm::new(height, 40);
                let mp = MultiProgress::with_draw_target(ProgressDrawTarget::term_like(Box::new(term.clone())));
                let k = height as usize + extra;
                let ghosts: Vec<ProgressBar> = (0..k).map(|i| {
                    let pb = mp.add(ProgressBar::new(10));
                    pb.set_style(ProgressStyle::with_template(&format!("g{} {{pos}}", i)).unwrap());
                    if kind == 0 { pb.tick(); pb.finish_and_clear(); }
                    pb
                }).collect();
                let live = mp.add(ProgressBar::new(10));
                live.set_style(ProgressStyle::with_template("live {pos}/{len}").unwrap());
                live.tick();
                live.inc(1);
                tried += 1;
                let hist = vec![format!("{}x40 terminal; {} members that take no row ({}), then a live bar", height, k, if kind == 0 { "ticked, then finish_and_clear, handles alive" } else { "added, never drawn" }), "live.tick(); live.inc(1)".to_string()];
                let (want, got) = ("live 1/10".to_string(), term.contents());
                drop(ghosts);
                if got != want {
                    return report("C19 only bars that take rows count against the terminal height: a bar that fits is painted", &hist, &want, &got, "multi_overflow");
                }
            }
        }
    }
    // bars of different heights: painting stops at the FIRST line that does not fit, a later shorter one is not painted instead
    for height in 2u16..=5 {
        for kinds in [&[0usize, 2, 2, 0][..], &[2, 0], &[0, 2, 0], &[2, 2, 0], &[0, 0, 2, 0], &[1, 2, 0], &[3]] {
            let term = InMemoryTerm::new(height, 10);
            let mp = MultiProgress::with_draw_target(ProgressDrawTarget::term_like(Box::new(term.clone())));
            let mut hist = vec![format!("{}x10 terminal; bars of kinds {:?} (0: one row, 1: two template lines, 2: one line wrapping over two rows, 3: template first / wrapping message / third)", height, kinds)];
            // the LINES of one bar, each with its rows
            let lines_of = |i: usize, k: usize, pos: u64| -> Vec<Vec<String>> {
                match k {
                    0 => vec![vec![format!("b{} {}", i, pos)]],
                    1 => vec![vec![format!("b{} top", i)], vec![format!("b{} {}", i, pos)]],
                    2 => { let t = format!("b{}-wraps-over {}", i, pos); vec![vec![t[..10].to_string(), t[10..].to_string()]] }
                    _ => vec![vec!["first".to_string()], vec!["a-message-".to_string(), format!("wrapping {}", pos)], vec!["third".to_string()]],
                }
            };
            let bars: Vec<ProgressBar> = kinds.iter().enumerate().map(|(i, &k)| {
                let pb = mp.add(ProgressBar::new(10));
                let t = match k { 0 => format!("b{} {{pos}}", i), 1 => format!("b{} top\nb{} {{pos}}", i, i), 2 => format!("b{}-wraps-over {{pos}}", i), _ => "first\n{msg} {pos}\nthird".to_string() };
                pb.set_style(ProgressStyle::with_template(&t).unwrap());
                if k == 3 { pb.set_message("a-message-wrapping"); }
                pb
            }).collect();
            let mut pos = vec![0u64; kinds.len()];
            for round in 0..3 {
                for (i, pb) in bars.iter().enumerate() {
                    if round > 0 { pb.inc(1); pos[i] += 1; } else { pb.tick(); }
                }
                hist.push(if round == 0 { "tick every bar".to_string() } else { "inc(1) on every bar".to_string() });
                tried += 1;
                let mut shown: Vec<String> = vec![];
                let mut used = 0usize;
                'outer3: for (i, &k) in kinds.iter().enumerate() {
                    for l in lines_of(i, k, pos[i]) {
                        if used + l.len() > height as usize { break 'outer3; }
                        used += l.len();
                        shown.extend(l);
                    }
                }
                let want = shown.join("\n");
                let got = term.contents();
                if got != want {
                    return report("C19 only the LEADING bar lines that fit are painted: painting stops at the first line that does not fit", &hist, &want, &got, "multi_overflow");
                }
            }
        }
    }
    format!("{{\"found\": false, \"tried\": {}}}", tried)
}

/// C02 / C19: remove() next to finished-and-dropped bars.
pub fn multi_remove(_args: &[String]) -> String {
    std::panic::set_hook(Box::new(|_| {}));
    let mut tried = 0u64;
    let mkb = |mp: &MultiProgress, n: &str| { let pb = mp.add(ProgressBar::new(10)); pb.set_style(ProgressStyle::with_template("{msg} {pos}/{len}").unwrap()); pb.set_message(n.to_string()); pb.tick(); pb };
    // a finished and dropped bar that did not fit appears once the bars above it are removed
    {
        let term = InMemoryTerm::new(3, W as u16);
        let mp = MultiProgress::with_draw_target(ProgressDrawTarget::term_like(Box::new(term.clone())));
        let (a, b, c, d) = (mkb(&mp, "a"), mkb(&mp, "b"), mkb(&mp, "c"), mkb(&mp, "d"));
        d.finish();
        drop(d);
        mp.remove(&a); mp.remove(&b); mp.remove(&c);
        let _e = mkb(&mp, "e");
        tried += 1;
        let hist = vec!["3-row terminal; bars a b c d (d does not fit)".to_string(), "d.finish(); drop(d); mp.remove(a, b, c); add e; e.tick()".to_string()];
        let (want, got) = ("d 10/10\ne 0/10".to_string(), term.contents());
        if got != want {
            return report("C19/C02 a finished bar that did not fit appears as soon as there is room, and the rows of the removed bars are erased", &hist, &want, &got, "multi_remove");
        }
    }
    // three painted bars; one is finished and dropped, another one removed, the third ticks
    for f in 0..3usize {
        for r in 0..3usize {
            if f == r { continue; }
            for remove_first in [false, true] {
                let term = InMemoryTerm::new(H, W as u16);
                let mp = MultiProgress::with_draw_target(ProgressDrawTarget::term_like(Box::new(term.clone())));
                let names = ["a", "b", "c"];
                let mut bars: Vec<Option<ProgressBar>> = names.iter().map(|n| Some(mkb(&mp, n))).collect();
                let mut hist = vec!["bars a b c, all painted".to_string()];
                let live = 3 - f - r;
                let fin = |bars: &mut Vec<Option<ProgressBar>>, hist: &mut Vec<String>| { bars[f].as_ref().unwrap().finish(); bars[f] = None; hist.push(format!("finish and drop {}", names[f])); };
                let rem = |bars: &mut Vec<Option<ProgressBar>>, hist: &mut Vec<String>| { mp.remove(bars[r].as_ref().unwrap()); hist.push(format!("mp.remove({})", names[r])); };
                if remove_first { rem(&mut bars, &mut hist); fin(&mut bars, &mut hist); } else { fin(&mut bars, &mut hist); rem(&mut bars, &mut hist); }
                bars[live].as_ref().unwrap().inc(1);
                hist.push(format!("{}.inc(1)", names[live]));
                tried += 1;
                let want: Vec<String> = (0..3).filter(|i| *i != r).map(|i| if i == f { format!("{} 10/10", names[i]) } else { format!("{} 1/10", names[i]) }).collect();
                let want = want.join("\n");
                let got = term.contents();
                if got != want {
                    return report("C02 removing a bar makes its lines disappear without disturbing the others (a visibly finished and dropped bar keeps its row)", &hist, &want, &got, "multi_remove");
                }
            }
        }
    }
    format!("{{\"found\": false, \"tried\": {}}}", tried)
}

/// C04: the configured finish behaviour is applied at every completion of a reused bar (finish, reset, finish again;
/// iterator exhaustion twice; drop after reset), standalone and inside a MultiProgress.
pub fn bar_reuse(_args: &[String]) -> String {
    std::panic::set_hook(Box::new(|_| {}));
    use indicatif::ProgressIterator;
    let mut tried = 0u64;
    for mode in 0..3 {
        for second in 0..3 {
            let term = InMemoryTerm::new(H, W as u16);
            let pb = mk(&term, Some(4), None).with_finish(match mode {
                0 => ProgressFinish::AndLeave,
                1 => ProgressFinish::WithMessage("done".into()),
                _ => ProgressFinish::AbandonWithMessage("gone".into()),
            });
            let mut hist = vec![format!("bar len=4 with_finish(mode {})", mode)];
            for _ in (0..4).progress_with(pb.clone()) {}
            hist.push("iterate 4 items to exhaustion".into());
            pb.reset();
            hist.push("reset".into());
            tried += 1;
            if pb.is_finished() {
                return report("C04/C07 is_finished() is false again after reset()", &hist, "is_finished() == false", "is_finished() == true", "bar_reuse");
            }
            pb.set_message("again");
            hist.push("set_message(again)".into());
            match second {
                0 => { for _ in (0..4).progress_with(pb.clone()) {} hist.push("iterate again to exhaustion".into()); }
                1 => { pb.set_position(2); pb.finish_using_style(); hist.push("set_position(2); finish_using_style".into()); }
                _ => { pb.set_position(2); hist.push("set_position(2); drop the last handle".into()); }
            }
            let (msg, pos) = match (mode, second) {
                (0, 0) => ("again", 4), (0, _) => ("again", 4),
                (1, _) => ("done", 4),
                (_, 0) => ("gone", 4), (_, _) => ("gone", 2),
            };
            let want = format!("[{}]\n{}/4", msg, pos);
            if second < 2 {
                tried += 1;
                if !pb.is_finished() {
                    return report("C04/C17 a reused bar is finished again after its second completion", &hist, "is_finished() == true", "is_finished() == false", "bar_reuse");
                }
            }
            if second == 2 {
                drop(pb);
            }
            tried += 1;
            let got = term.contents();
            if got != want {
                return report("C04/C17 the configured finish behaviour paints the final state at every completion of a reused bar", &hist, &want, &got, "bar_reuse");
            }
        }
    }
    format!("{{\"found\": false, \"tried\": {}}}", tried)
}

/// C05 (MultiProgress): a rate-limited (skipped) update of one bar is not lost: the next frame that is painted,
/// whoever triggers it, shows the latest state of every bar.
pub fn multi_rate(_args: &[String]) -> String {
    std::panic::set_hook(Box::new(|_| {}));
    let term = InMemoryTerm::new(H, W as u16);
    let mp = MultiProgress::with_draw_target(ProgressDrawTarget::term_like_with_hz(Box::new(term.clone()), 2));
    let a = mp.add(ProgressBar::new(40));
    let b = mp.add(ProgressBar::new(40));
    for (pb, n) in [(&a, "A"), (&b, "B")] {
        pb.set_style(ProgressStyle::with_template("{prefix} {msg} {pos}/{len}").unwrap());
        pb.set_prefix(n);
    }
    // use up the burst
    for i in 0..60 {
        a.set_message(format!("a{}", i));
        b.set_message(format!("b{}", i));
    }
    a.set_position(20);
    a.set_message("a-final");
    // wait for one token (2 Hz -> 500 ms), then let B trigger the frame
    std::thread::sleep(std::time::Duration::from_millis(700));
    b.set_message("b-final");
    let got = term.contents();
    let want = "A a-final 20/40\nB b-final 0/40";
    if got != want {
        let hist = vec!["MultiProgress on a 2 Hz target, bars A and B".to_string(), "60 x (A.set_message, B.set_message)".to_string(), "A.set_position(20); A.set_message(a-final)".to_string(), "sleep 700 ms".to_string(), "B.set_message(b-final)".to_string()];
        return report("C05 a skipped draw loses nothing: the next painted frame shows the latest state of every bar", &hist, want, &got, "multi_rate");
    }
    // a request that arrives between one and two refresh intervals after the last painted frame is painted (three times)
    let mut hist = vec!["the same MultiProgress (2 Hz)".to_string()];
    for k in 21..24u64 {
        std::thread::sleep(std::time::Duration::from_millis(650));
        a.set_position(k);
        hist.push(format!("sleep 650 ms; A.set_position({})", k));
        let got = term.contents();
        let want = format!("A a-final {}/40\nB b-final 0/40", k);
        if got != want {
            return report("C05 a redraw request arriving at least one refresh interval after the last painted frame is always painted (MultiProgress)", &hist, &want, &got, "multi_rate");
        }
    }
    "{\"found\": false, \"tried\": 4}".to_string()
}


/// C06: a bar removed from its MultiProgress (finished or not) performs no terminal operation afterwards, and
/// its getters evolve like those of a visible bar.
pub fn multi_removed(_args: &[String]) -> String {
    std::panic::set_hook(Box::new(|_| {}));
    let mut tried = 0u64;
    for pre in 0..4 {
        let ops = Arc::new(AtomicUsize::new(0));
        let t = Counting { inner: InMemoryTerm::new(H, W as u16), flushes: ops.clone() };
        let mp = MultiProgress::with_draw_target(ProgressDrawTarget::term_like(Box::new(t)));
        let keep = mp.add(ProgressBar::new(10));
        let pb = mp.add(ProgressBar::new(10));
        keep.tick();
        pb.tick();
        let mut hist = vec!["MultiProgress with bars keep, pb".to_string()];
        match pre {
            1 => { pb.finish(); hist.push("pb.finish()".into()); }
            2 => { pb.abandon_with_message("x"); hist.push("pb.abandon_with_message(x)".into()); }
            3 => { pb.finish_and_clear(); hist.push("pb.finish_and_clear()".into()); }
            _ => {}
        }
        mp.remove(&pb);
        hist.push("mp.remove(&pb)".into());
        let before = ops.load(Ordering::SeqCst);
        pb.set_message("later");
        pb.inc(1);
        pb.tick();
        pb.println("log");
        pb.reset();
        pb.finish_with_message("again");
        hist.push("pb.set_message; inc; tick; println; reset; finish_with_message".into());
        tried += 1;
        let after = ops.load(Ordering::SeqCst);
        // the removed bar's logical state evolves like that of a visible twin given the same calls
        {
            let twin = ProgressBar::with_draw_target(Some(10), ProgressDrawTarget::term_like(Box::new(InMemoryTerm::new(H, W as u16))));
            twin.tick();
            match pre { 1 => twin.finish(), 2 => twin.abandon_with_message("x"), 3 => twin.finish_and_clear(), _ => {} }
            let rm = mp.add(ProgressBar::new(10));
            rm.tick();
            match pre { 1 => rm.finish(), 2 => rm.abandon_with_message("x"), 3 => rm.finish_and_clear(), _ => {} }
            mp.remove(&rm);
            let snap = |p: &ProgressBar| format!("pos {} len {:?} finished {} msg {:?}", p.position(), p.length(), p.is_finished(), p.message());
            if snap(&rm) != snap(&twin) {
                let h: Vec<&str> = hist.iter().map(String::as_str).collect();
                return format!("{{\"found\": true, \"clause\": \"C06 a bar removed from its MultiProgress keeps the logical state of a visible bar given the same calls\", \"input\": {{\"history\": {}, \"removed\": {}, \"visible_twin\": {}}}, \"rerun\": \"replay multi_removed\"}}", crate::jlist(&h), crate::js(&snap(&rm)), crate::js(&snap(&twin)));
            }
            for p in [&rm, &twin] { p.inc(2); p.set_message("m"); }
            if snap(&rm) != snap(&twin) {
                let h: Vec<&str> = hist.iter().map(String::as_str).collect();
                return format!("{{\"found\": true, \"clause\": \"C06 a bar removed from its MultiProgress keeps the logical state of a visible bar given the same calls (inc(2); set_message after the removal)\", \"input\": {{\"history\": {}, \"removed\": {}, \"visible_twin\": {}}}, \"rerun\": \"replay multi_removed\"}}", crate::jlist(&h), crate::js(&snap(&rm)), crate::js(&snap(&twin)));
            }
        }
        if after != before {
            let h: Vec<&str> = hist.iter().map(String::as_str).collect();
            return format!("{{\"found\": true, \"clause\": \"C06 a bar removed from its MultiProgress never invokes a terminal operation\", \"input\": {{\"history\": {}, \"frames_flushed_after_removal\": {}}}, \"rerun\": \"replay multi_removed\"}}", crate::jlist(&h), after - before);
        }
    }
    format!("{{\"found\": false, \"tried\": {}}}", tried)
}
