//! C05 witnesses: executable form of the token-bucket clauses on the real limiters.
use indicatif::verif_hooks::draw_target::{Limiter, LIMITER_MAX_BURST};
use indicatif::verif_hooks::state::{PosBucket, POS_INTERVAL_NS, POS_MAX_BURST};
use std::time::Duration;

fn credit(cap: i128, prev_to_now: i128, i: i128) -> i128 {
    cap * i + prev_to_now
}

/// One call of RateLimiter::allow from state (capacity, prev = base) at now = base + el_ns.
/// Returns the label of the first violated clause, if any.
fn rl_call(rate: u8, cap: u8, el_ns: u64) -> (Option<&'static str>, String) {
    let base = crate::base();
    let mut l = Limiter::with_state(rate, cap, base);
    let i = l.interval_ms() as i128 * 1_000_000;
    let now = base + Duration::from_nanos(el_ns);
    let res = l.allow(now);
    let cap2 = l.capacity() as i128;
    let back = (now - l.prev()).as_nanos() as i128; // now - prev'
    let c0 = credit(cap as i128, el_ns as i128, i);
    let c1 = credit(cap2, back, i);
    let desc = format!(
        "{{\"rate\": {}, \"capacity\": {}, \"elapsed_ns\": {}, \"result\": {}, \"capacity_after\": {}, \"now_minus_prev_after_ns\": {}, \"interval_ns\": {}, \"credit_before\": {}, \"credit_after\": {}}}",
        rate, cap, el_ns, res, cap2, back, i, c0, c1
    );
    let b = LIMITER_MAX_BURST as i128;
    let bad = if !res && (cap2 != cap as i128 || back != el_ns as i128) {
        Some("C05-step (a) refused request changed the state")
    } else if res && !(c0 >= i && c1 <= c0 - i && back >= 0) {
        Some("C05-step (b) credit not consumed")
    } else if !res && el_ns as i128 >= i {
        Some("C05-step (d) request one interval after the last paint refused")
    } else if res && !(c1 < b * i) {
        Some("C05-burst credit after a paint >= B intervals")
    } else {
        None
    };
    (bad, desc)
}

pub fn rl_allow(args: &[String]) -> String {
    if args.len() == 3 {
        let (bad, desc) = rl_call(args[0].parse().unwrap(), args[1].parse().unwrap(), args[2].parse().unwrap());
        return format!("{{\"found\": {}, \"clause\": {:?}, \"input\": {}}}", bad.is_some(), bad.unwrap_or(""), desc);
    }
    let mut tried = 0u64;
    for &rate in &[20u8, 1, 3, 7, 15, 60, 100, 255] {
        let i = (1000 / rate as u64) * 1_000_000;
        for cap in 0..=LIMITER_MAX_BURST {
            for k in (0..=(LIMITER_MAX_BURST as u64 + 3)).chain(250..=260).chain(510..=514) {
                for &d in &[0i64, 1, -1, (i / 2) as i64, (i - 1) as i64] {
                    let el = (k * i) as i64 + d;
                    if el < 0 {
                        continue;
                    }
                    tried += 1;
                    let (bad, desc) = rl_call(rate, cap, el as u64);
                    if let Some(b) = bad {
                        return format!("{{\"found\": true, \"clause\": {:?}, \"tried\": {}, \"input\": {}, \"rerun\": \"replay rl_allow {} {} {}\"}}", b, tried, desc, rate, cap, el);
                    }
                }
            }
        }
    }
    format!("{{\"found\": false, \"tried\": {}}}", tried)
}

pub fn rl_new(args: &[String]) -> String {
    let rates: Vec<u8> = if args.len() == 1 { vec![args[0].parse().unwrap()] } else { (1..=255).collect() };
    for rate in rates {
        let l = Limiter::new(rate);
        let i = l.interval_ms() as i128 * 1_000_000;
        let r = rate as i128;
        let bad = if i * r < 1_000_000_000 {
            Some("C05-interval-lower interval * rate < 1 s (long-run frame rate exceeds R)")
        } else if (i - 1_000_000) * r >= 1_000_000_000 {
            Some("C05-interval-upper interval more than 1 ms above 1 s / R")
        } else if l.capacity() != LIMITER_MAX_BURST || i < 1 {
            Some("wf")
        } else {
            None
        };
        if let Some(b) = bad {
            return format!("{{\"found\": true, \"clause\": {:?}, \"input\": {{\"rate\": {}, \"interval_ms\": {}, \"frames_per_second_when_saturated\": {}}}, \"rerun\": \"replay rl_new {}\"}}", b, rate, l.interval_ms(), 1000 / l.interval_ms().max(1), rate);
        }
    }
    "{\"found\": false}".to_string()
}

/// Whole-history form of the first sentence of C05 on the real limiter: saturate a fresh
/// limiter after an idle period and count frames in a window.
pub fn rl_window(args: &[String]) -> String {
    let rate: u8 = args.get(0).and_then(|s| s.parse().ok()).unwrap_or(20);
    let base = crate::base();
    let mut best = String::from("{\"found\": false}");
    for idle_ns in [0u64, 1_049_999_000, 5_000_000_000] {
        for step_ns in [0u64, 1_000, 1_000_000] {
            let mut l = Limiter::with_state(rate, LIMITER_MAX_BURST, base);
            let t0 = base + Duration::from_nanos(idle_ns);
            let mut frames = 0u64;
            let mut t = t0;
            for _ in 0..200 {
                if l.allow(t) {
                    frames += 1;
                }
                t += Duration::from_nanos(step_ns);
            }
            let window_ns = (t - t0).as_nanos() as u64;
            let bound = 20.0 + rate as f64 * (window_ns as f64 / 1e9) + 1.0;
            if frames as f64 > bound {
                best = format!("{{\"found\": true, \"clause\": \"C05-window\", \"input\": {{\"rate\": {}, \"idle_ns\": {}, \"request_spacing_ns\": {}, \"requests\": 200, \"window_ns\": {}, \"frames\": {}, \"bound\": {}}}}}", rate, idle_ns, step_ns, window_ns, frames, bound);
                return best;
            }
        }
    }
    best
}

fn pos_call(cap: u8, prev_ns: u64, el_ns: u64) -> (Option<&'static str>, String) {
    let p = PosBucket::with_state(cap, prev_ns);
    let now = p.start() + Duration::from_nanos(el_ns);
    let res = p.allow(now);
    let i = POS_INTERVAL_NS as i128;
    let cap2 = p.capacity() as i128;
    let prev2 = p.prev_ns() as i128;
    let c0 = credit(cap as i128, el_ns as i128 - prev_ns as i128, i);
    let c1 = credit(cap2, el_ns as i128 - prev2, i);
    let desc = format!("{{\"capacity\": {}, \"prev_ns\": {}, \"elapsed_ns\": {}, \"result\": {}, \"capacity_after\": {}, \"prev_after_ns\": {}, \"credit_before\": {}, \"credit_after\": {}}}", cap, prev_ns, el_ns, res, cap2, prev2, c0, c1);
    let b = POS_MAX_BURST as i128;
    let mono = prev_ns <= el_ns;
    let bad = if !res && (cap2 != cap as i128 || prev2 != prev_ns as i128) {
        Some("C05-step (a) refused request changed the state")
    } else if res && mono && !(c0 >= i && c1 <= c0 - i && prev2 <= el_ns as i128) {
        Some("C05-step (b) credit not consumed")
    } else if !res && mono && (el_ns - prev_ns) as i128 >= i {
        Some("C05-step (d) request one interval after the last allowed one refused")
    } else if res && mono && !(c1 < b * i) {
        Some("C05-burst credit after an allowed request >= B intervals")
    } else {
        None
    };
    (bad, desc)
}

pub fn pos_allow(args: &[String]) -> String {
    if args.len() == 3 {
        let (bad, desc) = pos_call(args[0].parse().unwrap(), args[1].parse().unwrap(), args[2].parse().unwrap());
        return format!("{{\"found\": {}, \"clause\": {:?}, \"input\": {}}}", bad.is_some(), bad.unwrap_or(""), desc);
    }
    let i = POS_INTERVAL_NS;
    let mut tried = 0u64;
    for cap in 0..=POS_MAX_BURST {
        for &prev in &[0u64, 1, i, 5 * i + 17] {
            for k in 0..=(POS_MAX_BURST as u64 + 3) {
                for &d in &[0i64, 1, -1, (i / 2) as i64, (i - 1) as i64] {
                    let el = (prev + k * i) as i64 + d;
                    if el < 0 {
                        continue;
                    }
                    tried += 1;
                    let (bad, desc) = pos_call(cap, prev, el as u64);
                    if let Some(b) = bad {
                        return format!("{{\"found\": true, \"clause\": {:?}, \"tried\": {}, \"input\": {}, \"rerun\": \"replay pos_allow {} {} {}\"}}", b, tried, desc, cap, prev, el);
                    }
                }
            }
        }
    }
    format!("{{\"found\": false, \"tried\": {}}}", tried)
}




