//! C05 witnesses: executable form of the token-bucket clauses on the real limiters.
use indicatif::verif_hooks::draw_target::{Limiter, LIMITER_MAX_BURST};
use indicatif::verif_hooks::state::{PosBucket, POS_INTERVAL_NS, POS_MAX_BURST};
use std::time::Duration;

fn credit(cap: i128, prev_to_now: i128, i: i128) -> i128 {
    cap * i + prev_to_now
}

/// One call of RateLimiter::allow from state (capacity, prev = base) at now = base + el_ns.
/// Returns the label of the first violated clause, if any.
fn rl_call(rate: u8, cap: u8, el_ns: u64) -> (Option<&'static str>, String) {
    let base = crate::base();
    let mut l = Limiter::with_state(rate, cap, base);
    let i = l.interval_ms() as i128 * 1_000_000;
    let now = base + Duration::from_nanos(el_ns);
    let res = l.allow(now);
    let cap2 = l.capacity() as i128;
    let back = (now - l.prev()).as_nanos() as i128; // now - prev'
    let c0 = credit(cap as i128, el_ns as i128, i);
    let c1 = credit(cap2, back, i);
    let desc = format!(
        "{{\"rate\": {}, \"capacity\": {}, \"elapsed_ns\": {}, \"result\": {}, \"capacity_after\": {}, \"now_minus_prev_after_ns\": {}, \"interval_ns\": {}, \"credit_before\": {}, \"credit_after\": {}}}",
        rate, cap, el_ns, res, cap2, back, i, c0, c1
    );
    let b = LIMITER_MAX_BURST as i128;
    let bad = if !res && (cap2 != cap as i128 || back != el_ns as i128) {
        Some("C05-step (a) refused request changed the state")
    } else if res && !(c0 >= i && c1 <= c0 - i && back >= 0) {
        Some("C05-step (b) credit not consumed")
    } else if !res && el_ns as i128 >= i {
        Some("C05-step (d) request one interval after the last paint refused")
    } else if res && !(c1 < b * i) {
        Some("C05-burst credit after a paint >= B intervals")
    } else {
        None
    };
    (bad, desc)
}

pub fn rl_allow(args: &[String]) -> String {
    if args.len() == 3 {
        let (bad, desc) = rl_call(args[0].parse().unwrap(), args[1].parse().unwrap(), args[2].parse().unwrap());
        return format!("{{\"found\": {}, \"clause\": {:?}, \"input\": {}}}", bad.is_some(), bad.unwrap_or(""), desc);
    }
    let mut tried = 0u64;
    for &rate in &[20u8, 1, 3, 7, 15, 60, 100, 255] {
        let i = (1000 / rate as u64) * 1_000_000;
        for cap in 0..=LIMITER_MAX_BURST {
            for k in (0..=(LIMITER_MAX_BURST as u64 + 3)).chain(250..=260).chain(510..=514) {
                for &d in &[0i64, 1, -1, (i / 2) as i64, (i - 1) as i64] {
                    let el = (k * i) as i64 + d;
                    if el < 0 {
                        continue;
                    }
                    tried += 1;
                    let (bad, desc) = rl_call(rate, cap, el as u64);
                    if let Some(b) = bad {
                        return format!("{{\"found\": true, \"clause\": {:?}, \"tried\": {}, \"input\": {}, \"rerun\": \"replay rl_allow {} {} {}\"}}", b, tried, desc, rate, cap, el);
                    }
                }
            }
        }
    }
    format!("{{\"found\": false, \"tried\": {}}}", tried)
}

pub fn rl_new(args: &[String]) -> String {
    let rates: Vec<u8> = if args.len() == 1 { vec![args[0].parse().unwrap()] } else { (1..=255).collect() };
    for rate in rates {
        let l = Limiter::new(rate);
        let i = l.interval_ms() as i128 * 1_000_000;
        let r = rate as i128;
        let bad = if i * r < 1_000_000_000 {
            Some("C05-interval-lower interval * rate < 1 s (long-run frame rate exceeds R)")
        } else if (i - 1_000_000) * r >= 1_000_000_000 {
            Some("C05-interval-upper interval more than 1 ms above 1 s / R")
        } else if l.capacity() != LIMITER_MAX_BURST || i < 1 {
            Some("wf")
        } else {
            None
        };
        if let Some(b) = bad {
            return format!("{{\"found\": true, \"clause\": {:?}, \"input\": {{\"rate\": {}, \"interval_ms\": {}, \"frames_per_second_when_saturated\": {}}}, \"rerun\": \"replay rl_new {}\"}}", b, rate, l.interval_ms(), 1000 / l.interval_ms().max(1), rate);
        }
    }
    "{\"found\": false}".to_string()
}

/// Whole-history form of the first sentence of C05 on the real limiter: saturate a fresh
/// limiter after an idle period and count frames in a window.
pub fn rl_window(args: &[String]) -> String {
    let rate: u8 = args.get(0).and_then(|s| s.parse().ok()).unwrap_or(20);
    let base = crate::base();
    let mut best = String::from("{\"found\": false}");
    for idle_ns in [0u64, 1_049_999_000, 5_000_000_000] {
        for step_ns in [0u64, 1_000, 1_000_000] {
            let mut l = Limiter::with_state(rate, LIMITER_MAX_BURST, base);
            let t0 = base + Duration::from_nanos(idle_ns);
            let mut frames = 0u64;
            let mut t = t0;
            for _ in 0..200 {
                if l.allow(t) {
                    frames += 1;
                }
                t += Duration::from_nanos(step_ns);
            }
            let window_ns = (t - t0).as_nanos() as u64;
            let bound = 20.0 + rate as f64 * (window_ns as f64 / 1e9) + 1.0;
            if frames as f64 > bound {
                best = format!("{{\"found\": true, \"clause\": \"C05-window\", \"input\": {{\"rate\": {}, \"idle_ns\": {}, \"request_spacing_ns\": {}, \"requests\": 200, \"window_ns\": {}, \"frames\": {}, \"bound\": {}}}}}", rate, idle_ns, step_ns, window_ns, frames, bound);
                return best;
            }
        }
    }
    best
}

fn pos_call(cap: u8, prev_ns: u64, el_ns: u64) -> (Option<&'static str>, String) {
    let p = PosBucket::with_state(cap, prev_ns);
    let now = p.start() + Duration::from_nanos(el_ns);
    let res = p.allow(now);
    let i = POS_INTERVAL_NS as i128;
    let cap2 = p.capacity() as i128;
    let prev2 = p.prev_ns() as i128;
    let c0 = credit(cap as i128, el_ns as i128 - prev_ns as i128, i);
    let c1 = credit(cap2, el_ns as i128 - prev2, i);
    let desc = format!("{{\"capacity\": {}, \"prev_ns\": {}, \"elapsed_ns\": {}, \"result\": {}, \"capacity_after\": {}, \"prev_after_ns\": {}, \"credit_before\": {}, \"credit_after\": {}}}", cap, prev_ns, el_ns, res, cap2, prev2, c0, c1);
    let b = POS_MAX_BURST as i128;
    let mono = prev_ns <= el_ns;
    let bad = if !res && (cap2 != cap as i128 || prev2 != prev_ns as i128) {
        Some("C05-step (a) refused request changed the state")
    } else if res && mono && !(c0 >= i && c1 <= c0 - i && prev2 <= el_ns as i128) {
        Some("C05-step (b) credit not consumed")
    } else if !res && mono && (el_ns - prev_ns) as i128 >= i {
        Some("C05-step (d) request one interval after the last allowed one refused")
    } else if res && mono && !(c1 < b * i) {
        Some("C05-burst credit after an allowed request >= B intervals")
    } else {
        None
    };
    (bad, desc)
}

pub fn pos_allow(args: &[String]) -> String {
    if args.len() == 3 {
        let (bad, desc) = pos_call(args[0].parse().unwrap(), args[1].parse().unwrap(), args[2].parse().unwrap());
        return format!("{{\"found\": {}, \"clause\": {:?}, \"input\": {}}}", bad.is_some(), bad.unwrap_or(""), desc);
    }
    let i = POS_INTERVAL_NS;
    let mut tried = 0u64;
    for cap in 0..=POS_MAX_BURST {
        for &prev in &[0u64, 1, i, 5 * i + 17] {
            for k in 0..=(POS_MAX_BURST as u64 + 3) {
                for &d in &[0i64, 1, -1, (i / 2) as i64, (i - 1) as i64] {
                    let el = (prev + k * i) as i64 + d;
                    if el < 0 {
                        continue;
                    }
                    tried += 1;
                    let (bad, desc) = pos_call(cap, prev, el as u64);
                    if let Some(b) = bad {
                        return format!("{{\"found\": true, \"clause\": {:?}, \"tried\": {}, \"input\": {}, \"rerun\": \"replay pos_allow {} {} {}\"}}", b, tried, desc, cap, prev, el);
                    }
                }
            }
        }
    }
    format!("{{\"found\": false, \"tried\": {}}}", tried)
}

/// C07 bounded stand-in on the real public API: position and length arithmetic (wrapping position, saturating
/// length, set / unset, finish variants), single-threaded.
pub fn pos_arith(_args: &[String]) -> String {
    use indicatif::ProgressBar;
    std::panic::set_hook(Box::new(|_| {}));
    let mut tried = 0u64;
    let vals = [0u64, 1, 7, u64::MAX - 1, u64::MAX];
    for &p0 in &vals {
        for &d in &vals {
            let pb = ProgressBar::hidden();
            pb.set_position(p0);
            pb.inc(d);
            tried += 1;
            if pb.position() != p0.wrapping_add(d) {
                return format!("{{\"found\": true, \"clause\": \"C07 inc wraps modulo 2^64\", \"input\": {{\"position\": \"{}\", \"delta\": \"{}\", \"got\": \"{}\"}}, \"rerun\": \"replay pos_arith\"}}", p0, d, pb.position());
            }
            let pb = ProgressBar::hidden();
            pb.set_position(p0);
            pb.dec(d);
            tried += 1;
            if pb.position() != p0.wrapping_sub(d) {
                return format!("{{\"found\": true, \"clause\": \"C07 dec wraps modulo 2^64 without panicking\", \"input\": {{\"position\": \"{}\", \"delta\": \"{}\", \"got\": \"{}\"}}, \"rerun\": \"replay pos_arith\"}}", p0, d, pb.position());
            }
            for len0 in [None, Some(p0)] {
                let pb = ProgressBar::hidden();
                if let Some(l) = len0 { pb.set_length(l); }
                pb.inc_length(d);
                let want = len0.map(|l| l.saturating_add(d));
                tried += 1;
                if pb.length() != want {
                    return format!("{{\"found\": true, \"clause\": \"C07 inc_length saturates, an unknown length stays unknown\", \"input\": {{\"length\": {:?}, \"delta\": \"{}\", \"got\": {:?}}}, \"rerun\": \"replay pos_arith\"}}", len0, d, pb.length());
                }
                let pb = ProgressBar::hidden();
                if let Some(l) = len0 { pb.set_length(l); }
                pb.dec_length(d);
                let want = len0.map(|l| l.saturating_sub(d));
                tried += 1;
                if pb.length() != want {
                    return format!("{{\"found\": true, \"clause\": \"C07 dec_length saturates at zero\", \"input\": {{\"length\": {:?}, \"delta\": \"{}\", \"got\": {:?}}}, \"rerun\": \"replay pos_arith\"}}", len0, d, pb.length());
                }
            }
        }
    }
    // a history: inc; dec below zero; inc back
    let pb = ProgressBar::hidden();
    pb.inc(5); pb.dec(7); pb.inc(7);
    tried += 1;
    if pb.position() != 5 {
        return format!("{{\"found\": true, \"clause\": \"C07 position arithmetic is modular: inc(5); dec(7); inc(7) == 5\", \"input\": {{\"got\": \"{}\"}}, \"rerun\": \"replay pos_arith\"}}", pb.position());
    }
    // finish variants: position == length for finish*, unchanged for abandon*
    for v in 0..5 {
        let pb = ProgressBar::hidden();
        pb.set_length(10);
        pb.set_position(3);
        match v { 0 => pb.finish(), 1 => pb.finish_with_message("m"), 2 => pb.finish_and_clear(), 3 => pb.abandon(), _ => pb.abandon_with_message("m") }
        let want = if v <= 2 { 10 } else { 3 };
        tried += 1;
        if pb.position() != want || pb.length() != Some(10) || !pb.is_finished() {
            return format!("{{\"found\": true, \"clause\": \"C07/C04 finish variants move the position to the length, abandon variants leave it\", \"input\": {{\"variant\": {}, \"position\": \"{}\"}}, \"rerun\": \"replay pos_arith\"}}", v, pb.position());
        }
    }
    format!("{{\"found\": false, \"tried\": {}}}", tried)
}

/// C07: position() and length() against the history-defined model, for every history of up to 4 operations out of 15
/// (boundary arguments), on a hidden and on a visible (in-memory) bar.
pub fn pos_history(_args: &[String]) -> String {
    use indicatif::{InMemoryTerm, ProgressBar, ProgressDrawTarget};
    std::panic::set_hook(Box::new(|_| {}));
    let mut tried = 0u64;
    const M: u64 = u64::MAX;
    let names = ["inc(3)", "inc(MAX)", "dec(2)", "dec(MAX-1)", "set_position(7)", "set_position(MAX)", "set_length(5)", "set_length(0)",
        "inc_length(2)", "inc_length(MAX)", "dec_length(4)", "unset_length", "reset", "finish", "abandon"];
    let n = names.len();
    for visible in [false, true] {
        for a in 0..n { for b in 0..n { for c in 0..n { for d in [0usize, 2, 6, 10, 13] {
            let pb = if visible {
                ProgressBar::with_draw_target(Some(10), ProgressDrawTarget::term_like(Box::new(InMemoryTerm::new(10, 40))))
            } else {
                let pb = ProgressBar::hidden(); pb.set_length(10); pb
            };
            let (mut pos, mut len): (u64, Option<u64>) = (0, Some(10));
            let mut hist: Vec<&str> = vec![];
            for op in [a, b, c, d] {
                match op {
                    0 => { pb.inc(3); pos = pos.wrapping_add(3); }
                    1 => { pb.inc(M); pos = pos.wrapping_add(M); }
                    2 => { pb.dec(2); pos = pos.wrapping_sub(2); }
                    3 => { pb.dec(M - 1); pos = pos.wrapping_sub(M - 1); }
                    4 => { pb.set_position(7); pos = 7; }
                    5 => { pb.set_position(M); pos = M; }
                    6 => { pb.set_length(5); len = Some(5); }
                    7 => { pb.set_length(0); len = Some(0); }
                    8 => { pb.inc_length(2); len = len.map(|l| l.saturating_add(2)); }
                    9 => { pb.inc_length(M); len = len.map(|l| l.saturating_add(M)); }
                    10 => { pb.dec_length(4); len = len.map(|l| l.saturating_sub(4)); }
                    11 => { pb.unset_length(); len = None; }
                    12 => { pb.reset(); pos = 0; }
                    13 => { pb.finish(); if let Some(l) = len { pos = l; } }
                    _ => { pb.abandon(); }
                }
                hist.push(names[op]);
                tried += 1;
                if pb.position() != pos || pb.length() != len {
                    return format!("{{\"found\": true, \"clause\": \"C07 position() is defined by the history of inc/dec/set_position/reset/finish (wrapping), length() by set_length/inc_length/dec_length/unset_length (saturating)\", \"input\": {{\"visible\": {}, \"history\": {}, \"expected\": \"position {} length {:?}\", \"got\": \"position {} length {:?}\"}}, \"rerun\": \"replay pos_history\"}}",
                        visible, crate::jlist(&hist), pos, len, pb.position(), pb.length());
                }
            }
        }}}}
    }
    format!("{{\"found\": false, \"tried\": {}}}", tried)
}
