//! C14 witnesses: a style the builder accepted must render without panicking.
use indicatif::{InMemoryTerm, ProgressBar, ProgressDrawTarget, ProgressStyle};
use std::panic::{catch_unwind, AssertUnwindSafe};

fn render(style: ProgressStyle, pos: u64, ticks: usize, width: u16) -> Result<(), String> {
    let r = catch_unwind(AssertUnwindSafe(|| {
        let term = InMemoryTerm::new(10, width);
        let pb = ProgressBar::with_draw_target(Some(10), ProgressDrawTarget::term_like(Box::new(term)));
        pb.set_style(style);
        pb.set_position(pos);
        for _ in 0..ticks {
            pb.tick();
        }
        pb.finish();
    }));
    r.map_err(|e| {
        e.downcast_ref::<String>().cloned().or_else(|| e.downcast_ref::<&str>().map(|s| s.to_string())).unwrap_or_default()
    })
}

fn base() -> ProgressStyle {
    ProgressStyle::with_template("{spinner} {bar:20} {wide_bar} {pos}/{len} {msg}").unwrap()
}

pub fn style_build(args: &[String]) -> String {
    std::panic::set_hook(Box::new(|_| {}));
    let tick_sets: Vec<Vec<&str>> = vec![vec![], vec!["x"], vec!["a", "b"], vec!["ab", "c", "d"], vec!["a", "b", "c", "done"], vec!["\u{2588}"], vec!["1", "2", "3", "4", "5", "6", "7", "end"]];
    let pc_sets: Vec<&str> = vec!["", "#", "\u{2588}", "\u{ff03}", "\u{200b}\u{200b}", "\u{200b}\u{200b}\u{200b}", "#>-", "██", "ab", "#12345678-", "\u{ff03}\u{ff1e}\u{ff0d}"];
    let only: Option<&str> = args.get(0).map(String::as_str);
    if only.is_none() || only == Some("tick_strings") {
        for ts in &tick_sets {
            let built = catch_unwind(AssertUnwindSafe(|| base().tick_strings(ts)));
            if let Ok(style) = built {
                for pos in [0u64, 3, 10] {
                    let many = render(style.clone(), pos, 12, 40);
                    if let Err(msg) = render(style.clone(), pos, 3, 40).and(many) {
                        return format!("{{\"found\": true, \"clause\": \"C14-wf tick_strings accepted a style whose draw panics\", \"input\": {{\"builder\": \"tick_strings\", \"arg\": {}, \"position\": {}, \"panic\": {}}}, \"rerun\": \"replay style_build tick_strings\"}}", crate::jlist(ts), pos, crate::js(&msg));
                    }
                }
            }
        }
    }
    if only.is_none() || only == Some("progress_chars") {
        for pc in &pc_sets {
            let built = catch_unwind(AssertUnwindSafe(|| base().progress_chars(pc)));
            if let Ok(style) = built {
                for pos in 0u64..=11 {
                    if let Err(msg) = render(style.clone(), pos, 3, 40) {
                        return format!("{{\"found\": true, \"clause\": \"C14-wf progress_chars accepted a style whose draw panics\", \"input\": {{\"builder\": \"progress_chars\", \"arg\": {}, \"position\": {}, \"panic\": {}}}, \"rerun\": \"replay style_build progress_chars\"}}", crate::js(pc), pos, crate::js(&msg));
                    }
                }
            }
        }
    }
    if only.is_none() || only == Some("progress_chars") {
        // progress characters of unequal width must be rejected when the style is built
        for pc in ["a\u{ff03}", "\u{ff03}ab", "ab\u{ff03}", "#\u{ff1e}-"] {
            let built = catch_unwind(AssertUnwindSafe(|| base().progress_chars(pc)));
            if built.is_ok() {
                return format!("{{\"found\": true, \"clause\": \"C14 progress characters of unequal width are rejected when the style is built\", \"input\": {{\"builder\": \"progress_chars\", \"arg\": {}}}, \"rerun\": \"replay style_build progress_chars\"}}", crate::js(pc));
            }
        }
    }
    if only.is_none() || only == Some("tick_chars") {
        for tc in ["", "x", "ab", "abc", "\u{e9}", "\u{2588}", "\u{1f600}", "\u{2801}\u{2802}"] {
            let built = catch_unwind(AssertUnwindSafe(|| base().tick_chars(tc)));
            if let Ok(style) = built {
                if let Err(msg) = render(style.clone(), 3, 3, 40).and(render(style.clone(), 3, 12, 40)) {
                    return format!("{{\"found\": true, \"clause\": \"C14-wf tick_chars accepted a style whose draw panics\", \"input\": {{\"builder\": \"tick_chars\", \"arg\": {}, \"panic\": {}}}, \"rerun\": \"replay style_build tick_chars\"}}", crate::js(tc), crate::js(&msg));
                }
            }
        }
    }
    "{\"found\": false}".to_string()
}
