//! C11 / C10 bounded stand-ins on the real format_state: every documented placeholder against the
//! getters passed through the public formatters, and the line structure of the frame.
use indicatif::verif_hooks::style::frame;
use indicatif::{BinaryBytes, DecimalBytes, FormattedDuration, HumanBytes, HumanCount, HumanDuration, HumanFloatCount, ProgressState, ProgressStyle};
use std::fmt::Write;

fn one(style: &ProgressStyle, len: Option<u64>, pos: u64, msg: &str, prefix: &str, tick: u64, status: u8) -> (Vec<(bool, String)>, indicatif::verif_hooks::style::Frame) {
    let f = frame(style, len, pos, msg, prefix, tick, status, 80);
    (f.lines.clone(), f)
}

pub fn render_keys(_args: &[String]) -> String {
    std::panic::set_hook(Box::new(|_| {}));
    let states: [(u64, Option<u64>); 9] = [(0, Some(0)), (0, Some(10)), (3, Some(10)), (10, Some(10)), (15, Some(10)), (7, None), (0, None),
        (u64::MAX, Some(u64::MAX)), (1234567, Some(u64::MAX))];
    let keys = ["pos", "human_pos", "len", "human_len", "percent", "percent_precise", "bytes", "total_bytes", "decimal_bytes", "decimal_total_bytes",
        "binary_bytes", "binary_total_bytes", "elapsed_precise", "elapsed", "per_sec", "bytes_per_sec", "decimal_bytes_per_sec", "binary_bytes_per_sec",
        "eta_precise", "eta", "duration_precise", "duration", "msg", "prefix", "spinner", "nosuchkey"];
    let mut tried = 0u64;
    for (pos, len) in states {
        for status in 0..3u8 {
            for tick in [0u64, 1, 7, u64::MAX] {
                for key in keys {
                    if status != 0 && key.contains("per_sec") {
                        continue; // position / elapsed nanoseconds: differs between two readings of the clock
                    }
                    let t = format!("[{{{}}}]", key);
                    let style = ProgressStyle::with_template(&t).unwrap();
                    let mut bad = None;
                    // time-dependent getters are read right after the frame: a second boundary in between is retried
                    for _attempt in 0..4 {
                        let (lines, f) = one(&style, len, pos, "m\ts g", "p\tfx", tick, status);
                        let l = len.unwrap_or(pos);
                        let want = match key {
                            "pos" => pos.to_string(),
                            "human_pos" => HumanCount(pos).to_string(),
                            "len" => l.to_string(),
                            "human_len" => HumanCount(l).to_string(),
                            "percent" => format!("{:.0}", f.fraction * 100f32),
                            "percent_precise" => format!("{:.3}", f.fraction * 100f32),
                            "bytes" => HumanBytes(pos).to_string(),
                            "total_bytes" => HumanBytes(l).to_string(),
                            "decimal_bytes" => DecimalBytes(pos).to_string(),
                            "decimal_total_bytes" => DecimalBytes(l).to_string(),
                            "binary_bytes" => BinaryBytes(pos).to_string(),
                            "binary_total_bytes" => BinaryBytes(l).to_string(),
                            "elapsed_precise" => FormattedDuration(f.elapsed).to_string(),
                            "elapsed" => format!("{:#}", HumanDuration(f.elapsed)),
                            "per_sec" => format!("{}/s", HumanFloatCount(f.per_sec)),
                            "bytes_per_sec" => format!("{}/s", HumanBytes(f.per_sec as u64)),
                            "decimal_bytes_per_sec" => format!("{}/s", DecimalBytes(f.per_sec as u64)),
                            "binary_bytes_per_sec" => format!("{}/s", BinaryBytes(f.per_sec as u64)),
                            "eta_precise" => FormattedDuration(f.eta).to_string(),
                            "eta" => format!("{:#}", HumanDuration(f.eta)),
                            "duration_precise" => FormattedDuration(f.duration).to_string(),
                            "duration" => format!("{:#}", HumanDuration(f.duration)),
                            "msg" => "m        s g".to_string(),
                            "prefix" => "p        fx".to_string(),
                            "spinner" => if status == 0 { style.get_tick_str(tick).to_string() } else { style.get_final_tick_str().to_string() },
                            _ => String::new(),
                        };
                        let want_line = format!("[{}]", want);
                        tried += 1;
                        if lines.len() == 1 && lines[0].0 && lines[0].1 == want_line {
                            bad = None;
                            break;
                        }
                        bad = Some((want_line, lines));
                    }
                    if let Some((want, got)) = bad {
                        let got_s: Vec<String> = got.iter().map(|l| l.1.clone()).collect();
                        let got_r: Vec<&str> = got_s.iter().map(String::as_str).collect();
                        return format!("{{\"found\": true, \"clause\": \"C11 placeholder {} does not render the getter value through the public formatter\", \"tried\": {}, \"input\": {{\"template\": {}, \"pos\": {}, \"len\": {}, \"status\": {}, \"tick\": {}, \"expected\": {}, \"rendered\": {}}}, \"rerun\": \"replay render_keys\"}}",
                            key, tried, crate::js(&t), pos, len.map(|x| x.to_string()).unwrap_or("null".into()), status, tick, crate::js(&want), crate::jlist(&got_r));
                    }
                }
            }
        }
    }
    // a custom key shadows the built-in of the same name and sees the state of this draw
    let style = ProgressStyle::with_template("{pos}|{mine}").unwrap()
        .with_key("pos", |s: &ProgressState, w: &mut dyn Write| write!(w, "P{}", s.pos()).unwrap())
        .with_key("mine", |s: &ProgressState, w: &mut dyn Write| write!(w, "L{:?}\tx", s.len()).unwrap());
    let (lines, _) = one(&style, Some(9), 4, "", "", 0, 0);
    tried += 1;
    let want = "P4|LSome(9)        x";
    if !(lines.len() == 1 && lines[0].1 == want) {
        let got_s: Vec<String> = lines.iter().map(|l| l.1.clone()).collect();
        let got_r: Vec<&str> = got_s.iter().map(String::as_str).collect();
        return format!("{{\"found\": true, \"clause\": \"C11 custom key must shadow the built-in and receive the current state (tab-expanded)\", \"input\": {{\"template\": \"{{pos}}|{{mine}}\", \"expected\": {}, \"rendered\": {}}}, \"rerun\": \"replay render_keys\"}}", crate::js(want), crate::jlist(&got_r));
    }
    format!("{{\"found\": false, \"tried\": {}}}", tried)
}

/// C10 / C01 line structure: one output line per template line, a value with newlines is split at
/// every newline (empty pieces included), an empty last line is not emitted, no line contains '\n'.
pub fn render_lines(_args: &[String]) -> String {
    std::panic::set_hook(Box::new(|_| {}));
    let msgs = ["", "a", "a\nb", "a\n", "\n", "a\n\nb", "\na", "a\r\nb", "a\nb\n"];
    let templates = ["{msg}", "x{msg}y", "x\n{msg}", "{msg}\ny", "x\n\ny{msg}", "{msg}\n{msg}", "\n{msg}", "{msg}\n"];
    let mut tried = 0u64;
    for t in templates {
        let style = ProgressStyle::with_template(t).unwrap();
        for m in msgs {
            let (lines, _) = one(&style, Some(10), 1, m, "", 0, 0);
            // oracle: each template line expands by substituting the message, then is split at every '\n';
            // the last template line is dropped when its expansion is empty
            let tl: Vec<&str> = t.split('\n').collect();
            let mut want: Vec<String> = Vec::new();
            for (i, l) in tl.iter().enumerate() {
                let e = l.replace("{msg}", m);
                if i == tl.len() - 1 && e.is_empty() {
                    continue;
                }
                for piece in e.split('\n') {
                    want.push(piece.to_string());
                }
            }
            tried += 1;
            let got: Vec<String> = lines.iter().map(|l| l.1.clone()).collect();
            let all_bars = lines.iter().all(|l| l.0);
            if got == want && !all_bars {
                let b: Vec<String> = lines.iter().map(|l| format!("{}:{}", if l.0 { "bar" } else { "text" }, l.1)).collect();
                let b: Vec<&str> = b.iter().map(String::as_str).collect();
                return format!("{{\"found\": true, \"clause\": \"C01/C19 every line a style renders is a bar line (one of the rows the next draw erases), also an empty one\", \"tried\": {}, \"input\": {{\"template\": {}, \"msg\": {}, \"rendered\": {}}}, \"rerun\": \"replay render_lines\"}}",
                    tried, crate::js(t), crate::js(m), crate::jlist(&b));
            }
            if got != want || !all_bars || got.iter().any(|g| g.contains('\n')) {
                let a: Vec<&str> = want.iter().map(String::as_str).collect();
                let b: Vec<&str> = got.iter().map(String::as_str).collect();
                return format!("{{\"found\": true, \"clause\": \"C10 one frame line per template line, values split at every newline\", \"tried\": {}, \"input\": {{\"template\": {}, \"msg\": {}, \"expected\": {}, \"rendered\": {}}}, \"rerun\": \"replay render_lines\"}}",
                    tried, crate::js(t), crate::js(m), crate::jlist(&a), crate::jlist(&b));
            }
        }
    }
    format!("{{\"found\": false, \"tried\": {}}}", tried)
}

/// C13 / C12: the wide element takes exactly the columns the rest of the line leaves free.
pub fn render_wide(_args: &[String]) -> String {
    std::panic::set_hook(Box::new(|_| {}));
    use indicatif::verif_hooks::style::text_cols;
    let mut tried = 0u64;
    for width in [10u16, 11, 20, 80] {
        for (t, pfx) in [("{wide_bar}", ""), ("ab{wide_bar}cd", ""), ("{prefix} {wide_bar} {pos}", "pp"), ("{prefix}{wide_bar}", "p\tq")] {
            let style = ProgressStyle::with_template(t).unwrap();
            for (pos, len) in [(0u64, 10u64), (3, 10), (10, 10)] {
                let f = frame(&style, Some(len), pos, "", pfx, 0, 0, width);
                tried += 1;
                let ok = f.lines.len() == 1 && text_cols(&f.lines[0].1) == width as usize;
                if !ok {
                    let got: Vec<&str> = f.lines.iter().map(|l| l.1.as_str()).collect();
                    return format!("{{\"found\": true, \"clause\": \"C13 a line with wide_bar is exactly as wide as the terminal when the rest fits\", \"tried\": {}, \"input\": {{\"template\": {}, \"width\": {}, \"pos\": {}, \"len\": {}, \"rendered\": {}}}, \"rerun\": \"replay render_wide\"}}",
                        tried, crate::js(t), width, pos, len, crate::jlist(&got));
                }
            }
        }
        // two-column progress characters: the wide bar takes the free columns (rounded down to whole cells), never more
        for (t, rest) in [("{wide_bar}", 0usize), ("{wide_bar} {pos}/{len}", 5), ("[{wide_bar}]", 2)] {
            let style = ProgressStyle::with_template(t).unwrap().progress_chars("\u{ff03}\u{ff1e}\u{ff0d}");
            for (pos, len) in [(0u64, 10u64), (5, 10), (10, 10)] {
                let f = frame(&style, Some(len), pos, "", "", 0, 0, width);
                tried += 1;
                let shown = f.lines.get(0).map(|l| text_cols(&l.1)).unwrap_or(0);
                let _ = rest;
                // whole cells of two columns: at most one free column stays unused, and the line is never wider than the terminal
                let want = width as usize;
                if !(f.lines.len() == 1 && shown <= want && shown + 1 >= want) {
                    let got: Vec<&str> = f.lines.iter().map(|l| l.1.as_str()).collect();
                    return format!("{{\"found\": true, \"clause\": \"C13 wide_bar with two-column characters fills the free columns with whole cells and is never wider than the terminal\", \"tried\": {}, \"input\": {{\"template\": {}, \"width\": {}, \"pos\": {}, \"len\": {}, \"expected_columns\": {}, \"rendered\": {}}}, \"rerun\": \"replay render_wide\"}}",
                        tried, crate::js(t), width, pos, len, want, crate::jlist(&got));
                }
            }
        }
        // a width field whose content is wider than the field, next to a wide element: the line is still exactly as wide as the terminal
        if width >= 40 {
            for (t, m) in [("{msg:8} [{wide_bar}] {pos}/{len}", "downloading"), ("{pos:>1}/{len:1} {wide_bar}|", ""), ("{msg:3}{wide_bar}", "abcdefghij")] {
                let style = ProgressStyle::with_template(t).unwrap();
                let f = frame(&style, Some(100000), 25000, m, "", 0, 0, width);
                tried += 1;
                if !(f.lines.len() == 1 && text_cols(&f.lines[0].1) == width as usize) {
                    let got: Vec<&str> = f.lines.iter().map(|l| l.1.as_str()).collect();
                    return format!("{{\"found\": true, \"clause\": \"C13 a line with wide_bar is exactly as wide as the terminal, also next to a field whose content overflows its width\", \"tried\": {}, \"input\": {{\"template\": {}, \"msg\": {}, \"width\": {}, \"rendered\": {}}}, \"rerun\": \"replay render_wide\"}}",
                        tried, crate::js(t), crate::js(m), width, crate::jlist(&got));
                }
            }
        }
        // a wide element on one line of a multi-line template: every template line still gives one frame line
        for (t, wide_at) in [("{wide_bar}\n{pos}/{len}", 0usize), ("{pos}/{len}\n{wide_bar}", 1), ("{wide_msg}\n{pos}", 0), ("a\n{wide_bar}\nb", 1)] {
            let style = ProgressStyle::with_template(t).unwrap();
            let f = frame(&style, Some(10), 3, "hello", "", 0, 0, width);
            tried += 1;
            let nlines = t.split('\n').count();
            let ok = f.lines.len() == nlines && f.lines.iter().enumerate().all(|(i, l)| {
                if i == wide_at { t.contains("wide_msg") || text_cols(&l.1) == width as usize } else { ["3/10", "3", "a", "b"].contains(&l.1.as_str()) }
            });
            if !ok {
                let got: Vec<&str> = f.lines.iter().map(|l| l.1.as_str()).collect();
                return format!("{{\"found\": true, \"clause\": \"C13/C10 a wide element on one line of a multi-line template: one frame line per template line, the others untouched\", \"tried\": {}, \"input\": {{\"template\": {}, \"width\": {}, \"rendered\": {}}}, \"rerun\": \"replay render_wide\"}}",
                    tried, crate::js(t), width, crate::jlist(&got));
            }
        }
        // double-width and combining text next to a wide_bar: the line is still exactly as wide as the terminal
        for (t, pfx, msg) in [("{msg} {wide_bar}", "", "日本語"), ("進捗 [{wide_bar}] {pos}/{len}", "", ""), ("{prefix}{wide_bar}|", "e\u{301}e\u{301}", "")] {
            if width < 20 {
                continue; // the rest of the line has to fit
            }
            let style = ProgressStyle::with_template(t).unwrap();
            let f = frame(&style, Some(10), 3, msg, pfx, 0, 0, width);
            tried += 1;
            if !(f.lines.len() == 1 && text_cols(&f.lines[0].1) == width as usize) {
                let got: Vec<&str> = f.lines.iter().map(|l| l.1.as_str()).collect();
                return format!("{{\"found\": true, \"clause\": \"C13 a line with wide_bar is exactly as wide as the terminal, also next to double-width text\", \"tried\": {}, \"input\": {{\"template\": {}, \"width\": {}, \"msg\": {}, \"rendered\": {}}}, \"rerun\": \"replay render_wide\"}}",
                    tried, crate::js(t), width, crate::js(msg), crate::jlist(&got));
            }
        }
    }
    format!("{{\"found\": false, \"tried\": {}}}", tried)
}

/// C12: wide_msg is a truncating field as wide as the rest of the line; {bar:N} is a field of exactly N columns.
pub fn render_widemsg(_args: &[String]) -> String {
    std::panic::set_hook(Box::new(|_| {}));
    use indicatif::verif_hooks::style::text_cols;
    let mut tried = 0u64;
    for width in [10u16, 11, 20, 80] {
        // {bar:N} with two-column progress characters: whole cells, padded to exactly N columns like every other field
        if width == 80 {
            for n in [1usize, 2, 3, 4, 5, 7, 10, 11] {
                for al in ["", "<", ">", "^"] {
                    let t = format!("[{{bar:{}{}}}]|{{pos}}", al, n);
                    let style = ProgressStyle::with_template(&t).unwrap().progress_chars("\u{ff03}\u{ff1e}\u{ff0d}");
                    for (pos, len) in [(0u64, 10u64), (5, 10), (10, 10)] {
                        let f = frame(&style, Some(len), pos, "", "", 0, 0, width);
                        tried += 1;
                        let line = f.lines.get(0).map(|l| l.1.clone()).unwrap_or_default();
                        let tail = format!("]|{}", pos);
                        let ok = f.lines.len() == 1 && line.starts_with('[') && line.ends_with(&tail) && text_cols(&line) == n + 1 + tail.len();
                        if !ok {
                            return format!("{{\"found\": true, \"clause\": \"C12 a {{bar:N}} field of two-column characters occupies exactly N columns (whole cells plus padding)\", \"tried\": {}, \"input\": {{\"template\": {}, \"pos\": {}, \"len\": {}, \"expected_columns\": {}, \"rendered\": {}}}, \"rerun\": \"replay render_widemsg\"}}",
                                tried, crate::js(&t), pos, len, n + 1 + tail.len(), crate::js(&line));
                        }
                    }
                }
            }
        }
        for msg in ["", "hi", "hello world, this is a long message that does not fit"] {
            for (t, trailing, al) in [("ab{wide_msg}cd", false, '<'), ("x{wide_msg}", true, '<'), ("{pos} {wide_msg}", true, '<'),
                                      ("ab{wide_msg:>}cd", false, '>'), ("x{wide_msg:>}", true, '>'), ("x{wide_msg:^}", true, '^'), ("ab{wide_msg:^}cd", false, '^')] {
                let style = ProgressStyle::with_template(t).unwrap();
                let f = frame(&style, Some(10), 3, msg, "", 0, 0, width);
                tried += 1;
                let (head, tail) = if t.starts_with("ab") { ("ab", "cd") } else if t.starts_with('x') { ("x", "") } else { ("3 ", "") };
                let left = (width as usize).saturating_sub(head.len() + tail.len());
                // truncation keeps the start (left), the end (right) or the middle (centre) of the message
                let ml = msg.chars().count();
                let shown: String = if ml <= left { msg.to_string() } else {
                    let excess = ml - left;
                    match al { '<' => msg.chars().take(left).collect(), '>' => msg.chars().skip(excess).collect(), _ => msg.chars().skip(excess / 2).take(left).collect() }
                };
                let padded = match al { '<' => format!("{:<w$}", shown, w = left), '>' => format!("{:>w$}", shown, w = left), _ => format!("{:^w$}", shown, w = left) };
                let mut want = format!("{}{}{}", head, padded, tail);
                if trailing {
                    // only the trailing padding of the message is dropped, the rest of the line stays
                    want = format!("{}{}", head, padded.trim_end());
                }
                let ok = f.lines.len() == 1 && f.lines[0].1 == want;
                if !ok {
                    let got: Vec<&str> = f.lines.iter().map(|l| l.1.as_str()).collect();
                    return format!("{{\"found\": true, \"clause\": \"C12 wide_msg shows the message padded / truncated to the free columns\", \"tried\": {}, \"input\": {{\"template\": {}, \"width\": {}, \"msg\": {}, \"expected\": {}, \"rendered\": {}}}, \"rerun\": \"replay render_widemsg\"}}",
                        tried, crate::js(t), width, crate::js(msg), crate::js(&want), crate::jlist(&got));
                }
            }
        }
        // next to a field whose content overflows its width (emitted unshortened), and on a later line of a multi-line
        // template: wide_msg still takes exactly the columns the rest of ITS line leaves free
        if width >= 20 {
            let long = "hello world, this is a long message that does not fit, not even on the widest of the terminals used here";
            for (t, pfx, fixed) in [("{prefix:3}|{wide_msg}|", "abcdef", 8usize), ("{prefix:>2}{wide_msg}|", "abcd", 5), ("{prefix} {pos}/{len}\n{wide_msg}|", "a-prefix-of-some-length", 1),
                                    ("{wide_msg}|\n{wide_msg}]", "", 1)] {
                let style = ProgressStyle::with_template(t).unwrap();
                let f = frame(&style, Some(10), 3, long, pfx, 0, 0, width);
                tried += 1;
                let nl = t.split('\n').count();
                let last = f.lines.last().map(|l| l.1.clone()).unwrap_or_default();
                let shown: String = long.chars().take(width as usize - fixed).collect();
                let ok = f.lines.len() == nl && text_cols(&last) == width as usize && last.contains(&shown) && !last.contains(&long[..width as usize - fixed + 1]);
                if !ok {
                    let got: Vec<&str> = f.lines.iter().map(|l| l.1.as_str()).collect();
                    return format!("{{\"found\": true, \"clause\": \"C12 wide_msg is truncated to exactly the columns the rest of its line leaves free (overflowing fields counted as emitted, other template lines not counted)\", \"tried\": {}, \"input\": {{\"template\": {}, \"prefix\": {}, \"width\": {}, \"rendered\": {}}}, \"rerun\": \"replay render_widemsg\"}}",
                        tried, crate::js(t), crate::js(pfx), width, crate::jlist(&got));
                }
            }
        }
    }
    format!("{{\"found\": false, \"tried\": {}}}", tried)
}

/// C13: `{bar:N}` geometry on the real code: N cells, filled + partial + background in that order,
/// full exactly when position >= length (lengths up to 2^24), empty at position 0, floor(fraction * N)
/// filled cells wherever f32 rounding cannot matter.
pub fn bar_cells(_args: &[String]) -> String {
    std::panic::set_hook(Box::new(|_| {}));
    let mut tried = 0u64;
    for n in [1usize, 2, 5, 10, 20, 37] {
        let t = format!("{{bar:{}}}", n);
        let style = ProgressStyle::with_template(&t).unwrap().progress_chars("#>-");
        for len in [1u64, 2, 3, 7, 10, 100, 1000, 1_000_000, 16_777_216] {
            let mut ps = vec![0u64, 1, len / 3, len / 2, len.saturating_sub(1), len, len + 1, 2 * len];
            ps.sort();
            ps.dedup();
            let mut prev_filled: Option<(u64, usize)> = None;
            for pos in ps {
                let f = frame(&style, Some(len), pos, "", "", 0, 0, 80);
                tried += 1;
                let line = f.lines.get(0).map(|l| l.1.clone()).unwrap_or_default();
                let filled = line.chars().take_while(|c| *c == '#').count();
                let head = line.chars().skip(filled).take_while(|c| *c == '>').count();
                let bg = line.chars().skip(filled + head).take_while(|c| *c == '-').count();
                let mut bad = None;
                if filled + head + bg != n || line.chars().count() != n || head > 1 {
                    bad = Some("the bar occupies exactly N cells: filled, at most one partial, background");
                } else if (filled == n) != (pos >= len) {
                    bad = Some("filled == cells exactly when position >= length");
                } else if pos == 0 && (filled != 0 || head != 0) {
                    bad = Some("empty at position 0");
                } else if len <= 1000 && pos <= len && filled as u64 != pos * n as u64 / len {
                    bad = Some("filled == floor(fraction * cells)");
                } else if (head == 1) != (pos > 0 && filled < n) {
                    bad = Some("a partial cell exactly when the bar is neither empty nor full");
                }
                if bad.is_none() {
                    if let Some((pp, pf)) = prev_filled {
                        if filled < pf {
                            return format!("{{\"found\": true, \"clause\": \"C13 the filled count is monotone in the position\", \"tried\": {}, \"input\": {{\"template\": {}, \"len\": {}, \"pos_a\": {}, \"filled_a\": {}, \"pos_b\": {}, \"filled_b\": {}}}, \"rerun\": \"replay bar_cells\"}}",
                                tried, crate::js(&t), len, pp, pf, pos, filled);
                        }
                    }
                    prev_filled = Some((pos, filled));
                }
                if let Some(b) = bad {
                    return format!("{{\"found\": true, \"clause\": {}, \"tried\": {}, \"input\": {{\"template\": {}, \"pos\": {}, \"len\": {}, \"rendered\": {}}}, \"rerun\": \"replay bar_cells\"}}",
                        crate::js(&format!("C13 {}", b)), tried, crate::js(&t), pos, len, crate::js(&line));
                }
            }
        }
    }
    // a fine-grained set (10 clusters): '#' filled, '1'..'8' partial, '-' background
    for n in [1usize, 2, 8, 20] {
        let t = format!("{{bar:{}}}", n);
        let style = ProgressStyle::with_template(&t).unwrap().progress_chars("#12345678-");
        for len in [3u64, 10, 128, 1000] {
            for pos in 0..=len + 1 {
                let f = frame(&style, Some(len), pos, "", "", 0, 0, 80);
                tried += 1;
                let line = f.lines.get(0).map(|l| l.1.clone()).unwrap_or_default();
                let filled = line.chars().take_while(|c| *c == '#').count();
                let head = line.chars().skip(filled).take_while(|c| ('1'..='8').contains(c)).count();
                let bg = line.chars().skip(filled + head).take_while(|c| *c == '-').count();
                let want_filled = if pos >= len { n as u64 } else { pos * n as u64 / len };
                let bad = if filled + head + bg != n || line.chars().count() != n || head > 1 {
                    Some("the bar occupies exactly N cells: filled, at most one partial cell out of the configured characters, background")
                } else if filled as u64 != want_filled {
                    Some("filled == floor(fraction * cells)")
                } else if (head == 1) != (pos > 0 && pos < len) {
                    Some("a partial cell exactly when the bar is neither empty nor full")
                } else { None };
                if let Some(b) = bad {
                    return format!("{{\"found\": true, \"clause\": {}, \"tried\": {}, \"input\": {{\"template\": {}, \"progress_chars\": \"#12345678-\", \"pos\": {}, \"len\": {}, \"rendered\": {}}}, \"rerun\": \"replay bar_cells\"}}",
                        crate::js(&format!("C13 {}", b)), tried, crate::js(&t), pos, len, crate::js(&line));
                }
            }
        }
    }
    // an abandoned (finished, visible) bar at a partial position has the same geometry as a running one
    for chars in ["#>-", "#12345678-"] {
        let style = ProgressStyle::with_template("{bar:10}").unwrap().progress_chars(chars);
        for (pos, len) in [(1u64, 4u64), (2, 4), (3, 7), (1, 3)] {
            let running = frame(&style, Some(len), pos, "", "", 0, 0, 80).lines.get(0).map(|l| l.1.clone()).unwrap_or_default();
            let abandoned = frame(&style, Some(len), pos, "", "", 0, 1, 80).lines.get(0).map(|l| l.1.clone()).unwrap_or_default();
            tried += 1;
            if running != abandoned {
                return format!("{{\"found\": true, \"clause\": \"C13 one partial cell exactly when the bar is neither empty nor full, whether the bar is running or was abandoned\", \"tried\": {}, \"input\": {{\"template\": \"{{bar:10}}\", \"progress_chars\": {}, \"pos\": {}, \"len\": {}, \"running\": {}, \"abandoned\": {}}}, \"rerun\": \"replay bar_cells\"}}",
                    tried, crate::js(chars), pos, len, crate::js(&running), crate::js(&abandoned));
            }
        }
    }
    // two-column clusters: floor(N/2) cells of two columns each, also when the bar is full
    for n in [2usize, 3, 10, 11] {
        let t = format!("{{bar:{}}}", n);
        let style = ProgressStyle::with_template(&t).unwrap().progress_chars("\u{ff03}\u{ff1e}\u{ff0d}");
        for (pos, len) in [(0u64, 4u64), (1, 4), (2, 4), (3, 4), (4, 4), (5, 4), (0, 0)] {
            let f = frame(&style, Some(len), pos, "", "", 0, 0, 80);
            tried += 1;
            // an odd field width is padded with one blank after the cells
            let line = f.lines.get(0).map(|l| l.1.trim_end().to_string()).unwrap_or_default();
            let cells = n / 2;
            let filled = line.chars().take_while(|c| *c == '\u{ff03}').count();
            let bad = if line.chars().count() != cells { Some("the bar occupies floor(N/c) cells of c columns each") }
                else if (filled == cells) != (pos >= len) { Some("filled == cells exactly when position >= length") } else { None };
            if let Some(b) = bad {
                return format!("{{\"found\": true, \"clause\": {}, \"tried\": {}, \"input\": {{\"template\": {}, \"progress_chars\": \"two-column clusters\", \"pos\": {}, \"len\": {}, \"rendered\": {}}}, \"rerun\": \"replay bar_cells\"}}",
                    crate::js(&format!("C13 {}", b)), tried, crate::js(&t), pos, len, crate::js(&line));
            }
        }
    }
    // the top of the u64 range: the geometry still holds its shape (and nothing panics: C14)
    for chars in ["#>-", "#12345678-"] {
        for (pos, len) in [(u64::MAX, u64::MAX), (u64::MAX / 2, u64::MAX), (u64::MAX / 40, u64::MAX), (u64::MAX - 1, u64::MAX), (1, u64::MAX), (u64::MAX, 1)] {
            for t in ["{bar:20}", "{wide_bar}"] {
                let style = ProgressStyle::with_template(t).unwrap().progress_chars(chars);
                let f = frame(&style, Some(len), pos, "", "", 0, 0, 40);
                tried += 1;
                let line = f.lines.get(0).map(|l| l.1.clone()).unwrap_or_default();
                let want = if t == "{bar:20}" { 20 } else { 40 };
                if line.chars().count() != want {
                    return format!("{{\"found\": true, \"clause\": \"C13 the bar occupies exactly its cells, also at the top of the u64 range\", \"tried\": {}, \"input\": {{\"template\": {}, \"pos\": \"{}\", \"len\": \"{}\", \"rendered\": {}}}, \"rerun\": \"replay bar_cells\"}}",
                        tried, crate::js(t), pos, len, crate::js(&line));
                }
            }
        }
    }
    format!("{{\"found\": false, \"tried\": {}}}", tried)
}


