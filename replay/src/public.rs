//! Routines that use only indicatif's public API: they stay available when the hooks in /verif/hooks no longer
//! compile against the current tree (a private signature changed) and the driver is built without them.
use indicatif::{ProgressState, ProgressStyle};
use std::fmt::Write;

/// C07 bounded stand-in on the real public API: position and length arithmetic (wrapping position, saturating
/// length, set / unset, finish variants), single-threaded.
pub fn pos_arith(_args: &[String]) -> String {
    use indicatif::ProgressBar;
    std::panic::set_hook(Box::new(|_| {}));
    let mut tried = 0u64;
    let vals = [0u64, 1, 7, u64::MAX - 1, u64::MAX];
    for &p0 in &vals {
        for &d in &vals {
            let pb = ProgressBar::hidden();
            pb.set_position(p0);
            pb.inc(d);
            tried += 1;
            if pb.position() != p0.wrapping_add(d) {
                return format!("{{\"found\": true, \"clause\": \"C07 inc wraps modulo 2^64\", \"input\": {{\"position\": \"{}\", \"delta\": \"{}\", \"got\": \"{}\"}}, \"rerun\": \"replay pos_arith\"}}", p0, d, pb.position());
            }
            let pb = ProgressBar::hidden();
            pb.set_position(p0);
            pb.dec(d);
            tried += 1;
            if pb.position() != p0.wrapping_sub(d) {
                return format!("{{\"found\": true, \"clause\": \"C07 dec wraps modulo 2^64 without panicking\", \"input\": {{\"position\": \"{}\", \"delta\": \"{}\", \"got\": \"{}\"}}, \"rerun\": \"replay pos_arith\"}}", p0, d, pb.position());
            }
            for len0 in [None, Some(p0)] {
                let pb = ProgressBar::hidden();
                if let Some(l) = len0 { pb.set_length(l); }
                pb.inc_length(d);
                let want = len0.map(|l| l.saturating_add(d));
                tried += 1;
                if pb.length() != want {
                    return format!("{{\"found\": true, \"clause\": \"C07 inc_length saturates, an unknown length stays unknown\", \"input\": {{\"length\": \"{:?}\", \"delta\": \"{}\", \"got\": \"{:?}\"}}, \"rerun\": \"replay pos_arith\"}}", len0, d, pb.length());
                }
                let pb = ProgressBar::hidden();
                if let Some(l) = len0 { pb.set_length(l); }
                pb.dec_length(d);
                let want = len0.map(|l| l.saturating_sub(d));
                tried += 1;
                if pb.length() != want {
                    return format!("{{\"found\": true, \"clause\": \"C07 dec_length saturates at zero\", \"input\": {{\"length\": \"{:?}\", \"delta\": \"{}\", \"got\": \"{:?}\"}}, \"rerun\": \"replay pos_arith\"}}", len0, d, pb.length());
                }
            }
        }
    }
    // a history: inc; dec below zero; inc back
    let pb = ProgressBar::hidden();
    pb.inc(5); pb.dec(7); pb.inc(7);
    tried += 1;
    if pb.position() != 5 {
        return format!("{{\"found\": true, \"clause\": \"C07 position arithmetic is modular: inc(5); dec(7); inc(7) == 5\", \"input\": {{\"got\": \"{}\"}}, \"rerun\": \"replay pos_arith\"}}", pb.position());
    }
    // finish variants: position == length for finish*, unchanged for abandon*
    for v in 0..5 {
        let pb = ProgressBar::hidden();
        pb.set_length(10);
        pb.set_position(3);
        match v { 0 => pb.finish(), 1 => pb.finish_with_message("m"), 2 => pb.finish_and_clear(), 3 => pb.abandon(), _ => pb.abandon_with_message("m") }
        let want = if v <= 2 { 10 } else { 3 };
        tried += 1;
        if pb.position() != want || pb.length() != Some(10) || !pb.is_finished() {
            return format!("{{\"found\": true, \"clause\": \"C07/C04 finish variants move the position to the length, abandon variants leave it\", \"input\": {{\"variant\": {}, \"position\": \"{}\"}}, \"rerun\": \"replay pos_arith\"}}", v, pb.position());
        }
    }
    format!("{{\"found\": false, \"tried\": {}}}", tried)
}

/// C07: position() and length() against the history-defined model, for every history of up to 4 operations out of 15
/// (boundary arguments), on a hidden and on a visible (in-memory) bar.
pub fn pos_history(_args: &[String]) -> String {
    use indicatif::{InMemoryTerm, ProgressBar, ProgressDrawTarget};
    std::panic::set_hook(Box::new(|_| {}));
    let mut tried = 0u64;
    const M: u64 = u64::MAX;
    let names = ["inc(3)", "inc(MAX)", "dec(2)", "dec(MAX-1)", "set_position(7)", "set_position(MAX)", "set_length(5)", "set_length(0)",
        "inc_length(2)", "inc_length(MAX)", "dec_length(4)", "unset_length", "reset", "finish", "abandon"];
    let n = names.len();
    for visible in [false, true] {
        for a in 0..n { for b in 0..n { for c in 0..n { for d in [0usize, 2, 6, 10, 13] {
            let pb = if visible {
                ProgressBar::with_draw_target(Some(10), ProgressDrawTarget::term_like(Box::new(InMemoryTerm::new(10, 40))))
            } else {
                let pb = ProgressBar::hidden(); pb.set_length(10); pb
            };
            let (mut pos, mut len): (u64, Option<u64>) = (0, Some(10));
            let mut fin = false;
            let mut hist: Vec<&str> = vec![];
            for op in [a, b, c, d] {
                match op {
                    0 => { pb.inc(3); pos = pos.wrapping_add(3); }
                    1 => { pb.inc(M); pos = pos.wrapping_add(M); }
                    2 => { pb.dec(2); pos = pos.wrapping_sub(2); }
                    3 => { pb.dec(M - 1); pos = pos.wrapping_sub(M - 1); }
                    4 => { pb.set_position(7); pos = 7; }
                    5 => { pb.set_position(M); pos = M; }
                    6 => { pb.set_length(5); len = Some(5); }
                    7 => { pb.set_length(0); len = Some(0); }
                    8 => { pb.inc_length(2); len = len.map(|l| l.saturating_add(2)); }
                    9 => { pb.inc_length(M); len = len.map(|l| l.saturating_add(M)); }
                    10 => { pb.dec_length(4); len = len.map(|l| l.saturating_sub(4)); }
                    11 => { pb.unset_length(); len = None; }
                    12 => { pb.reset(); pos = 0; fin = false; }
                    13 => { pb.finish(); if let Some(l) = len { pos = l; } fin = true; }
                    _ => { pb.abandon(); fin = true; }
                }
                hist.push(names[op]);
                tried += 1;
                if pb.is_finished() != fin {
                    return format!("{{\"found\": true, \"clause\": \"C07/C04 is_finished() is true from finish / abandon until the next reset\", \"input\": {{\"visible\": {}, \"history\": {}, \"expected\": \"is_finished {}\", \"got\": \"is_finished {}\"}}, \"rerun\": \"replay pos_history\"}}",
                        visible, crate::jlist(&hist), fin, pb.is_finished());
                }
                if op >= 13 && pb.position() != pos {
                    return format!("{{\"found\": true, \"clause\": \"C07/C04 finish moves the position to the length (whatever it was before), abandon leaves it\", \"input\": {{\"visible\": {}, \"history\": {}, \"expected\": \"position {} length {:?}\", \"got\": \"position {} length {:?}\"}}, \"rerun\": \"replay pos_history\"}}",
                        visible, crate::jlist(&hist), pos, len, pb.position(), pb.length());
                }
                if pb.position() != pos || pb.length() != len {
                    return format!("{{\"found\": true, \"clause\": \"C07 position() is defined by the history of inc/dec/set_position/reset/finish (wrapping), length() by set_length/inc_length/dec_length/unset_length (saturating)\", \"input\": {{\"visible\": {}, \"history\": {}, \"expected\": \"position {} length {:?}\", \"got\": \"position {} length {:?}\"}}, \"rerun\": \"replay pos_history\"}}",
                        visible, crate::jlist(&hist), pos, len, pb.position(), pb.length());
                }
            }
        }}}}
    }
    format!("{{\"found\": false, \"tried\": {}}}", tried)
}

/// C11: "custom keys ... are ticked and reset together with the bar": a custom tracker logs every tick (with the
/// position it is shown) and every reset; after every history of up to 4 public operations the log equals the
/// model (one tick per update that reaches the bar state, one reset per ProgressBar::reset, nothing for finish).
pub fn tracker_ticks(_args: &[String]) -> String {
    use indicatif::style::ProgressTracker;
    use indicatif::{InMemoryTerm, ProgressBar, ProgressDrawTarget};
    use std::sync::{Arc, Mutex};
    use std::time::Instant;
    std::panic::set_hook(Box::new(|_| {}));
    #[derive(Clone)]
    struct Log(Arc<Mutex<Vec<String>>>);
    impl ProgressTracker for Log {
        fn clone_box(&self) -> Box<dyn ProgressTracker> { Box::new(self.clone()) }
        fn tick(&mut self, state: &ProgressState, _now: Instant) { self.0.lock().unwrap().push(format!("tick@{}", state.pos())); }
        fn reset(&mut self, state: &ProgressState, _now: Instant) { self.0.lock().unwrap().push(format!("reset@{}", state.pos())); }
        fn write(&self, state: &ProgressState, w: &mut dyn Write) { let _ = write!(w, "k{}", state.pos()); }
    }
    let names = ["inc(1)", "tick", "set_message", "set_prefix", "set_length(5)", "inc_length(1)", "dec_length(1)", "unset_length", "set_position(3)", "reset", "finish", "inc(0)"];
    let n = names.len();
    let mut tried = 0u64;
    // order: how the style gets its template and its key (0: template then key; 1: key then template; 2: the template of the
    // bar's own style is replaced while it runs).  Orders 1 and 2 run a sub-family of the histories.
    for order in 0..3 {
    for visible in [false, true] {
        for a in 0..n { for b in 0..n { for c in 0..n { for d in [0usize, 1, 2, 9] {
            if order > 0 && !([0usize, 9, 10].contains(&b) && c == 1 && d == 0) { continue; }
            let log = Log(Arc::new(Mutex::new(vec![])));
            let target = if visible { ProgressDrawTarget::term_like(Box::new(InMemoryTerm::new(10, 40))) } else { ProgressDrawTarget::hidden() };
            let pb = ProgressBar::with_draw_target(Some(10), target);
            match order {
                0 => pb.set_style(ProgressStyle::with_template("{k} {msg}").unwrap().with_key("k", log.clone())),
                1 => pb.set_style(ProgressStyle::default_bar().with_key("k", log.clone()).template("{k} {msg}").unwrap()),
                _ => { pb.set_style(ProgressStyle::with_template("{msg}").unwrap().with_key("k", log.clone())); let st = pb.style().template("{k} {msg}").unwrap(); pb.set_style(st); }
            }
            let mut want: Vec<String> = vec![];
            let mut pos = 0u64;
            let mut hist: Vec<&str> = vec![];
            for op in [a, b, c, d] {
                match op {
                    0 => { pb.inc(1); pos += 1; want.push(format!("tick@{}", pos)); }
                    1 => { pb.tick(); want.push(format!("tick@{}", pos)); }
                    2 => { pb.set_message("m"); want.push(format!("tick@{}", pos)); }
                    3 => { pb.set_prefix("p"); want.push(format!("tick@{}", pos)); }
                    4 => { pb.set_length(5); want.push(format!("tick@{}", pos)); }
                    5 => { pb.inc_length(1); want.push(format!("tick@{}", pos)); }
                    6 => { pb.dec_length(1); want.push(format!("tick@{}", pos)); }
                    7 => { pb.unset_length(); want.push(format!("tick@{}", pos)); }
                    8 => { pb.set_position(3); pos = 3; want.push(format!("tick@{}", pos)); }
                    9 => { pb.reset(); pos = 0; want.push("reset@0".into()); }
                    10 => { let len = pb.length(); pb.finish(); if let Some(l) = len { pos = l; } }
                    _ => { pb.inc(0); want.push(format!("tick@{}", pos)); }
                }
                hist.push(names[op]);
                tried += 1;
                let got = log.0.lock().unwrap().clone();
                if got != want {
                    let w: Vec<&str> = want.iter().map(String::as_str).collect();
                    let g: Vec<&str> = got.iter().map(String::as_str).collect();
                    return format!("{{\"found\": true, \"clause\": \"C11 custom keys are ticked and reset together with the bar\", \"input\": {{\"visible\": {}, \"style_built\": {}, \"history\": {}, \"expected_events\": {}, \"events\": {}}}, \"rerun\": \"replay tracker_ticks\"}}",
                        visible, crate::js(["with_template(..).with_key(..)", "default_bar().with_key(..).template(..)", "pb.style().template(..) on the running bar"][order]), crate::jlist(&hist), crate::jlist(&w), crate::jlist(&g));
                }
            }
        }}}}
    }
    }
    format!("{{\"found\": false, \"tried\": {}}}", tried)
}

/// C15: HumanBytes / BinaryBytes use powers of 1024 (KiB, MiB, ...), DecimalBytes powers of 1000 (kB, MB, ...); below the
/// first threshold the plain number of bytes; two decimals otherwise.  Values around every threshold of both families.
pub fn byte_formatters(_args: &[String]) -> String {
    use indicatif::{BinaryBytes, DecimalBytes, HumanBytes};
    let mut tried = 0u64;
    fn model(n: u64, base: f64, prefixes: &[&str]) -> String {
        let mut v = n as f64;
        if v < base {
            return format!("{} B", n);
        }
        let mut k = 0usize;
        while v >= base && k < prefixes.len() {
            v /= base;
            k += 1;
        }
        format!("{:.2} {}B", v, prefixes[k - 1])
    }
    let bin = ["Ki", "Mi", "Gi", "Ti", "Pi", "Ei", "Zi", "Yi"];
    let dec = ["k", "M", "G", "T", "P", "E", "Z", "Y"];
    let mut vals: Vec<u64> = vec![0, 1, 9, 10, 99, 100, 512, 999, 1000, 1001, 1010, 1023, 1024, 1025, 1100, 1500, 1536, 2047, 2048, 9999, 10000, 65535, 65536];
    for e in 1..=6u32 {
        for base in [1000u64, 1024] {
            if let Some(p) = base.checked_pow(e) {
                for d in [p.wrapping_sub(1), p, p.wrapping_add(1), p / 2 * 3] { vals.push(d); }
            }
        }
    }
    vals.extend([u64::MAX, u64::MAX - 1, u64::MAX / 2, 1u64 << 63]);
    for n in vals {
        for (name, got, want) in [("HumanBytes", HumanBytes(n).to_string(), model(n, 1024.0, &bin)), ("BinaryBytes", BinaryBytes(n).to_string(), model(n, 1024.0, &bin)),
                                  ("DecimalBytes", DecimalBytes(n).to_string(), model(n, 1000.0, &dec))] {
            tried += 1;
            if got != want {
                return format!("{{\"found\": true, \"clause\": \"C15 byte formatters: plain bytes below the family's own threshold (1024 binary / 1000 decimal), two decimals and the family's prefix above\", \"input\": {{\"formatter\": \"{}\", \"bytes\": \"{}\", \"expected\": {}, \"got\": {}}}, \"rerun\": \"replay byte_formatters\"}}",
                    name, n, crate::js(&want), crate::js(&got));
            }
        }
    }
    format!("{{\"found\": false, \"tried\": {}}}", tried)
}

/// C11: {elapsed} / {eta} / {duration} (and the _precise forms) equal the formatted getters at the same instant, also
/// for an unknown length, a finished bar and a bar that has been running for hours (with_elapsed).
pub fn time_keys(_args: &[String]) -> String {
    use indicatif::{FormattedDuration, HumanDuration, InMemoryTerm, ProgressBar, ProgressDrawTarget};
    use std::time::Duration;
    std::panic::set_hook(Box::new(|_| {}));
    let mut tried = 0u64;
    for (len, pos) in [(Some(10u64), 3u64), (None, 7), (Some(10), 10), (Some(0), 0)] {
        for finished in [false, true] {
            for secs in [0u64, 59, 7200, 90061] {
                let mut bad = None;
                for _attempt in 0..4 {
                    let term = InMemoryTerm::new(4, 120);
                    let pb = ProgressBar::with_draw_target(len, ProgressDrawTarget::term_like(Box::new(term.clone()))).with_elapsed(Duration::from_secs(secs));
                    pb.set_style(ProgressStyle::with_template("{elapsed}|{elapsed_precise}|{eta}|{eta_precise}|{duration}|{duration_precise}").unwrap());
                    pb.set_position(pos);
                    if finished { pb.abandon(); } else { pb.tick(); }
                    let got = term.contents();
                    let want = format!("{:#}|{}|{:#}|{}|{:#}|{}", HumanDuration(pb.elapsed()), FormattedDuration(pb.elapsed()), HumanDuration(pb.eta()), FormattedDuration(pb.eta()),
                        HumanDuration(pb.duration()), FormattedDuration(pb.duration()));
                    tried += 1;
                    if got == want { bad = None; break; }
                    bad = Some((want, got));   // a second boundary between the frame and the getters: retried
                }
                if let Some((want, got)) = bad {
                    return format!("{{\"found\": true, \"clause\": \"C11 the elapsed / eta / duration keys equal the formatted getter values at the same instant\", \"input\": {{\"length\": \"{:?}\", \"position\": {}, \"finished\": {}, \"with_elapsed_secs\": {}, \"expected\": {}, \"screen\": {}}}, \"rerun\": \"replay time_keys\"}}",
                        len, pos, finished, secs, crate::js(&want), crate::js(&got));
                }
            }
        }
    }
    format!("{{\"found\": false, \"tried\": {}}}", tried)
}

/// C02: a bar handed to a second MultiProgress leaves the first one (its rows disappear there with the next draw) and
/// shows up in the second; a bar that is added again to the MultiProgress it is a member of keeps its place.
pub fn multi_move(_args: &[String]) -> String {
    use indicatif::{InMemoryTerm, MultiProgress, ProgressBar, ProgressDrawTarget};
    std::panic::set_hook(Box::new(|_| {}));
    let mut tried = 0u64;
    let mkbar = |m: &str| { let pb = ProgressBar::new(10); pb.set_style(ProgressStyle::with_template("{msg} {pos}").unwrap()); pb.set_message(m.to_string()); pb };
    for drawn in [false, true] {
        for how in 0..3 {
            let t1 = InMemoryTerm::new(8, 40);
            let t2 = InMemoryTerm::new(8, 40);
            let mp1 = MultiProgress::with_draw_target(ProgressDrawTarget::term_like(Box::new(t1.clone())));
            let mp2 = MultiProgress::with_draw_target(ProgressDrawTarget::term_like(Box::new(t2.clone())));
            let a = mp1.add(mkbar("a"));
            let b = mp1.add(mkbar("b"));
            let c = mp2.add(mkbar("c"));
            let mut hist = vec!["mp1: bars a, b; mp2: bar c".to_string()];
            if drawn { a.tick(); b.tick(); c.tick(); hist.push("all ticked".into()); }
            let b = match how { 0 => mp2.add(b), 1 => mp2.insert(0, b), _ => mp2.insert_after(&c, b) };
            hist.push(["mp2.add(b)", "mp2.insert(0, b)", "mp2.insert_after(&c, b)"][how].to_string());
            b.inc(3);
            a.tick(); b.tick(); c.tick();
            hist.push("b.inc(3); tick a, b, c".into());
            tried += 1;
            let want1 = "a 0";
            let want2 = if how == 1 { "b 3\nc 0" } else { "c 0\nb 3" };
            let (g1, g2) = (t1.contents(), t2.contents());
            if g1 != want1 || g2 != want2 {
                let h: Vec<&str> = hist.iter().map(String::as_str).collect();
                return format!("{{\"found\": true, \"clause\": \"C02 a bar moved to another MultiProgress is shown there once, in order, and no longer in the first one\", \"input\": {{\"history\": {}, \"expected\": {}, \"screens\": {}}}, \"rerun\": \"replay multi_move\"}}",
                    crate::jlist(&h), crate::js(&format!("mp1: {:?} mp2: {:?}", want1, want2)), crate::js(&format!("mp1: {:?} mp2: {:?}", g1, g2)));
            }
        }
    }
    format!("{{\"found\": false, \"tried\": {}}}", tried)
}

/// C11: {spinner} shows the tick string of the CURRENT style for the number of ticks so far, also after the style was
/// replaced by one with a different number of tick strings (k ticks with n frames, then m frames).
pub fn spinner_ticks(_args: &[String]) -> String {
    use indicatif::{InMemoryTerm, ProgressBar, ProgressDrawTarget};
    std::panic::set_hook(Box::new(|_| {}));
    let mut tried = 0u64;
    let sets: [&[&str]; 4] = [&["a0", "a1", "a2", "A"], &["b0", "b1", "b2", "b3", "b4", "B"], &["c0", "C"], &["0", "1", "2", "3", "D"]];
    for (i, first) in sets.iter().enumerate() {
        for (j, second) in sets.iter().enumerate() {
            for k in [0u64, 1, 2, 3, 4, 5, 7, 31] {
                let term = InMemoryTerm::new(4, 40);
                let pb = ProgressBar::with_draw_target(None, ProgressDrawTarget::term_like(Box::new(term.clone())));
                pb.set_style(ProgressStyle::with_template("{spinner}|").unwrap().tick_strings(first));
                for _ in 0..k { pb.tick(); }
                let s2 = ProgressStyle::with_template("{spinner}|").unwrap().tick_strings(second);
                // the running frames are all strings but the last one, shown in turn; the last one is the final string
                let frames = &second[..second.len() - 1];
                let want_running = format!("{}|", frames[((k + 1) % frames.len() as u64) as usize]);
                if s2.get_tick_str(k + 1) != frames[((k + 1) % frames.len() as u64) as usize] || s2.get_final_tick_str() != second[second.len() - 1] {
                    return format!("{{\"found\": true, \"clause\": \"C11 get_tick_str / get_final_tick_str: running frames are all tick strings but the last, the last is the final one\", \"input\": {{\"tick_set\": {}, \"tick\": {}, \"get_tick_str\": {}, \"get_final_tick_str\": {}}}, \"rerun\": \"replay spinner_ticks\"}}",
                        j, k + 1, crate::js(s2.get_tick_str(k + 1)), crate::js(s2.get_final_tick_str()));
                }
                pb.set_style(s2.clone());
                pb.tick();
                tried += 1;
                let got = term.contents();
                if got != want_running {
                    return format!("{{\"found\": true, \"clause\": \"C11 spinner shows the current style's tick string for the current tick count\", \"input\": {{\"history\": \"{} ticks with tick set #{}, set_style(tick set #{}), tick\", \"expected\": {}, \"screen\": {}}}, \"rerun\": \"replay spinner_ticks\"}}",
                        k, i, j, crate::js(&want_running), crate::js(&got));
                }
                pb.finish();
                tried += 1;
                let want_final = format!("{}|", second[second.len() - 1]);
                let got = term.contents();
                if got != want_final {
                    return format!("{{\"found\": true, \"clause\": \"C11 spinner shows the final tick string once finished\", \"input\": {{\"history\": \"{} ticks with tick set #{}, set_style(tick set #{}), tick, finish\", \"expected\": {}, \"screen\": {}}}, \"rerun\": \"replay spinner_ticks\"}}",
                        k, i, j, crate::js(&want_final), crate::js(&got));
                }
            }
        }
    }
    format!("{{\"found\": false, \"tried\": {}}}", tried)
}

/// C07: concurrent inc / dec from several threads and clones are never lost: the final position is defined by the
/// multiset of calls (three mixes, 8 threads x 20000 calls each; lost updates show up as a wrong total).
pub fn pos_concurrent(_args: &[String]) -> String {
    use indicatif::ProgressBar;
    use std::thread;
    std::panic::set_hook(Box::new(|_| {}));
    let mut tried = 0u64;
    for mix in 0..3 {
        for _round in 0..3 {
            let pb = ProgressBar::hidden();
            pb.set_length(1 << 40);
            pb.set_position(1_000_000);
            let mut hs = vec![];
            for t in 0..8u64 {
                let p = pb.clone();
                hs.push(thread::spawn(move || {
                    for i in 0..20000u64 {
                        match mix {
                            0 => p.inc(1),
                            1 => if t % 2 == 0 { p.inc(2) } else { p.dec(1) },
                            _ => if (i + t) % 3 == 0 { p.dec(3) } else { p.inc(2) },
                        }
                    }
                }));
            }
            for h in hs { let _ = h.join(); }
            let want: u64 = match mix {
                0 => 1_000_000 + 8 * 20000,
                1 => 1_000_000 + 4 * 20000 * 2 - 4 * 20000,
                _ => {
                    let mut v: i64 = 1_000_000;
                    for t in 0..8u64 { for i in 0..20000u64 { if (i + t) % 3 == 0 { v -= 3 } else { v += 2 } } }
                    v as u64
                }
            };
            tried += 1;
            if pb.position() != want {
                return format!("{{\"found\": true, \"clause\": \"C07 concurrent inc / dec calls are never lost\", \"input\": {{\"mix\": {}, \"threads\": 8, \"calls_per_thread\": 20000, \"expected\": \"{}\", \"got\": \"{}\"}}, \"rerun\": \"replay pos_concurrent\"}}",
                    mix, want, pb.position());
            }
        }
    }
    format!("{{\"found\": false, \"tried\": {}}}", tried)
}

/// C06: a bar on a terminal that is not a tty (console::Term over a plain file) is hidden: no call writes a byte to it,
/// is_hidden() is true, and the getters equal those of a visible bar after the same calls; standalone and as members of a
/// MultiProgress on such a terminal.
pub fn term_not_tty(_args: &[String]) -> String {
    use indicatif::{InMemoryTerm, MultiProgress, ProgressBar, ProgressDrawTarget, ProgressFinish};
    use std::io::{Read, Seek, SeekFrom};
    std::panic::set_hook(Box::new(|_| {}));
    let mut tried = 0u64;
    let dir = std::env::temp_dir();
    let mkterm = |tag: &str| {
        let path = dir.join(format!("verif-replay-notty-{}-{}", std::process::id(), tag));
        let f = std::fs::OpenOptions::new().create(true).truncate(true).read(true).write(true).open(&path).unwrap();
        let r = f.try_clone().unwrap();
        let w = f.try_clone().unwrap();
        (console::Term::read_write_pair(r, w), f, path)
    };
    let ops: Vec<(&str, Box<dyn Fn(&ProgressBar)>)> = vec![
        ("inc(2)", Box::new(|p| p.inc(2))), ("set_message(m)", Box::new(|p| p.set_message("m"))), ("tick", Box::new(|p| p.tick())), ("println(x)", Box::new(|p| p.println("x"))),
        ("suspend", Box::new(|p| p.suspend(|| ()))), ("set_tab_width(3)", Box::new(|p| p.set_tab_width(3))), ("finish", Box::new(|p| p.finish())),
        ("finish_with_message(done)", Box::new(|p| p.finish_with_message("done"))), ("abandon", Box::new(|p| p.abandon())), ("finish_and_clear", Box::new(|p| p.finish_and_clear())), ("reset", Box::new(|p| p.reset())),
    ];
    for multi in [false, true] {
        for i in 0..ops.len() {
            for j in 0..ops.len() {
                let (term, mut file, path) = mkterm(&format!("{}-{}-{}", multi as u8, i, j));
                let vis = ProgressBar::with_draw_target(Some(10), ProgressDrawTarget::term_like(Box::new(InMemoryTerm::new(10, 40)))).with_finish(ProgressFinish::AndLeave);
                let mp;
                let hid = if multi {
                    mp = Some(MultiProgress::with_draw_target(ProgressDrawTarget::term(term, 20)));
                    mp.as_ref().unwrap().add(ProgressBar::new(10).with_finish(ProgressFinish::AndLeave))
                } else {
                    mp = None;
                    ProgressBar::with_draw_target(Some(10), ProgressDrawTarget::term(term, 20)).with_finish(ProgressFinish::AndLeave)
                };
                let mut hist = vec![if multi { "member of a MultiProgress on a console::Term over a plain file" } else { "bar on a console::Term over a plain file" }];
                for k in [i, j] { (ops[k].1)(&vis); (ops[k].1)(&hid); hist.push(ops[k].0); }
                if let Some(m) = &mp { let _ = m.println("log"); m.suspend(|| ()); hist.push("mp.println(log); mp.suspend"); }
                // handing the bar / the MultiProgress another target: the old (non-tty) terminal still sees nothing
                if (i + j) % 2 == 0 {
                    if let Some(m) = &mp { m.set_draw_target(ProgressDrawTarget::hidden()); hist.push("mp.set_draw_target(hidden)"); }
                    else { hid.set_draw_target(ProgressDrawTarget::hidden()); hist.push("set_draw_target(hidden)"); }
                }
                let g = (vis.position(), vis.length(), vis.message(), vis.prefix(), vis.is_finished());
                let h = (hid.position(), hid.length(), hid.message(), hid.prefix(), hid.is_finished());
                let hidden = hid.is_hidden();
                drop(hid);
                hist.push("drop the bar");
                // a MultiProgress that outlives its (possibly visibly finished, now reaped) bar, prints and is then re-targeted
                if let Some(m) = &mp { let _ = m.println("after the drop"); m.set_draw_target(ProgressDrawTarget::hidden()); hist.push("mp.println(after the drop); mp.set_draw_target(hidden)"); }
                drop(mp);
                let mut written = String::new();
                let _ = file.seek(SeekFrom::Start(0));
                let _ = file.read_to_string(&mut written);
                let _ = std::fs::remove_file(&path);
                tried += 1;
                if !written.is_empty() || !hidden || g != h {
                    return format!("{{\"found\": true, \"clause\": \"C06 a bar on a terminal that is not a tty performs no terminal write, reports is_hidden() and keeps the same logical state as a visible bar\", \"input\": {{\"history\": {}, \"bytes_written\": {}, \"is_hidden\": {}, \"visible_getters\": {}, \"hidden_getters\": {}}}, \"rerun\": \"replay term_not_tty\"}}",
                        crate::jlist(&hist), crate::js(&written), hidden, crate::js(&format!("{:?}", g)), crate::js(&format!("{:?}", h)));
                }
            }
        }
    }
    format!("{{\"found\": false, \"tried\": {}}}", tried)
}

/// C02 / C04: the life of bars in a MultiProgress against a simple model: the screen shows, in the order the bars were
/// added, the last rendering of every bar that is alive or was finished visibly (also after its last handle is gone); bars
/// that were dropped unfinished (default finish: clear) or cleared disappear; new bars go to the end whatever slots were
/// recycled.  Every history of up to 6 operations out of 9 on up to 5 bars.
pub fn multi_life(_args: &[String]) -> String {
    use indicatif::{InMemoryTerm, MultiProgress, ProgressBar, ProgressDrawTarget};
    std::panic::set_hook(Box::new(|_| {}));
    let mut tried = 0u64;
    // ops: 0 add a bar, 1 finish(first alive unfinished), 2 finish(last alive unfinished), 3 drop(first alive), 4 drop(last alive),
    //      5 inc(first alive unfinished), 6 inc(last alive unfinished), 7 finish_and_clear(first alive unfinished), 8 tick every alive bar,
    //      9 println through the first alive bar (only before any drop), 10 drop(second alive)
    struct B { name: String, pb: Option<ProgressBar>, pos: u64, finished: bool, visible: bool }
    let run = |ops: &[usize], lazy: bool, tried: &mut u64| -> Option<String> {
        let term = InMemoryTerm::new(12, 40);
        let mp = MultiProgress::with_draw_target(ProgressDrawTarget::term_like(Box::new(term.clone())));
        let mut bars: Vec<B> = vec![];
        let mut hist: Vec<String> = vec![if lazy { "(no ticks between the operations)".to_string() } else { "(every alive unfinished bar ticks after each operation)".to_string() }];
        let mut logs: Vec<String> = vec![];
        let mut dropped_any = false;
        let mut add = |bars: &mut Vec<B>, hist: &mut Vec<String>| {
            let name = format!("b{}", bars.len());
            let pb = mp.add(ProgressBar::new(10));
            pb.set_style(ProgressStyle::with_template("{msg} {pos}/{len}").unwrap());
            pb.set_message(name.clone());
            hist.push(format!("add {}", name));
            bars.push(B { name, pb: Some(pb), pos: 0, finished: false, visible: true });
        };
        add(&mut bars, &mut hist);
        add(&mut bars, &mut hist);
        for (step, op) in ops.iter().enumerate() {
            let alive: Vec<usize> = (0..bars.len()).filter(|i| bars[*i].pb.is_some()).collect();
            let unfinished: Vec<usize> = alive.iter().copied().filter(|i| !bars[*i].finished).collect();
            match *op {
                0 => { if bars.len() >= 5 { return None; } add(&mut bars, &mut hist); }
                1 | 2 => { let i = *(if *op == 1 { unfinished.first() } else { unfinished.last() })?; bars[i].pb.as_ref().unwrap().finish(); bars[i].finished = true; bars[i].pos = 10; hist.push(format!("{}.finish()", bars[i].name)); }
                3 | 4 | 10 => { let i = *(if *op == 3 { alive.first() } else if *op == 4 { alive.last() } else { alive.get(1) })?; dropped_any = true; bars[i].pb = None; if !bars[i].finished { bars[i].visible = false; } hist.push(format!("drop {}", bars[i].name)); }
                5 | 6 => { let i = *(if *op == 5 { unfinished.first() } else { unfinished.last() })?; bars[i].pb.as_ref().unwrap().inc(1); bars[i].pos += 1; hist.push(format!("{}.inc(1)", bars[i].name)); }
                7 => { let i = *unfinished.first()?; bars[i].pb.as_ref().unwrap().finish_and_clear(); bars[i].finished = true; bars[i].visible = false; bars[i].pos = 10; hist.push(format!("{}.finish_and_clear()", bars[i].name)); }
                9 => {
                    // a line printed through a member bar (finished or not); only while no bar has been dropped: println next to
                    // dropped finished bars is where the listed C03 findings live
                    if dropped_any { return None; }
                    let i = *alive.first()?;
                    let t = format!("log-{}", step);
                    bars[i].pb.as_ref().unwrap().println(&t);
                    logs.push(t.clone());
                    hist.push(format!("{}.println({:?})", bars[i].name, t));
                }
                _ => { hist.push("tick every alive bar".into()); }
            }
            if lazy && step + 1 != ops.len() {
                continue;
            }
            for b in bars.iter() { if let Some(pb) = &b.pb { if !b.finished { pb.tick(); } } }
            if lazy && bars.iter().all(|b| b.pb.is_none() || b.finished) {
                return None;   // nothing left that could draw: the screen is only defined after a draw
            }
            *tried += 1;
            // a bar that was never drawn while it was the only thing alive may still be invisible: every alive bar is ticked above
            let mut want: Vec<String> = logs.clone();
            want.extend(bars.iter().filter(|b| b.visible).map(|b| format!("{} {}/10", b.name, b.pos)));
            let want = want.join("\n");
            let got = term.contents();
            if got != want {
                let h: Vec<&str> = hist.iter().map(String::as_str).collect();
                return Some(format!("{{\"found\": true, \"clause\": \"C02 every visible member once, in the order of insertion, whatever slots were recycled; C04 visibly finished bars keep their final rendering after their handles are gone\", \"input\": {{\"history\": {}, \"expected_screen\": {}, \"screen\": {}}}, \"rerun\": \"replay multi_life\"}}",
                    crate::jlist(&h), crate::js(&want), crate::js(&got)));
            }
        }
        None
    };
    for a in 0..11 { for b in 0..11 { for c in 0..11 { for d in 0..11 { for e in [0usize, 3, 5, 10] { for f in [0usize, 4, 6, 8] {
        if let Some(r) = run(&[a, b, c, d, e, f], false, &mut tried) { return r; }
    }}}}}}
    // the same operations without a draw in between (reaping of dropped bars is deferred to the one draw at the end);
    // three bars more at the start so that there is a middle to drop
    let l = [0usize, 1, 2, 3, 4, 5, 7, 10];
    for a in l { for b in l { for c in l { for d in l { for e in l { for f in [3usize, 4, 10] {
        if let Some(r) = run(&[0, a, b, c, d, e, f, 8], true, &mut tried) { return r; }
    }}}}}}
    format!("{{\"found\": false, \"tried\": {}}}", tried)
}

/// C04 / C02 / C03 in cursor-moving mode (set_move_cursor(true)), restricted to frames that go away: a clearing finish, a
/// dropped unfinished bar, clear() and suspend() leave nothing of the bars behind; the closure's output is not mixed with them.
pub fn multi_movecursor(_args: &[String]) -> String {
    use indicatif::{InMemoryTerm, MultiProgress, ProgressBar, ProgressDrawTarget, TermLike};
    std::panic::set_hook(Box::new(|_| {}));
    let mut tried = 0u64;
    // one bar only: the documentation of set_move_cursor rules out changing the number of bars in this mode (a frame that
    // shrinks from two bars to one leaves the second row behind: documented, not reported)
    for nbars in 1usize..=1 {
        for how in 0..5 {
            let term = InMemoryTerm::new(8, 40);
            let mp = MultiProgress::with_draw_target(ProgressDrawTarget::term_like(Box::new(term.clone())));
            mp.set_move_cursor(true);
            let mut bars: Vec<ProgressBar> = (0..nbars).map(|i| {
                let pb = mp.add(ProgressBar::new(10));
                pb.set_style(ProgressStyle::with_template("{msg} working {pos}").unwrap());
                pb.set_message(format!("bar{}", i));
                pb
            }).collect();
            for b in &bars { b.tick(); }
            let mut hist = vec![format!("set_move_cursor(true); {} bar(s) ticked", nbars)];
            let want: String = match how {
                0 => { for b in &bars { b.finish_and_clear(); } hist.push("finish_and_clear on every bar".into()); String::new() }
                1 => { bars.clear(); hist.push("drop every bar (default finish: clear)".into()); String::new() }
                2 => { let _ = mp.clear(); hist.push("mp.clear()".into()); String::new() }
                3 => { let t = term.clone(); mp.suspend(|| { let _ = t.write_line("hi"); }); let _ = mp.clear(); hist.push("mp.suspend(|| write_line(hi)); mp.clear()".into()); "hi".to_string() }
                _ => { for b in &bars { b.finish_and_clear(); } let _ = mp.println("done"); hist.push("finish_and_clear on every bar; mp.println(done)".into()); "done".to_string() }
            };
            tried += 1;
            let got = term.contents();
            if got != want {
                let h: Vec<&str> = hist.iter().map(String::as_str).collect();
                return format!("{{\"found\": true, \"clause\": \"C04/C02 in cursor-moving mode a frame that goes away (clearing finish, dropped bar, clear, suspend) leaves nothing of the bars on the screen (C03: what is printed afterwards is intact)\", \"input\": {{\"history\": {}, \"expected_screen\": {}, \"screen\": {}}}, \"rerun\": \"replay multi_movecursor\"}}",
                    crate::jlist(&h), crate::js(&want), crate::js(&got));
            }
        }
    }
    format!("{{\"found\": false, \"tried\": {}}}", tried)
}

/// C09: duration equals elapsed plus eta (up to the clock reads in between), also after with_elapsed, reset_eta and
/// reset_elapsed; eta and duration are zero for an unknown length and for a finished bar.
pub fn time_laws(_args: &[String]) -> String {
    use indicatif::ProgressBar;
    use std::time::Duration;
    let mut tried = 0u64;
    for pre in [0u64, 90, 7200] {
        for how in 0..4 {
            let pb = ProgressBar::hidden().with_elapsed(Duration::from_secs(pre));
            pb.set_length(1000);
            let mut hist = vec![format!("hidden bar with_elapsed({} s), length 1000", pre)];
            for _ in 0..5 { pb.inc(10); std::thread::sleep(Duration::from_millis(4)); }
            hist.push("5 x (inc(10); sleep 4 ms)".into());
            match how { 1 => { pb.reset_eta(); hist.push("reset_eta".into()); } 2 => { pb.reset_elapsed(); hist.push("reset_elapsed".into()); } 3 => { pb.set_position(5); hist.push("set_position(5) (a backwards seek)".into()); } _ => {} }
            for _ in 0..5 { pb.inc(10); std::thread::sleep(Duration::from_millis(4)); }
            hist.push("5 x (inc(10); sleep 4 ms)".into());
            let e1 = pb.elapsed();
            let eta = pb.eta();
            let d = pb.duration();
            let e2 = pb.elapsed();
            tried += 1;
            // elapsed grows between the reads and eta moves with the clock: allow 250 ms either way
            let slack = Duration::from_millis(250);
            let lo = (e1 + eta).checked_sub(slack).unwrap_or_default();
            let hi = e2 + eta + slack;
            if d < lo || d > hi {
                let h: Vec<&str> = hist.iter().map(String::as_str).collect();
                return format!("{{\"found\": true, \"clause\": \"C09 duration equals elapsed plus eta\", \"input\": {{\"history\": {}, \"elapsed_ms\": {}, \"eta_ms\": {}, \"duration_ms\": {}}}, \"rerun\": \"replay time_laws\"}}",
                    crate::jlist(&h), e1.as_millis(), eta.as_millis(), d.as_millis());
            }
            pb.finish();
            tried += 1;
            if pb.eta() != Duration::ZERO || pb.duration() != Duration::ZERO {
                return format!("{{\"found\": true, \"clause\": \"C09 eta and duration are zero once the bar is finished\", \"input\": {{\"with_elapsed_secs\": {}, \"eta_ms\": {}, \"duration_ms\": {}}}, \"rerun\": \"replay time_laws\"}}", pre, pb.eta().as_millis(), pb.duration().as_millis());
            }
        }
        let pb = ProgressBar::hidden().with_elapsed(Duration::from_secs(pre));
        pb.unset_length();
        pb.inc(3);
        tried += 1;
        if pb.eta() != Duration::ZERO || pb.duration() != Duration::ZERO {
            return format!("{{\"found\": true, \"clause\": \"C09 eta and duration are zero for an unknown length\", \"input\": {{\"with_elapsed_secs\": {}, \"eta_ms\": {}, \"duration_ms\": {}}}, \"rerun\": \"replay time_laws\"}}", pre, pb.eta().as_millis(), pb.duration().as_millis());
        }
    }
    // eta = remaining steps / rate, also for lengths beyond 2^24 (f32 resolution) with only a few steps to go
    for (len, left) in [(100_000_000u64, 4u64), (1u64 << 40, 1000), (1000, 4)] {
        let pb = ProgressBar::hidden();
        pb.set_length(len);
        pb.set_position(len - left - 40);
        pb.reset_eta();     // the jump to the start position is not progress
        for _ in 0..4 { std::thread::sleep(Duration::from_millis(5)); pb.inc(10); }
        let r1 = pb.per_sec();
        let eta = pb.eta().as_secs_f64();
        let r2 = pb.per_sec();
        tried += 1;
        // the rate only decays between the two reads: eta lies between left / r1 and left / r2 (1 % slack)
        let (lo, hi) = (left as f64 / r1 * 0.99 - 1e-6, left as f64 / r2 * 1.01 + 1e-6);
        if !(r1 > 0.0 && r2 > 0.0 && eta >= lo.min(hi) && eta <= hi.max(lo)) {
            return format!("{{\"found\": true, \"clause\": \"C09 eta equals the remaining steps divided by the rate\", \"input\": {{\"length\": \"{}\", \"steps_left\": {}, \"rate_before\": {}, \"rate_after\": {}, \"eta_secs\": {}}}, \"rerun\": \"replay time_laws\"}}", len, left, r1, r2, eta);
        }
    }
    // a bar created with_elapsed reports the same rate as a twin without it for the same updates
    {
        let a = ProgressBar::hidden().with_elapsed(Duration::from_secs(3600));
        let b = ProgressBar::hidden();
        a.set_length(1_000_000); b.set_length(1_000_000);
        for _ in 0..6 { std::thread::sleep(Duration::from_millis(5)); a.inc(100); b.inc(100); }
        let (ra, rb) = (a.per_sec(), b.per_sec());
        tried += 1;
        if !(ra > 0.0 && rb > 0.0 && ra / rb < 4.0 && rb / ra < 4.0) {
            return format!("{{\"found\": true, \"clause\": \"C09 the rate depends on the progress seen, not on the elapsed time the bar was created with\", \"input\": {{\"history\": \"twin bars, one with_elapsed(1 h); 6 x (sleep 5 ms; inc(100)) on both\", \"rate_with_elapsed\": {}, \"rate_plain\": {}}}, \"rerun\": \"replay time_laws\"}}", ra, rb);
        }
    }
    // a bar abandoned part-way reports the average over the steps it did, not over its length
    {
        let pb = ProgressBar::hidden();
        pb.set_length(1_000_000);
        let t0 = std::time::Instant::now();
        for _ in 0..5 { std::thread::sleep(Duration::from_millis(4)); pb.inc(200); }
        pb.abandon();
        tried += 1;
        if pb.eta() != Duration::ZERO {
            return format!("{{\"found\": true, \"clause\": \"C09 eta is zero once the bar is finished, also for a bar abandoned part-way\", \"input\": {{\"history\": \"length 1000000; 5 x (sleep 4 ms; inc(200)); abandon\", \"eta_ms\": {}}}, \"rerun\": \"replay time_laws\"}}", pb.eta().as_millis());
        }
        {
            let q = ProgressBar::hidden();
            q.set_length(100);
            for _ in 0..3 { std::thread::sleep(Duration::from_millis(3)); q.inc(10); }
            q.finish();
            q.inc_length(50);
            tried += 1;
            if q.eta() != Duration::ZERO {
                return format!("{{\"found\": true, \"clause\": \"C09 eta is zero once the bar is finished, also when its length grows afterwards\", \"input\": {{\"history\": \"length 100; 3 x (sleep 3 ms; inc(10)); finish; inc_length(50)\", \"eta_ms\": {}}}, \"rerun\": \"replay time_laws\"}}", q.eta().as_millis());
            }
            let q = ProgressBar::hidden();
            q.set_length(100);
            for _ in 0..3 { std::thread::sleep(Duration::from_millis(3)); q.inc(10); }
            q.abandon_with_message("stopped");
            tried += 1;
            if q.eta() != Duration::ZERO || q.duration() != Duration::ZERO {
                return format!("{{\"found\": true, \"clause\": \"C09 eta and duration are zero once the bar is finished (abandon_with_message part-way)\", \"input\": {{\"history\": \"length 100; 3 x (sleep 3 ms; inc(10)); abandon_with_message\", \"eta_ms\": {}, \"duration_ms\": {}}}, \"rerun\": \"replay time_laws\"}}", q.eta().as_millis(), q.duration().as_millis());
            }
        }
        let r = pb.per_sec();
        let upper = 1000.0 / 0.020;                       // 1000 steps in at least 20 ms
        let lower = 1000.0 / (t0.elapsed().as_secs_f64() + 0.001) / 2.0;
        tried += 1;
        if !(r.is_finite() && r <= upper * 1.01 && r >= lower) {
            return format!("{{\"found\": true, \"clause\": \"C09 the rate of a finished bar is its average over the steps done\", \"input\": {{\"history\": \"length 1000000; 5 x (sleep 4 ms; inc(200)); abandon\", \"reported\": {}, \"at_most\": {}}}, \"rerun\": \"replay time_laws\"}}", r, upper);
        }
    }
    // hidden and throttled bars (their draws are skipped): the getters are evaluated at the query instant all the same
    for kind in 0..2 {
        for how in 0..3 {
            let pb = if kind == 0 { ProgressBar::hidden() } else {
                ProgressBar::with_draw_target(None, indicatif::ProgressDrawTarget::term_like_with_hz(Box::new(indicatif::InMemoryTerm::new(4, 40)), 1))
            };
            pb.set_length(1000);
            for _ in 0..70 { pb.tick(); }          // uses up the burst of the throttled target
            for _ in 0..6 { std::thread::sleep(Duration::from_millis(4)); pb.inc(10); }
            let what = ["6 x (sleep 4 ms; inc(10))", "6 x (sleep 4 ms; inc(10)); reset_eta()", "6 x (sleep 4 ms; inc(10)); reset()"][how];
            match how { 1 => pb.reset_eta(), 2 => pb.reset(), _ => {} }
            let (r, e1, d) = (pb.per_sec(), pb.elapsed(), pb.duration());
            tried += 1;
            if !(r.is_finite() && r >= 0.0) || d + Duration::from_millis(1) < e1 {
                return format!("{{\"found\": true, \"clause\": \"C09 per_sec is finite and non-negative and duration is at least elapsed, also for a bar whose draws are skipped\", \"input\": {{\"bar\": \"{}\", \"history\": \"{}\", \"per_sec\": \"{}\", \"elapsed_ms\": {}, \"duration_ms\": {}}}, \"rerun\": \"replay time_laws\"}}",
                    if kind == 0 { "hidden" } else { "1 Hz target, burst used up" }, what, r, e1.as_millis(), d.as_millis());
            }
            if how == 0 {
                let r1 = pb.per_sec();
                std::thread::sleep(Duration::from_millis(150));
                let r2 = pb.per_sec();
                tried += 1;
                if !(r1 > 0.0 && r2 != r1) {
                    return format!("{{\"found\": true, \"clause\": \"C09 the rate is evaluated at the query instant: it moves while progress stalls, also for a bar whose draws are skipped\", \"input\": {{\"bar\": \"{}\", \"history\": \"{}; per_sec(); sleep 150 ms; per_sec()\", \"first\": \"{}\", \"second\": \"{}\"}}, \"rerun\": \"replay time_laws\"}}",
                        if kind == 0 { "hidden" } else { "1 Hz target, burst used up" }, what, r1, r2);
                }
            }
        }
    }
    // an ETA too long for a Duration saturates; it does not become zero
    {
        let pb = ProgressBar::hidden();
        pb.set_length(u64::MAX);
        // one step in at least 1.2 s: fewer than 0.84 steps per second, so the remaining 2^64 - 2 steps take more than 2^64 s
        std::thread::sleep(Duration::from_millis(1200));
        pb.inc(1);
        tried += 1;
        let eta = pb.eta();
        if eta < Duration::from_secs(1 << 63) {
            return format!("{{\"found\": true, \"clause\": \"C09 eta is the remaining steps at the current rate, saturating for values a Duration cannot hold\", \"input\": {{\"history\": \"length u64::MAX; sleep 1.2 s; inc(1)\", \"eta_secs\": {}}}, \"rerun\": \"replay time_laws\"}}", eta.as_secs());
        }
    }
    format!("{{\"found\": false, \"tried\": {}}}", tried)
}

/// C03: what the suspend closure writes stays, also when finished bars that were dropped have left their last frame on the
/// screen (suspend wipes those rows together with the live bars; nothing printed afterwards may land on them).
pub fn multi_suspend(_args: &[String]) -> String {
    use indicatif::{InMemoryTerm, MultiProgress, ProgressBar, ProgressDrawTarget, TermLike};
    std::panic::set_hook(Box::new(|_| {}));
    let mut tried = 0u64;
    for nzombies in 0usize..=2 {
        for after in 0..4 {
            for member in [false, true] {
                let term = InMemoryTerm::new(10, 40);
                let mp = MultiProgress::with_draw_target(ProgressDrawTarget::term_like(Box::new(term.clone())));
                let mk = |m: &str| { let pb = mp.add(ProgressBar::new(10)); pb.set_style(ProgressStyle::with_template("{msg} {pos}").unwrap()); pb.set_message(m.to_string()); pb.tick(); pb };
                let mut heads: Vec<ProgressBar> = (0..nzombies).map(|i| mk(&format!("z{}", i))).collect();
                let live = mk("live");
                let mut hist = vec![format!("{} bar(s) z0.. and a bar live, all ticked", nzombies)];
                // the head bars finish visibly and are dropped from the top: each is reaped at once and stays as static text
                while !heads.is_empty() { let h = heads.remove(0); h.finish(); drop(h); }
                if nzombies > 0 { hist.push("finish and drop z0.. from the top".into()); }
                let t = term.clone();
                if member { live.suspend(|| { let _ = t.write_line("from suspend"); }); hist.push("live.suspend(|| write_line(from suspend))".into()); }
                else { mp.suspend(|| { let _ = t.write_line("from suspend"); }); hist.push("mp.suspend(|| write_line(from suspend))".into()); }
                let mut logs = vec!["from suspend".to_string()];
                match after {
                    0 => { let _ = mp.println("printed"); logs.push("printed".into()); hist.push("mp.println(printed)".into()); }
                    1 => { live.println("through bar"); logs.push("through bar".into()); hist.push("live.println(through bar)".into()); }
                    2 => { let _ = mp.clear(); live.tick(); hist.push("mp.clear(); live.tick()".into()); }
                    _ => { live.inc(1); hist.push("live.inc(1)".into()); }
                }
                tried += 1;
                let pos = if after == 3 { 1 } else { 0 };
                let want = format!("{}\nlive {}", logs.join("\n"), pos);
                let got = term.contents();
                if got != want {
                    let h: Vec<&str> = hist.iter().map(String::as_str).collect();
                    return format!("{{\"found\": true, \"clause\": \"C03 lines written by the suspend closure stay, once, above the bars (suspend wipes the rows left by dropped finished bars as well)\", \"input\": {{\"history\": {}, \"expected_screen\": {}, \"screen\": {}}}, \"rerun\": \"replay multi_suspend\"}}",
                        crate::jlist(&h), crate::js(&want), crate::js(&got));
                }
            }
        }
    }
    format!("{{\"found\": false, \"tried\": {}}}", tried)
}


/// C05: a redraw request that arrives at least one refresh interval after the last painted frame is painted, whatever the
/// request is: a repeated `set_position(same value)`, `inc(0)`, `set_length(same)`, `tick()`; the frame shows the texts
/// whose own draws were dropped while the limiter was closed.
pub fn stale_redraw(_args: &[String]) -> String {
    use indicatif::{InMemoryTerm, ProgressBar, ProgressDrawTarget};
    use std::time::Duration;
    std::panic::set_hook(Box::new(|_| {}));
    let mut tried = 0u64;
    for req in 0..5 {
        let term = InMemoryTerm::new(4, 60);
        let pb = ProgressBar::with_draw_target(Some(100), ProgressDrawTarget::term_like_with_hz(Box::new(term.clone()), 20));
        pb.set_style(ProgressStyle::with_template("{pos}/{len} {msg}").unwrap());
        pb.set_position(7);
        for i in 0..60 { pb.set_message(format!("spam {}", i)); }        // uses up the burst
        pb.set_message("latest");                                          // dropped (or painted: both fine)
        std::thread::sleep(Duration::from_millis(120));                    // more than two intervals at 20 Hz
        let what = match req {
            0 => { pb.set_position(7); "set_position(7) (unchanged)" }
            1 => { pb.inc(0); "inc(0)" }
            2 => { pb.set_length(100); "set_length(100) (unchanged)" }
            3 => { pb.tick(); "tick()" }
            _ => { pb.set_prefix(""); "set_prefix(\"\")" }
        };
        tried += 1;
        let got = term.contents();
        if got != "7/100 latest" {
            return format!("{{\"found\": true, \"clause\": \"C05 a redraw request arriving at least one refresh interval after the last painted frame is always painted and shows the latest texts\", \"input\": {{\"history\": [\"20 Hz target, position 7\", \"60 x set_message(spam i)\", \"set_message(latest)\", \"sleep 120 ms\", {}], \"expected_screen\": \"7/100 latest\", \"screen\": {}}}, \"rerun\": \"replay stale_redraw\"}}",
                crate::js(what), crate::js(&got));
        }
    }
    format!("{{\"found\": false, \"tried\": {}}}", tried)
}

/// C03 / C01 / C02: the default targets are buffered terminals; what an operation writes must be flushed before the
/// operation returns and before a `suspend` closure runs (otherwise the closure's output and the pending erase sequence
/// reach the terminal in the wrong order).  A TermLike that counts the operations since the last flush.
pub fn flush_discipline(_args: &[String]) -> String {
    use indicatif::{InMemoryTerm, MultiProgress, ProgressBar, ProgressDrawTarget, ProgressStyle, TermLike};
    use std::sync::atomic::{AtomicUsize, Ordering};
    use std::sync::Arc;
    std::panic::set_hook(Box::new(|_| {}));
    #[derive(Debug, Clone)]
    struct Pending { inner: InMemoryTerm, n: Arc<AtomicUsize> }
    impl Pending { fn op(&self) { self.n.fetch_add(1, Ordering::SeqCst); } }
    impl TermLike for Pending {
        fn width(&self) -> u16 { self.inner.width() }
        fn height(&self) -> u16 { self.inner.height() }
        fn move_cursor_up(&self, n: usize) -> std::io::Result<()> { self.op(); self.inner.move_cursor_up(n) }
        fn move_cursor_down(&self, n: usize) -> std::io::Result<()> { self.op(); self.inner.move_cursor_down(n) }
        fn move_cursor_right(&self, n: usize) -> std::io::Result<()> { self.op(); self.inner.move_cursor_right(n) }
        fn move_cursor_left(&self, n: usize) -> std::io::Result<()> { self.op(); self.inner.move_cursor_left(n) }
        fn write_line(&self, s: &str) -> std::io::Result<()> { self.op(); self.inner.write_line(s) }
        fn write_str(&self, s: &str) -> std::io::Result<()> { self.op(); self.inner.write_str(s) }
        fn clear_line(&self) -> std::io::Result<()> { self.op(); self.inner.clear_line() }
        fn flush(&self) -> std::io::Result<()> { self.n.store(0, Ordering::SeqCst); self.inner.flush() }
    }
    let names = ["tick", "inc(1)", "set_message(two lines)", "println", "suspend", "mp.println", "mp.suspend", "mp.clear", "finish_and_clear first bar", "finish second bar"];
    let mut tried = 0u64;
    for multi in [false, true] {
        for a in 0..names.len() { for b in 0..names.len() {
            let n = Arc::new(AtomicUsize::new(0));
            let t = Pending { inner: InMemoryTerm::new(10, 40), n: n.clone() };
            let mp = if multi { Some(MultiProgress::with_draw_target(ProgressDrawTarget::term_like(Box::new(t.clone())))) } else { None };
            let mkb = |i: usize| {
                let pb = match &mp { Some(mp) => mp.add(ProgressBar::new(10)), None => ProgressBar::with_draw_target(Some(10), ProgressDrawTarget::term_like(Box::new(t.clone()))) };
                pb.set_style(ProgressStyle::with_template(&format!("b{} {{msg}}\n{{pos}}/{{len}}", i)).unwrap());
                pb.tick();
                pb
            };
            let bars: Vec<ProgressBar> = if multi { vec![mkb(0), mkb(1)] } else { vec![mkb(0)] };
            let mut hist: Vec<String> = vec![if multi { "MultiProgress with two two-line bars, both painted".into() } else { "a two-line bar, painted".into() }];
            for op in [a, b] {
                if !multi && op >= 5 { continue; }
                let first = &bars[0];
                let last = &bars[bars.len() - 1];
                let mut inside: Option<usize> = None;
                match op {
                    0 => last.tick(),
                    1 => last.inc(1),
                    2 => first.set_message("two\nlines"),
                    3 => first.println("log"),
                    4 => last.suspend(|| { inside = Some(n.load(Ordering::SeqCst)); }),
                    5 => { let _ = mp.as_ref().unwrap().println("log"); }
                    6 => mp.as_ref().unwrap().suspend(|| { inside = Some(n.load(Ordering::SeqCst)); }),
                    7 => { let _ = mp.as_ref().unwrap().clear(); }
                    8 => first.finish_and_clear(),
                    _ => last.finish(),
                }
                hist.push(names[op].to_string());
                tried += 1;
                let after = n.load(Ordering::SeqCst);
                if inside.unwrap_or(0) != 0 || after != 0 {
                    let h: Vec<&str> = hist.iter().map(String::as_str).collect();
                    return format!("{{\"found\": true, \"clause\": \"C03/C01/C02 whatever an operation writes is flushed before it returns and before a suspend closure runs: nothing stays pending in a buffered terminal\", \"input\": {{\"history\": {}, \"operations_pending_inside_the_closure\": {}, \"operations_pending_after_the_call\": {}}}, \"rerun\": \"replay flush_discipline\"}}",
                        crate::jlist(&h), inside.unwrap_or(0), after);
                }
            }
        }}
    }
    format!("{{\"found\": false, \"tried\": {}}}", tried)
}
