//! C18 witnesses: a TermLike whose operations start failing must not make any call panic.
use indicatif::{MultiProgress, ProgressBar, ProgressDrawTarget, TermLike};
use std::io;
use std::panic::{catch_unwind, AssertUnwindSafe};
use std::sync::atomic::{AtomicUsize, Ordering};
use std::sync::Arc;

#[derive(Debug, Clone)]
struct Failing {
    budget: Arc<AtomicUsize>, // operations that still succeed
}
impl Failing {
    fn op(&self) -> io::Result<()> {
        let b = self.budget.load(Ordering::SeqCst);
        if b == 0 {
            return Err(io::Error::new(io::ErrorKind::Other, "terminal gone"));
        }
        self.budget.store(b - 1, Ordering::SeqCst);
        Ok(())
    }
}
impl TermLike for Failing {
    fn width(&self) -> u16 { 40 }
    fn height(&self) -> u16 { 10 }
    fn move_cursor_up(&self, _n: usize) -> io::Result<()> { self.op() }
    fn move_cursor_down(&self, _n: usize) -> io::Result<()> { self.op() }
    fn move_cursor_right(&self, _n: usize) -> io::Result<()> { self.op() }
    fn move_cursor_left(&self, _n: usize) -> io::Result<()> { self.op() }
    fn write_line(&self, _s: &str) -> io::Result<()> { self.op() }
    fn write_str(&self, _s: &str) -> io::Result<()> { self.op() }
    fn clear_line(&self) -> io::Result<()> { self.op() }
    fn flush(&self) -> io::Result<()> { self.op() }
}

fn msg(e: Box<dyn std::any::Any + Send>) -> String {
    e.downcast_ref::<String>().cloned().or_else(|| e.downcast_ref::<&str>().map(|s| s.to_string())).unwrap_or_default()
}

/// Single bar: every public call under a terminal that fails after `budget` operations.
pub fn io_fail_bar(_args: &[String]) -> String {
    std::panic::set_hook(Box::new(|_| {}));
    for budget in [0usize, 1, 3, 8, 20] {
        let calls: Vec<(&str, Box<dyn Fn(&ProgressBar)>)> = vec![
            ("tick", Box::new(|pb| pb.tick())),
            ("inc", Box::new(|pb| pb.inc(1))),
            ("set_message", Box::new(|pb| pb.set_message("m"))),
            ("println", Box::new(|pb| pb.println("log"))),
            ("set_tab_width", Box::new(|pb| pb.set_tab_width(4))),
            ("force_draw", Box::new(|pb| pb.force_draw())),
            ("suspend", Box::new(|pb| pb.suspend(|| ()))),
            ("reset", Box::new(|pb| pb.reset())),
            ("finish", Box::new(|pb| pb.finish())),
        ];
        for (name, call) in calls.iter() {
            let t = Failing { budget: Arc::new(AtomicUsize::new(budget)) };
            let pb = ProgressBar::with_draw_target(Some(10), ProgressDrawTarget::term_like(Box::new(t)));
            pb.set_position(3);
            let r = catch_unwind(AssertUnwindSafe(|| call(&pb)));
            if let Err(e) = r {
                let after = catch_unwind(AssertUnwindSafe(|| pb.position()));
                return format!("{{\"found\": true, \"clause\": \"C18 a call panicked under a failing terminal\", \"input\": {{\"call\": \"{}\", \"ops_before_failure\": {}, \"panic\": {}, \"later_position_call_panics\": {}}}, \"rerun\": \"replay io_fail_bar\"}}",
                    name, budget, crate::js(&msg(e)), after.is_err());
            }
            let p = catch_unwind(AssertUnwindSafe(|| pb.position()));
            if p.is_err() {
                return format!("{{\"found\": true, \"clause\": \"C18 lock poisoned\", \"input\": {{\"call\": \"{}\", \"ops_before_failure\": {}}}, \"rerun\": \"replay io_fail_bar\"}}", name, budget);
            }
        }
    }
    "{\"found\": false}".to_string()
}

/// MultiProgress under a failing terminal.
pub fn io_fail_multi(_args: &[String]) -> String {
    std::panic::set_hook(Box::new(|_| {}));
    for budget in [0usize, 2, 6, 15] {
        let calls: Vec<(&str, Box<dyn Fn(&MultiProgress, &ProgressBar)>)> = vec![
            ("mp.println", Box::new(|mp, _| { let _ = mp.println("x"); })),
            ("mp.clear", Box::new(|mp, _| { let _ = mp.clear(); })),
            ("mp.suspend", Box::new(|mp, _| mp.suspend(|| ()))),
            ("pb.suspend", Box::new(|_, pb| pb.suspend(|| ()))),
            ("pb.tick", Box::new(|_, pb| pb.tick())),
            ("pb.finish", Box::new(|_, pb| pb.finish())),
        ];
        for (name, call) in calls.iter() {
            let t = Failing { budget: Arc::new(AtomicUsize::new(budget)) };
            let mp = MultiProgress::with_draw_target(ProgressDrawTarget::term_like(Box::new(t)));
            let a = mp.add(ProgressBar::new(10));
            let b = mp.add(ProgressBar::new(10));
            a.tick();
            let r = catch_unwind(AssertUnwindSafe(|| call(&mp, &a)));
            if let Err(e) = r {
                let sib = catch_unwind(AssertUnwindSafe(|| b.inc(1)));
                std::mem::forget(a); std::mem::forget(b); std::mem::forget(mp);
                return format!("{{\"found\": true, \"clause\": \"C18 a call panicked under a failing terminal\", \"input\": {{\"call\": \"{}\", \"ops_before_failure\": {}, \"panic\": {}, \"sibling_inc_panics_afterwards\": {}}}, \"rerun\": \"replay io_fail_multi\"}}",
                    name, budget, crate::js(&msg(e)), sib.is_err());
            }
        }
    }
    "{\"found\": false}".to_string()
}
