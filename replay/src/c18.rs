//! C18 witnesses: a TermLike whose operations start failing must not make any call panic.
use indicatif::{MultiProgress, ProgressBar, ProgressDrawTarget, TermLike};
use std::io;
use std::panic::{catch_unwind, AssertUnwindSafe};
use std::sync::atomic::{AtomicUsize, Ordering};
use std::sync::Arc;

#[derive(Debug, Clone)]
struct Failing {
    budget: Arc<AtomicUsize>, // operations that still succeed
}
/// which kind of error the failing terminal reports (0 Other, 1 BrokenPipe, 2 WouldBlock, 3 Interrupted)
static KIND: AtomicUsize = AtomicUsize::new(0);
/// one-shot mode: the operation that finds the budget at 0 fails, then the terminal works again; HIT counts such failures
static ONESHOT: AtomicUsize = AtomicUsize::new(0);
static HIT: AtomicUsize = AtomicUsize::new(0);
impl Failing {
    fn op(&self) -> io::Result<()> {
        let b = self.budget.load(Ordering::SeqCst);
        if b == 0 {
            let k = match KIND.load(Ordering::SeqCst) { 1 => io::ErrorKind::BrokenPipe, 2 => io::ErrorKind::WouldBlock, 3 => io::ErrorKind::Interrupted, _ => io::ErrorKind::Other };
            if ONESHOT.load(Ordering::SeqCst) == 1 {
                self.budget.store(1_000_000, Ordering::SeqCst);
                HIT.fetch_add(1, Ordering::SeqCst);
            }
            return Err(io::Error::new(k, "terminal gone"));
        }
        self.budget.store(b - 1, Ordering::SeqCst);
        Ok(())
    }
}
impl TermLike for Failing {
    fn width(&self) -> u16 { 40 }
    fn height(&self) -> u16 { 10 }
    fn move_cursor_up(&self, _n: usize) -> io::Result<()> { self.op() }
    fn move_cursor_down(&self, _n: usize) -> io::Result<()> { self.op() }
    fn move_cursor_right(&self, _n: usize) -> io::Result<()> { self.op() }
    fn move_cursor_left(&self, _n: usize) -> io::Result<()> { self.op() }
    fn write_line(&self, _s: &str) -> io::Result<()> { self.op() }
    fn write_str(&self, _s: &str) -> io::Result<()> { self.op() }
    fn clear_line(&self) -> io::Result<()> { self.op() }
    fn flush(&self) -> io::Result<()> { self.op() }
}

fn msg(e: Box<dyn std::any::Any + Send>) -> String {
    e.downcast_ref::<String>().cloned().or_else(|| e.downcast_ref::<&str>().map(|s| s.to_string())).unwrap_or_default()
}

/// Single bar: every public call under a terminal that fails after `budget` operations.
pub fn io_fail_bar(_args: &[String]) -> String {
    std::panic::set_hook(Box::new(|_| {}));
    for budget in [0usize, 1, 3, 8, 20] {
        let calls: Vec<(&str, Box<dyn Fn(&ProgressBar)>)> = vec![
            ("tick", Box::new(|pb| pb.tick())),
            ("inc", Box::new(|pb| pb.inc(1))),
            ("set_message", Box::new(|pb| pb.set_message("m"))),
            ("println", Box::new(|pb| pb.println("log"))),
            ("set_tab_width", Box::new(|pb| pb.set_tab_width(4))),
            ("force_draw", Box::new(|pb| pb.force_draw())),
            ("suspend", Box::new(|pb| pb.suspend(|| ()))),
            ("reset", Box::new(|pb| pb.reset())),
            ("finish", Box::new(|pb| pb.finish())),
        ];
        for (name, call) in calls.iter() {
            let t = Failing { budget: Arc::new(AtomicUsize::new(budget)) };
            let pb = ProgressBar::with_draw_target(Some(10), ProgressDrawTarget::term_like(Box::new(t)));
            pb.set_position(3);
            let r = catch_unwind(AssertUnwindSafe(|| call(&pb)));
            if let Err(e) = r {
                let after = catch_unwind(AssertUnwindSafe(|| pb.position()));
                return format!("{{\"found\": true, \"clause\": \"C18 a call panicked under a failing terminal\", \"input\": {{\"call\": \"{}\", \"ops_before_failure\": {}, \"panic\": {}, \"later_position_call_panics\": {}}}, \"rerun\": \"replay io_fail_bar\"}}",
                    name, budget, crate::js(&msg(e)), after.is_err());
            }
            let p = catch_unwind(AssertUnwindSafe(|| pb.position()));
            if p.is_err() {
                return format!("{{\"found\": true, \"clause\": \"C18 lock poisoned\", \"input\": {{\"call\": \"{}\", \"ops_before_failure\": {}}}, \"rerun\": \"replay io_fail_bar\"}}", name, budget);
            }
        }
    }
    "{\"found\": false}".to_string()
}

/// MultiProgress under a failing terminal.
pub fn io_fail_multi(_args: &[String]) -> String {
    std::panic::set_hook(Box::new(|_| {}));
    for budget in [0usize, 2, 6, 15] {
        let calls: Vec<(&str, Box<dyn Fn(&MultiProgress, &ProgressBar)>)> = vec![
            ("mp.println", Box::new(|mp, _| { let _ = mp.println("x"); })),
            ("mp.clear", Box::new(|mp, _| { let _ = mp.clear(); })),
            ("mp.suspend", Box::new(|mp, _| mp.suspend(|| ()))),
            ("pb.suspend", Box::new(|_, pb| pb.suspend(|| ()))),
            ("pb.tick", Box::new(|_, pb| pb.tick())),
            ("pb.finish", Box::new(|_, pb| pb.finish())),
        ];
        for (name, call) in calls.iter() {
            let t = Failing { budget: Arc::new(AtomicUsize::new(budget)) };
            let mp = MultiProgress::with_draw_target(ProgressDrawTarget::term_like(Box::new(t)));
            let a = mp.add(ProgressBar::new(10));
            let b = mp.add(ProgressBar::new(10));
            a.tick();
            let r = catch_unwind(AssertUnwindSafe(|| call(&mp, &a)));
            if let Err(e) = r {
                let sib = catch_unwind(AssertUnwindSafe(|| b.inc(1)));
                std::mem::forget(a); std::mem::forget(b); std::mem::forget(mp);
                return format!("{{\"found\": true, \"clause\": \"C18 a call panicked under a failing terminal\", \"input\": {{\"call\": \"{}\", \"ops_before_failure\": {}, \"panic\": {}, \"sibling_inc_panics_afterwards\": {}}}, \"rerun\": \"replay io_fail_multi\"}}",
                    name, budget, crate::js(&msg(e)), sib.is_err());
            }
        }
    }
    // visibly finished bars whose final frame failed are dropped in both orders: no panic, siblings keep working
    for order in 0..2 {
        for budget in [0usize, 1, 4] {
            let t = Failing { budget: Arc::new(AtomicUsize::new(budget)) };
            let mp = MultiProgress::with_draw_target(ProgressDrawTarget::term_like(Box::new(t)));
            let a = mp.add(ProgressBar::new(10));
            let b = mp.add(ProgressBar::new(10));
            let c = mp.add(ProgressBar::new(10));
            let r = catch_unwind(AssertUnwindSafe(|| {
                a.finish(); b.abandon();
                if order == 0 { drop(a); drop(b); } else { drop(b); drop(a); }
                c.inc(1);
                let _ = mp.println("x");
                let _ = mp.clear();
            }));
            if let Err(e) = r {
                std::mem::forget(c); std::mem::forget(mp);
                return format!("{{\"found\": true, \"clause\": \"C18 dropping visibly finished bars whose last draw failed must not panic (nor poison the MultiProgress)\", \"input\": {{\"ops_before_failure\": {}, \"drop_order\": {}, \"panic\": {}}}, \"rerun\": \"replay io_fail_multi\"}}", budget, order, crate::js(&msg(e)));
            }
        }
    }
    "{\"found\": false}".to_string()
}

/// C18: with a terminal that fails from its first operation on, the io::Result-returning calls of MultiProgress
/// report an error (also in the history where a dropped bar is reaped by that very draw), and the getters of
/// every bar are what they are on a working terminal.
pub fn io_fail_state(_args: &[String]) -> String {
    std::panic::set_hook(Box::new(|_| {}));
    // (a) errors are reported, whatever kind of error the terminal gives
    for history in 0..12 {
        KIND.store(history / 3, Ordering::SeqCst);
        let history = history % 3;
        let t = Failing { budget: Arc::new(AtomicUsize::new(1_000_000)) };
        let budget = t.budget.clone();
        let mp = MultiProgress::with_draw_target(ProgressDrawTarget::term_like(Box::new(t)));
        let a = mp.add(ProgressBar::new(10));
        let b = mp.add(ProgressBar::new(10));
        a.tick();
        b.tick();
        let mut hist = vec!["MultiProgress with bars a, b".to_string()];
        match history {
            1 => { b.finish(); drop(b); a.finish(); drop(a); hist.push("b.finish(); drop(b); a.finish(); drop(a)".into()); }
            2 => { a.finish(); hist.push("a.finish()".into()); }
            _ => {}
        }
        budget.store(0, Ordering::SeqCst);
        hist.push("terminal starts failing".into());
        for (name, r) in [("mp.println", mp.println("x").is_err()), ("mp.clear", mp.clear().is_err())] {
            if !r {
                let h: Vec<&str> = hist.iter().map(String::as_str).collect();
                return format!("{{\"found\": true, \"clause\": \"C18 explicit io::Result-returning calls report the terminal error\", \"input\": {{\"history\": {}, \"call\": \"{}\", \"returned\": \"Ok(())\"}}, \"rerun\": \"replay io_fail_state\"}}", crate::jlist(&h), name);
            }
        }
    }
    KIND.store(0, Ordering::SeqCst);
    // (a2) a single failing operation (the k-th of the call, any kind of operation) is reported too, for both alignments
    for bottom in [false, true] {
        for which in 0..2 {
            for k in 0..16usize {
                let t = Failing { budget: Arc::new(AtomicUsize::new(1_000_000)) };
                let budget = t.budget.clone();
                let mp = MultiProgress::with_draw_target(ProgressDrawTarget::term_like(Box::new(t)));
                if bottom { mp.set_alignment(indicatif::MultiProgressAlignment::Bottom); }
                let a = mp.add(ProgressBar::new(10));
                let b = mp.add(ProgressBar::new(10));
                a.tick();
                b.tick();
                HIT.store(0, Ordering::SeqCst);
                ONESHOT.store(1, Ordering::SeqCst);
                budget.store(k, Ordering::SeqCst);
                let r = if which == 0 { mp.println("x") } else { mp.clear() };
                ONESHOT.store(0, Ordering::SeqCst);
                budget.store(1_000_000, Ordering::SeqCst);
                if HIT.load(Ordering::SeqCst) > 0 && r.is_ok() {
                    return format!("{{\"found\": true, \"clause\": \"C18 explicit io::Result-returning calls report the terminal error, also when a single operation fails and the following ones succeed\", \"input\": {{\"history\": \"MultiProgress ({} alignment) with bars a, b, both painted; terminal operation number {} of the call fails once\", \"call\": \"{}\", \"returned\": \"Ok(())\"}}, \"rerun\": \"replay io_fail_state\"}}",
                        if bottom { "Bottom" } else { "Top" }, k, if which == 0 { "mp.println" } else { "mp.clear" });
                }
            }
        }
    }
    // (b) logical state is what it is without the failure
    let ops: Vec<(&str, Box<dyn Fn(&ProgressBar)>)> = vec![
        ("inc(2)", Box::new(|p| p.inc(2))), ("set_message(m)", Box::new(|p| p.set_message("m"))), ("set_length(20)", Box::new(|p| p.set_length(20))),
        ("finish", Box::new(|p| p.finish())), ("finish_with_message(done)", Box::new(|p| p.finish_with_message("done"))), ("finish_and_clear", Box::new(|p| p.finish_and_clear())),
        ("abandon", Box::new(|p| p.abandon())), ("reset", Box::new(|p| p.reset())), ("println(x)", Box::new(|p| p.println("x"))), ("set_prefix(p)", Box::new(|p| p.set_prefix("p"))),
    ];
    for i in 0..ops.len() {
        for j in 0..ops.len() {
            let good = ProgressBar::with_draw_target(Some(10), ProgressDrawTarget::term_like(Box::new(Failing { budget: Arc::new(AtomicUsize::new(1_000_000)) })));
            let bad = ProgressBar::with_draw_target(Some(10), ProgressDrawTarget::term_like(Box::new(Failing { budget: Arc::new(AtomicUsize::new(0)) })));
            for k in [i, j] {
                (ops[k].1)(&good);
                let r = catch_unwind(AssertUnwindSafe(|| (ops[k].1)(&bad)));
                if r.is_err() {
                    return format!("{{\"found\": true, \"clause\": \"C18 a call panicked under a failing terminal\", \"input\": {{\"call\": \"{}\"}}, \"rerun\": \"replay io_fail_state\"}}", ops[k].0);
                }
            }
            let g = (good.position(), good.length(), good.message(), good.prefix(), good.is_finished(), good.is_hidden());
            let b = (bad.position(), bad.length(), bad.message(), bad.prefix(), bad.is_finished(), bad.is_hidden());
            if g != b {
                return format!("{{\"found\": true, \"clause\": \"C18 position, length, message, prefix, finished status and is_hidden() are what they would be without the I/O failure\", \"input\": {{\"history\": [\"{}\", \"{}\"], \"working_terminal\": {}, \"failing_terminal\": {}}}, \"rerun\": \"replay io_fail_state\"}}",
                    ops[i].0, ops[j].0, crate::js(&format!("{:?}", g)), crate::js(&format!("{:?}", b)));
            }
        }
    }
    // (c) a member whose frames failed is still a member afterwards: sibling operations that name it keep working
    {
        let t = Failing { budget: Arc::new(AtomicUsize::new(1_000_000)) };
        let budget = t.budget.clone();
        let mp = MultiProgress::with_draw_target(ProgressDrawTarget::term_like(Box::new(t)));
        let a = mp.add(ProgressBar::new(10));
        a.tick();
        budget.store(0, Ordering::SeqCst);
        a.inc(1); a.set_message("m"); a.tick();
        budget.store(1_000_000, Ordering::SeqCst);
        let r = catch_unwind(AssertUnwindSafe(|| {
            let b = mp.insert_after(&a, ProgressBar::new(10));
            let c = mp.insert_before(&a, ProgressBar::new(10));
            b.tick(); c.tick(); a.tick();
            mp.remove(&a);
            a.is_hidden()
        }));
        match r {
            Err(_) => return "{\"found\": true, \"clause\": \"C18 later calls on the same and on sibling bars keep working after a failed frame\", \"input\": {\"history\": [\"MultiProgress with bar a, ticked\", \"terminal fails\", \"a.inc(1); a.set_message(m); a.tick()\", \"terminal works again\", \"mp.insert_after(&a, ..); mp.insert_before(&a, ..); ticks; mp.remove(&a)\"], \"observed\": \"panic\"}, \"rerun\": \"replay io_fail_state\"}".to_string(),
            Ok(hidden) => if !hidden {
                return "{\"found\": true, \"clause\": \"C18 a member whose frames failed is still a member: mp.remove(&a) detaches it\", \"input\": {\"history\": [\"MultiProgress with bar a\", \"terminal fails during a.inc / set_message / tick\", \"terminal works again\", \"mp.remove(&a)\"], \"observed\": \"a.is_hidden() == false after remove\"}, \"rerun\": \"replay io_fail_state\"}".to_string();
            }
        }
    }
    // (d) handing a member to another target while the terminal fails ends in the same place as without the failure
    for how in 0..3 {
        let run = |fail: bool| -> Result<(bool, bool, bool), ()> {
            let t = Failing { budget: Arc::new(AtomicUsize::new(1_000_000)) };
            let budget = t.budget.clone();
            let mp = MultiProgress::with_draw_target(ProgressDrawTarget::term_like(Box::new(t)));
            let mp2 = MultiProgress::with_draw_target(ProgressDrawTarget::hidden());
            let a = mp.add(ProgressBar::new(10));
            let b = mp.add(ProgressBar::new(10));
            a.tick(); b.tick();
            if fail { budget.store(0, Ordering::SeqCst); }
            let r = catch_unwind(AssertUnwindSafe(|| {
                match how {
                    0 => { a.set_draw_target(ProgressDrawTarget::hidden()); }
                    1 => { let _ = mp2.add(a.clone()); }
                    _ => { mp.remove(&a); }
                }
                budget.store(1_000_000, Ordering::SeqCst);
                // afterwards the bar belongs where the call put it: removing it from the old MultiProgress is a no-op or fine
                if how == 1 { mp2.remove(&a); }
                a.inc(1); b.inc(1);
                (a.is_hidden(), b.is_hidden(), a.position() == 1)
            }));
            r.map_err(|_| ())
        };
        let good = run(false);
        let bad = run(true);
        if good != bad {
            return format!("{{\"found\": true, \"clause\": \"C18 re-targeting a member bar while the terminal fails neither panics later nor leaves the bar attached to the old target\", \"input\": {{\"call\": \"{}\", \"without_failure\": {}, \"with_failure\": {}}}, \"rerun\": \"replay io_fail_state\"}}",
                ["a.set_draw_target(hidden)", "mp2.add(a); mp2.remove(&a)", "mp.remove(&a)"][how], crate::js(&format!("{:?}", good)), crate::js(&format!("{:?}", bad)));
        }
    }
    // (e) a steady ticker that meets a failing terminal changes nothing about the bar
    for finish in 0..2 {
        let t = Failing { budget: Arc::new(AtomicUsize::new(1_000_000)) };
        let budget = t.budget.clone();
        let pb = ProgressBar::with_draw_target(Some(10), ProgressDrawTarget::term_like(Box::new(t)));
        let pb = if finish == 1 { pb.with_finish(indicatif::ProgressFinish::WithMessage("done".into())) } else { pb };
        pb.set_position(3);
        pb.set_message("working");
        budget.store(0, Ordering::SeqCst);
        pb.enable_steady_tick(std::time::Duration::from_millis(5));
        std::thread::sleep(std::time::Duration::from_millis(120));
        // the terminal recovers while the ticker is still installed: frames arrive again (bounded wait, lower bound only)
        budget.store(1_000_000, Ordering::SeqCst);
        let before = 1_000_000 - budget.load(Ordering::SeqCst);
        let mut painted = false;
        for _ in 0..400 {
            std::thread::sleep(std::time::Duration::from_millis(5));
            if 1_000_000 - budget.load(Ordering::SeqCst) > before { painted = true; break; }
        }
        if !painted {
            return "{\"found\": true, \"clause\": \"C18 after a failed frame the bar keeps working: the steady ticker paints again once the terminal works\", \"input\": {\"history\": [\"enable_steady_tick(5 ms)\", \"terminal fails for 120 ms\", \"terminal works again\", \"2 s without a single terminal operation\"]}, \"rerun\": \"replay io_fail_state\"}".to_string();
        }
        budget.store(0, Ordering::SeqCst);
        std::thread::sleep(std::time::Duration::from_millis(30));
        pb.disable_steady_tick();
        budget.store(1_000_000, Ordering::SeqCst);
        let got = (pb.position(), pb.length(), pb.message(), pb.is_finished(), pb.is_hidden());
        let want = (3u64, Some(10u64), "working".to_string(), false, false);
        if got != want {
            return format!("{{\"found\": true, \"clause\": \"C18 a steady tick on a failing terminal leaves position, length, message, finished status and target as they are\", \"input\": {{\"history\": [\"bar len 10 at position 3, message working\", \"terminal fails\", \"enable_steady_tick(5 ms) for 120 ms\", \"disable_steady_tick\"], \"expected\": {}, \"got\": {}}}, \"rerun\": \"replay io_fail_state\"}}",
                crate::js(&format!("{:?}", want)), crate::js(&format!("{:?}", got)));
        }
    }
    "{\"found\": false}".to_string()
}
