//! C10 witnesses: with_template must return Ok or Err for every string (never panic), and
//! well-formed templates must render literal text and placeholders in order.
use indicatif::{InMemoryTerm, ProgressBar, ProgressDrawTarget, ProgressStyle};
use std::panic::{catch_unwind, AssertUnwindSafe};

fn panics(t: &str) -> Option<String> {
    let r = catch_unwind(AssertUnwindSafe(|| {
        let _ = ProgressStyle::with_template(t);
    }));
    r.err().map(|e| e.downcast_ref::<String>().cloned().or_else(|| e.downcast_ref::<&str>().map(|s| s.to_string())).unwrap_or_default())
}

pub fn template_total(args: &[String]) -> String {
    std::panic::set_hook(Box::new(|_| {}));
    if let Some(t) = args.get(0) {
        let p = panics(t);
        return format!("{{\"found\": {}, \"clause\": \"C10-total with_template panicked\", \"input\": {{\"template\": {}, \"panic\": {}}}}}", p.is_some(), crate::js(t), crate::js(&p.unwrap_or_default()));
    }
    let specials = ["{bar:70000}", "{bar:65536}", "{bar:65535}", "{a:99999999999999999999}", "{a:>65536!.red/blue}", "{a:^070000}"];
    for t in specials {
        if let Some(p) = panics(t) {
            return format!("{{\"found\": true, \"clause\": \"C10-total with_template panicked\", \"input\": {{\"template\": {}, \"panic\": {}}}, \"rerun\": \"replay template_total {}\"}}", crate::js(t), crate::js(&p), t);
        }
    }
    // a width that does not fit the width type is reported as an error, not accepted as some other width
    for t in ["{bar:65536}", "{bar:70000}", "{a:4294967295}", "{a:4294967296}", "{a:4294967306}", "{a:18446744073709551616}", "{a:99999999999999999999}", "{a:>65536!.red/blue}"] {
        let r = catch_unwind(AssertUnwindSafe(|| ProgressStyle::with_template(t).is_ok()));
        if let Ok(true) = r {
            return format!("{{\"found\": true, \"clause\": \"C10 an out-of-range placeholder width is a TemplateError (neither a panic nor another width)\", \"input\": {{\"template\": {}}}, \"rerun\": \"replay template_total {}\"}}", crate::js(t), t);
        }
    }
    // multi-byte text well in front of a placeholder that is rejected (or accepted): still no panic
    for t in ["x\u{65e5}\u{672c}\u{8a9e}\u{306e}\u{9032}\u{6357}\u{30d0}\u{30fc}\u{3001}\u{6b8b}\u{308a}\u{6642}\u{9593} {}", " \u{2713}\u{2713}\u{2713}\u{2713}\u{2713}\u{2713}\u{2713}\u{2713} {msg:70000}",
              "\u{e9}\u{e9}\u{e9}\u{e9}\u{e9}\u{e9}\u{e9}\u{e9}\u{e9}\u{e9} {a:b:c}", "\u{1f600}\u{1f600}\u{1f600}\u{1f600}\u{1f600} {bar:99999}", "\u{65e5}\u{672c}\u{8a9e}\u{65e5}\u{672c}\u{8a9e}\u{65e5}\u{672c}\u{8a9e} {msg}"] {
        if let Some(p) = panics(t) {
            return format!("{{\"found\": true, \"clause\": \"C10-total with_template panicked\", \"input\": {{\"template\": {}, \"panic\": {}}}, \"rerun\": \"replay template_total\"}}", crate::js(t), crate::js(&p));
        }
    }
    // small-scope enumeration over the grammar's alphabet
    let alpha: Vec<char> = "{}: a9!./\n<\u{3000}\u{e9}".chars().collect();
    let mut tried = 0u64;
    for len in 0..=5usize {
        let mut idx = vec![0usize; len];
        loop {
            let t: String = idx.iter().map(|&i| alpha[i]).collect();
            tried += 1;
            if let Some(p) = panics(&t) {
                return format!("{{\"found\": true, \"clause\": \"C10-total with_template panicked\", \"tried\": {}, \"input\": {{\"template\": {}, \"panic\": {}}}, \"rerun\": \"replay template_total\"}}", tried, crate::js(&t), crate::js(&p));
            }
            let mut k = 0;
            while k < len {
                idx[k] += 1;
                if idx[k] < alpha.len() {
                    break;
                }
                idx[k] = 0;
                k += 1;
            }
            if k == len {
                break;
            }
        }
    }
    format!("{{\"found\": false, \"tried\": {}}}", tried)
}

/// Render a template on an InMemoryTerm with fixed message/prefix; returns the screen text.
pub fn render(t: &str) -> Result<String, String> {
    let r = catch_unwind(AssertUnwindSafe(|| {
        let style = ProgressStyle::with_template(t).map_err(|e| e.to_string())?;
        let term = InMemoryTerm::new(10, 80);
        let pb = ProgressBar::with_draw_target(Some(10), ProgressDrawTarget::term_like(Box::new(term.clone())));
        pb.set_style(style);
        pb.set_message("MSG");
        pb.set_prefix("PFX");
        pb.set_position(3);
        pb.tick();
        Ok::<String, String>(term.contents())
    }));
    match r {
        Ok(x) => x,
        Err(_) => Err("panic".into()),
    }
}

/// Literal text and placeholders in order (executable form of the fidelity clause on a small
/// family of well-formed templates built from literal chunks and {msg}/{prefix}/{pos}).
pub fn template_order(_args: &[String]) -> String {
    std::panic::set_hook(Box::new(|_| {}));
    let chunks: [(&str, &str); 11] = [("abc", "abc"), ("{msg}", "MSG"), ("{prefix}", "PFX"), ("{pos}", "3"), ("{{", "{"), ("}}", "}"), ("{ ", "{ "), ("x y", "x y"), ("{nokey}", ""),
        ("\n", "\n"), ("{\n", "{\n")];
    let mut tried = 0;
    for a in 0..chunks.len() {
        for b in 0..chunks.len() {
            for c in 0..chunks.len() {
                let t = format!("{}{}{}", chunks[a].0, chunks[b].0, chunks[c].0);
                // skip concatenations that change the tokenisation ("{{" + "{ " etc.)
                if t.contains("{{{") || t.contains("}}}") || t.contains("}}{ ") && false {
                    continue;
                }
                let want = format!("{}{}{}", chunks[a].1, chunks[b].1, chunks[c].1);
                tried += 1;
                match render(&t) {
                    Ok(got) => {
                        // the emulator's rows are right-trimmed: compare row by row without trailing blanks
                        let norm = |x: &str| { let mut v: Vec<String> = x.split('\n').map(|l| l.trim_end().to_string()).collect(); while v.last().map(|l| l.is_empty()).unwrap_or(false) { v.pop(); } v };
                        if norm(&got) != norm(&want) {
                            return format!("{{\"found\": true, \"clause\": \"C10-order rendering is not the in-order concatenation of literal text and expansions\", \"tried\": {}, \"input\": {{\"template\": {}, \"expected\": {}, \"rendered\": {}}}, \"rerun\": \"replay template_order\"}}", tried, crate::js(&t), crate::js(&want), crate::js(&got));
                        }
                    }
                    Err(e) => {
                        if e == "panic" {
                            return format!("{{\"found\": true, \"clause\": \"C10-total panic while rendering\", \"input\": {{\"template\": {}}}, \"rerun\": \"replay template_order\"}}", crate::js(&t));
                        }
                    }
                }
            }
        }
    }
    format!("{{\"found\": false, \"tried\": {}}}", tried)
}

/// C10 / C12: the parser hands the renderer exactly the field options written in the template
/// (`{key:[<^>][width][!]}`): width, alignment and truncation only when asked for.
pub fn template_fields(_args: &[String]) -> String {
    std::panic::set_hook(Box::new(|_| {}));
    let mut tried = 0;
    let msg = "abcdefgh";
    let cases: [(&str, &str); 14] = [
        ("[{msg}]", "[abcdefgh]"), ("[{msg:5}]", "[abcdefgh]"), ("[{msg:5!}]", "[abcde]"), ("[{msg:>5!}]", "[defgh]"), ("[{msg:^4!}]", "[cdef]"),
        ("[{msg:12}]", "[abcdefgh    ]"), ("[{msg:>12}]", "[    abcdefgh]"), ("[{msg:^12}]", "[  abcdefgh  ]"), ("[{msg:<12!}]", "[abcdefgh    ]"),
        ("[{pos:>3}/{len:3}]", "[  3/10 ]"), ("[{pos:3}]", "[3  ]"), ("[{pos:^5}]", "[  3  ]"), ("[{prefix:4}|{msg:2}]", "[PFX |abcdefgh]"), ("[{msg:0!}]", "[]"),
    ];
    for (t, want) in cases {
        let r = catch_unwind(AssertUnwindSafe(|| {
            let style = ProgressStyle::with_template(t).ok()?;
            let term = InMemoryTerm::new(10, 80);
            let pb = ProgressBar::with_draw_target(Some(10), ProgressDrawTarget::term_like(Box::new(term.clone())));
            pb.set_style(style);
            pb.set_message(msg);
            pb.set_prefix("PFX");
            pb.set_position(3);
            pb.tick();
            Some(term.contents())
        }));
        tried += 1;
        let got = match r { Ok(Some(g)) => g, Ok(None) => "<template rejected>".to_string(), Err(_) => "<panic>".to_string() };
        if got != want {
            return format!("{{\"found\": true, \"clause\": \"C10/C12 a placeholder is rendered with exactly the width, alignment and truncation written in the template\", \"tried\": {}, \"input\": {{\"template\": {}, \"msg\": {}, \"expected\": {}, \"rendered\": {}}}, \"rerun\": \"replay template_fields\"}}",
                tried, crate::js(t), crate::js(msg), crate::js(want), crate::js(&got));
        }
    }
    // texts whose byte length differs from their column count still get the padding of the field (they fit: no truncation)
    let fits: [(&str, &str, &str); 8] = [
        ("[{msg:2}]", "\u{e9}", "[\u{e9} ]"), ("[{msg:>2}]", "\u{e9}", "[ \u{e9}]"), ("[{msg:3}]", "\u{65e5}", "[\u{65e5} ]"), ("[{msg:6}]", "\u{65e5}\u{672c}", "[\u{65e5}\u{672c}  ]"),
        ("[{msg:10}]", "\u{1b}[31mX\u{1b}[0m", "[X         ]"), ("[{msg:^12}]", "\u{1b}[31mabc\u{1b}[0m", "[    abc     ]"), ("[{msg:8}]", "", "[        ]"), ("[{prefix:>5.red}|{msg:5!}]", "", "[  PFX|     ]"),
    ];
    for (t, m, want) in fits {
        let r = catch_unwind(AssertUnwindSafe(|| {
            let style = ProgressStyle::with_template(t).ok()?;
            let term = InMemoryTerm::new(10, 80);
            let pb = ProgressBar::with_draw_target(Some(10), ProgressDrawTarget::term_like(Box::new(term.clone())));
            pb.set_style(style);
            pb.set_message(m.to_string());
            pb.set_prefix("PFX");
            pb.tick();
            Some(term.contents())
        }));
        tried += 1;
        let got = match r { Ok(Some(g)) => g, Ok(None) => "<template rejected>".to_string(), Err(_) => "<panic>".to_string() };
        if got != want {
            return format!("{{\"found\": true, \"clause\": \"C12 a text that fits its field is padded to the field width in columns (not bytes), also when it is empty\", \"tried\": {}, \"input\": {{\"template\": {}, \"msg\": {}, \"expected\": {}, \"rendered\": {}}}, \"rerun\": \"replay template_fields\"}}",
                tried, crate::js(t), crate::js(m), crate::js(want), crate::js(&got));
        }
    }
    format!("{{\"found\": false, \"tried\": {}}}", tried)
}
