//! C12 witnesses: width / alignment / truncation of a placeholder field on the real formatter.
use indicatif::verif_hooks::style::{padded, text_cols};

fn check(s: &str, w: usize, al: u8, tr: bool) -> Option<String> {
    let out = padded(s, w, al, tr);
    let c = text_cols(s);
    if c <= w {
        let d = w - c;
        let (l, r) = match al { 0 => (0, d), 1 => (d / 2, d - d / 2), _ => (d, 0) };
        let want = format!("{}{}{}", " ".repeat(l), s, " ".repeat(r));
        if out != want {
            return Some(format!("C12-fits expected {} got {}", crate::js(&want), crate::js(&out)));
        }
    } else if !tr {
        if out != s {
            return Some(format!("C12-wide-untruncated expected the text itself, got {}", crate::js(&out)));
        }
    } else {
        let oc = text_cols(&out);
        if oc != w {
            return Some(format!("C12-truncate-any-text kept {} columns instead of {}: {}", oc, w, crate::js(&out)));
        }
        if s.is_ascii() {
            let e = s.len() - w;
            let want = match al { 0 => &s[..w], 1 => &s[e / 2..e / 2 + w], _ => &s[e..] };
            if out != want {
                return Some(format!("C12-truncate-ascii expected {} got {}", crate::js(want), crate::js(&out)));
            }
        }
    }
    None
}

pub fn pad_field(args: &[String]) -> String {
    if args.len() == 4 {
        let r = check(&args[0], args[1].parse().unwrap(), args[2].parse().unwrap(), args[3] == "true");
        return format!("{{\"found\": {}, \"clause\": {}, \"input\": {{\"text\": {}, \"width\": {}, \"align\": {}, \"truncate\": {}}}}}", r.is_some(), crate::js(&r.unwrap_or_default()), crate::js(&args[0]), args[1], args[2], args[3]);
    }
    let ascii_only = args.get(0).map(|s| s == "ascii").unwrap_or(false);
    let mut texts: Vec<&str> = vec!["", "a", "ab", "abc", "abcd", "hello world", "x y z", "0123456789"];
    // text with embedded colour sequences: only its visible columns count (padding when it fits; truncation is not compared)
    texts.extend(["\u{1b}[31mabc\u{1b}[0m", "x\u{1b}[1my\u{1b}[0mz"]);
    if !ascii_only {
        texts.extend(["ééééé", "añb", "日本語", "a日b", "\u{1b}[1mbold\u{1b}[0m", "e\u{301}e\u{301}e\u{301}"]);
    }
    let mut tried = 0;
    // long paddings (a padding run written in blocks must still add up): a few texts, widths around multiples of 32
    for s in ["", "abc", "hello world"] {
        for w in [31usize, 32, 33, 34, 35, 43, 63, 64, 65, 66, 96, 100, 128, 150] {
            for al in 0..3u8 {
                tried += 1;
                if let Some(m) = check(s, w, al, false) {
                    return format!("{{\"found\": true, \"clause\": {}, \"tried\": {}, \"input\": {{\"text\": {}, \"width\": {}, \"align\": {}, \"truncate\": false}}, \"rerun\": {}}}", crate::js(&m), tried, crate::js(s), w, al, crate::js(&format!("replay pad_field '{}' {} {} false", s, w, al)));
                }
            }
        }
    }
    for s in &texts {
        for w in 0..=12usize {
            for al in 0..3u8 {
                for tr in [false, true] {
                    if ascii_only && s.contains('\u{1b}') && tr && text_cols(s) > w {
                        continue;
                    }
                    tried += 1;
                    if let Some(m) = check(s, w, al, tr) {
                        return format!("{{\"found\": true, \"clause\": {}, \"tried\": {}, \"input\": {{\"text\": {}, \"width\": {}, \"align\": {}, \"truncate\": {}}}, \"rerun\": {}}}", crate::js(&m), tried, crate::js(s), w, al, tr, crate::js(&format!("replay pad_field '{}' {} {} {}", s, w, al, tr)));
                    }
                }
            }
        }
    }
    format!("{{\"found\": false, \"tried\": {}}}", tried)
}

/// C14 / C15-style totality of the field formatter: no text, width, alignment or truncate flag makes it panic
/// (also double-width, combining and ANSI-styled text, where the column arithmetic differs from the byte arithmetic).
pub fn pad_no_panic(_args: &[String]) -> String {
    std::panic::set_hook(Box::new(|_| {}));
    let texts = ["", "a", "hello world", "ééééé", "añb", "日本語", "日本語日本語日本語", "a日b", "😀😀😀😀", "\u{1b}[1mbold\u{1b}[0m", "e\u{301}e\u{301}e\u{301}", "\u{200b}\u{200b}", "日"];
    let mut tried = 0u64;
    for s in texts {
        for w in 0..=10usize {
            for al in 0..3u8 {
                for tr in [false, true] {
                    tried += 1;
                    let r = std::panic::catch_unwind(|| padded(s, w, al, tr));
                    if let Err(e) = r {
                        let m = e.downcast_ref::<String>().cloned().or_else(|| e.downcast_ref::<&str>().map(|x| x.to_string())).unwrap_or_default();
                        return format!("{{\"found\": true, \"clause\": \"C14/C12 a placeholder field never panics while it is rendered, whatever the text\", \"tried\": {}, \"input\": {{\"text\": {}, \"width\": {}, \"align\": {}, \"truncate\": {}, \"panic\": {}}}, \"rerun\": \"replay pad_no_panic\"}}",
                            tried, crate::js(s), w, al, tr, crate::js(&m));
                    }
                }
            }
        }
    }
    format!("{{\"found\": false, \"tried\": {}}}", tried)
}
