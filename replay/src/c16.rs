//! C16 bounded stand-in: no tab ever reaches the terminal, and every tab is expanded to the bar's
//! current tab width, whatever the order of set_message / set_prefix / set_style / set_tab_width /
//! template changes, and however a custom key writes its text.
use indicatif::{InMemoryTerm, ProgressBar, ProgressDrawTarget, ProgressState, ProgressStyle};
use std::fmt::Write;

fn fail(clause: &str, history: &[String], want: &str, got: &str) -> String {
    let h: Vec<&str> = history.iter().map(String::as_str).collect();
    format!("{{\"found\": true, \"clause\": {}, \"input\": {{\"history\": {}, \"expected\": {}, \"screen\": {}}}, \"rerun\": \"replay tabs_everywhere\"}}",
        crate::js(clause), crate::jlist(&h), crate::js(want), crate::js(got))
}

pub fn tabs_everywhere(_args: &[String]) -> String {
    std::panic::set_hook(Box::new(|_| {}));
    let mut tried = 0u64;
    // operations: 0 set_message, 1 set_prefix, 2 set_tab_width(2), 3 set_tab_width(5), 4 set_style(fresh style with a literal tab),
    // 5 set_style(own style with a new template), 6 finish_with_message, 7 set_tab_width(0); with_tab_width is applied at construction
    let sp = |n: usize| " ".repeat(n);
    for w0 in [None, Some(3usize)] {
        for a in 0..8 {
            for b in 0..8 {
                for c in 0..8 {
                    let term = InMemoryTerm::new(6, 80);
                    let mut pb = ProgressBar::with_draw_target(Some(10), ProgressDrawTarget::term_like(Box::new(term.clone())));
                    let mut tw = 8usize;
                    if let Some(w) = w0 {
                        pb = pb.with_tab_width(w);
                        tw = w;
                    }
                    pb.set_style(ProgressStyle::with_template("[\t]{prefix}|\t{msg}|").unwrap());
                    let (mut msg, mut pfx, mut lit) = (String::new(), String::new(), "[\t]".to_string());
                    let mut hist = vec![format!("with_tab_width({:?}); set_style(template \"[\\t]{{prefix}}|\\t{{msg}}|\")", w0)];
                    for op in [a, b, c] {
                        match op {
                            0 => { pb.set_message("m\tm"); msg = "m\tm".into(); hist.push("set_message(m\\tm)".into()); }
                            1 => { pb.set_prefix("p\t"); pfx = "p\t".into(); hist.push("set_prefix(p\\t)".into()); }
                            2 => { pb.set_tab_width(2); tw = 2; hist.push("set_tab_width(2)".into()); }
                            3 => { pb.set_tab_width(5); tw = 5; hist.push("set_tab_width(5)".into()); }
                            7 => { pb.set_tab_width(0); tw = 0; hist.push("set_tab_width(0)".into()); }
                            4 => { pb.set_style(ProgressStyle::with_template("<\t>{prefix}|\t{msg}|").unwrap()); lit = "<\t>".into(); hist.push("set_style(fresh style, template <\\t>..)".into()); }
                            5 => { let st = pb.style().template("(\t){prefix}|\t{msg}|").unwrap(); pb.set_style(st); lit = "(\t)".into(); hist.push("set_style(pb.style().template((\\t)..))".into()); }
                            _ => { pb.finish_with_message("f\tf"); msg = "f\tf".into(); hist.push("finish_with_message(f\\tf)".into()); }
                        }
                        pb.tick();
                        tried += 1;
                        let want = format!("{}{}|\t{}|", lit, pfx, msg).replace('\t', &sp(tw));
                        let got = term.contents();
                        if got.contains('\t') || got.trim_end() != want.trim_end() {
                            // the same text with other gaps is a tab-width problem; other text is (also) a stale message / prefix / literal
                            let strip = |s: &str| s.chars().filter(|c| !c.is_whitespace()).collect::<String>();
                            let clause = if strip(&got) == strip(&want) { "C16 every tab is expanded to the bar's current tab width" }
                                else { "C16/C11 the line shows the current message, prefix and template text (tab-expanded)" };
                            return fail(clause, &hist, &want, &got);
                        }
                    }
                }
            }
        }
    }
    // builder texts (with_message / with_prefix) use the bar's tab width at that moment, in either order with with_tab_width
    for w in [0usize, 2, 5] {
        for order in 0..3 {
            let term = InMemoryTerm::new(6, 80);
            let pb = ProgressBar::with_draw_target(Some(10), ProgressDrawTarget::term_like(Box::new(term.clone())));
            let (pb, h) = match order {
                0 => (pb.with_tab_width(w).with_message("m\tn").with_prefix("p\t"), format!("with_tab_width({}).with_message(m\\tn).with_prefix(p\\t)", w)),
                1 => (pb.with_message("m\tn").with_prefix("p\t").with_tab_width(w), format!("with_message(m\\tn).with_prefix(p\\t).with_tab_width({})", w)),
                _ => { pb.set_tab_width(w); (pb.with_prefix("p\t").with_message("m\tn"), format!("set_tab_width({}); with_prefix(p\\t).with_message(m\\tn)", w)) }
            };
            let hist = vec![h, "set_style(template {prefix}|{msg}|); tick".to_string()];
            tried += 1;
            let (wm, wp) = (format!("m{}n", sp(w)), format!("p{}", sp(w)));
            if pb.message() != wm || pb.prefix() != wp {
                return fail("C16 message() / prefix() return the text expanded to the bar's current tab width (builder texts)", &hist, &format!("message {:?} prefix {:?}", wm, wp), &format!("message {:?} prefix {:?}", pb.message(), pb.prefix()));
            }
            pb.set_style(ProgressStyle::with_template("{prefix}|{msg}|").unwrap());
            pb.tick();
            tried += 1;
            let want = format!("{}|{}|", wp, wm);
            let got = term.contents();
            if got.contains('\t') || got.trim_end() != want.trim_end() {
                return fail("C16 every tab is expanded to the bar's current tab width (builder texts)", &hist, &want, &got);
            }
        }
    }
    // width fields around tab-containing texts follow the CURRENT expansion: pad / truncate after every tab-width change
    for widths in [[8usize, 2, 8], [2, 8, 3], [0, 4, 0], [5, 5, 1]] {
        let term = InMemoryTerm::new(6, 80);
        let pb = ProgressBar::with_draw_target(Some(10), ProgressDrawTarget::term_like(Box::new(term.clone())));
        pb.set_style(ProgressStyle::with_template("[{msg:12}]|{prefix:>8!}|{wide_msg}").unwrap());
        pb.set_message("a\tb");
        pb.set_prefix("p\tq");
        let mut hist = vec!["template [{msg:12}]|{prefix:>8!}|{wide_msg}; set_message(a\\tb); set_prefix(p\\tq)".to_string()];
        for w in widths {
            pb.set_tab_width(w);
            pb.tick();
            hist.push(format!("set_tab_width({}); tick", w));
            tried += 1;
            let m = format!("a{}b", sp(w));
            let p = format!("p{}q", sp(w));
            let pshown: String = if p.len() > 8 { p[p.len() - 8..].to_string() } else { format!("{:>8}", p) };
            let want = format!("[{:<12}]|{}|{}", m, pshown, m);
            let got = term.contents();
            if got.contains('\t') || got.trim_end() != want.trim_end() {
                return fail("C16/C12 fields are padded / truncated by the width of the text as expanded with the current tab width", &hist, &want, &got);
            }
        }
    }
    // custom keys: tabs written as &str pieces, as a char, through format arguments
    for (name, which) in [("write_str", 0), ("write_char", 1), ("write! with a char argument", 2), ("write! with a str argument", 3)] {
        let style = ProgressStyle::with_template("{k}").unwrap().with_key("k", move |_s: &ProgressState, w: &mut dyn Write| {
            match which {
                0 => { w.write_str("a\tb").unwrap(); }
                1 => { w.write_char('a').unwrap(); w.write_char('\t').unwrap(); w.write_char('b').unwrap(); }
                2 => { write!(w, "a{}b", '\t').unwrap(); }
                _ => { write!(w, "a{}b", "\t").unwrap(); }
            }
        });
        let term = indicatif::InMemoryTerm::new(4, 80);
        let pb = indicatif::ProgressBar::with_draw_target(Some(10), indicatif::ProgressDrawTarget::term_like(Box::new(term.clone())));
        pb.set_style(style);
        pb.tick();
        tried += 1;
        let got = term.contents();
        let want = format!("a{}b", sp(8));
        if got != want {
            return fail("C16 the output of a custom key reaches the line tab-free, however it is written", &[format!("custom key writing a tab via {}", name)], &want, &got);
        }
    }
    // several tabs in one chunk, at the start, at the end, next to each other; tab widths 8 (default), 2 and 0
    for tw in [8usize, 2, 0] {
        for text in ["a\t\tb", "\tx\ty\t", "\t\t", "x\ty\tz\tw", "no tab", "t\t"] {
            let owned = text.to_string();
            let style = ProgressStyle::with_template("{k}|").unwrap().with_key("k", move |_s: &ProgressState, w: &mut dyn Write| { w.write_str(&owned).unwrap(); });
            let term = indicatif::InMemoryTerm::new(4, 80);
            let pb = indicatif::ProgressBar::with_draw_target(Some(10), indicatif::ProgressDrawTarget::term_like(Box::new(term.clone())));
            pb.set_tab_width(tw);
            pb.set_style(style);
            pb.tick();
            tried += 1;
            let got = term.contents();
            let want = format!("{}|", text.replace('\t', &sp(tw)));
            if got != want {
                return fail("C16 the output of a custom key reaches the line tab-free: every tab of a chunk is expanded to the current tab width", &[format!("tab width {}; custom key writing {:?} in one write_str", tw, text)], &want, &got);
            }
        }
    }
    format!("{{\"found\": false, \"tried\": {}}}", tried)
}
