//! Replay / witness-search driver: runs the REAL indicatif code (built from /repo with
//! `--cfg indicatif_verif`) on concrete inputs and evaluates the executable form of contract
//! clauses.  It only produces witnesses; it never decides a property.
//!
//! usage: replay <routine> [args...]   -> one JSON object on stdout
use std::time::{Duration, Instant};

mod bar;
mod c01;
mod c03;
#[cfg(feature = "hooks")]
mod c05;
#[cfg(feature = "hooks")]
mod c09;
mod c10;
#[cfg(feature = "hooks")]
mod c11;
#[cfg(feature = "hooks")]
mod c12;
mod c14;
mod c15;
mod c16;
mod c17;
mod c18;
mod public;

fn main() {
    let args: Vec<String> = std::env::args().collect();
    let routine = args.get(1).map(String::as_str).unwrap_or("");
    let rest = &args[2.min(args.len())..];
    // a panic that escapes a routine (in a Drop of the real code, in an unguarded call) is an observation, not a crash
    let guarded = std::panic::catch_unwind(std::panic::AssertUnwindSafe(|| run(routine, rest)));
    let out = match guarded {
        Ok(o) => o,
        Err(e) => {
            let m = e.downcast_ref::<String>().cloned().or_else(|| e.downcast_ref::<&str>().map(|x| x.to_string())).unwrap_or_default();
            format!("{{\"found\": true, \"clause\": \"the real code panicked while the routine {} was running (outside the calls the routine guards): no call may panic\", \"input\": {{\"panic\": {}}}, \"rerun\": \"replay {}\"}}", routine, js(&m), routine)
        }
    };
    println!("{}", out);
}

fn run(routine: &str, rest: &[String]) -> String {
    match routine {
        #[cfg(feature = "hooks")]
        "rl_allow" => c05::rl_allow(rest),
        #[cfg(feature = "hooks")]
        "rl_new" => c05::rl_new(rest),
        #[cfg(feature = "hooks")]
        "pos_allow" => c05::pos_allow(rest),
        #[cfg(feature = "hooks")]
        "rl_window" => c05::rl_window(rest),
        "style_build" => c14::style_build(rest),
        "c03_clear_overshoot" => c03::c03_clear_overshoot(rest),
        "c03_text_below_zombies" => c03::c03_text_below_zombies(rest),
        "c03_skip_recount" => c03::c03_skip_recount(rest),
        "first_line_hazard" => c01::first_line_hazard(rest),
        "cr_hazard" => c01::cr_hazard(rest),
        "flush_discipline" => public::flush_discipline(rest),
        "multi_remove" => bar::multi_remove(rest),
        "clip_hazard" => c01::clip_hazard(rest),
        #[cfg(feature = "hooks")]
        "pad_field" => c12::pad_field(rest),
        "io_fail_bar" => c18::io_fail_bar(rest),
        "io_fail_multi" => c18::io_fail_multi(rest),
        "human_float" => c15::human_float(rest),
        "tabs_everywhere" => c16::tabs_everywhere(rest),
        "human_duration" => c15::human_duration(rest),
        "human_count" => c15::human_count(rest),
        "formatted_duration" => c15::formatted_duration(rest),
        "bar_screen" => bar::bar_screen(rest),
        "bar_forced" => bar::bar_forced(rest),
        "bar_after" => bar::bar_after(rest),
        "bar_frames" => bar::bar_frames(rest),
        "bar_hidden" => bar::bar_hidden(rest),
        "multi_order" => bar::multi_order(rest),
        "multi_logs" => bar::multi_logs(rest),
        "pos_history" => public::pos_history(rest),
        "byte_formatters" => public::byte_formatters(rest),
        "time_keys" => public::time_keys(rest),
        "time_laws" => public::time_laws(rest),
        "stale_redraw" => public::stale_redraw(rest),
        "term_not_tty" => public::term_not_tty(rest),
        "spinner_ticks" => public::spinner_ticks(rest),
        "pos_concurrent" => public::pos_concurrent(rest),
        "multi_move" => public::multi_move(rest),
        "multi_life" => public::multi_life(rest),
        "multi_suspend" => public::multi_suspend(rest),
        "multi_movecursor" => public::multi_movecursor(rest),
        "multi_bottom" => bar::multi_bottom(rest),
        "multi_overflow" => bar::multi_overflow(rest),
        "bar_reuse" => bar::bar_reuse(rest),
        "multi_rate" => bar::multi_rate(rest),
        "multi_removed" => bar::multi_removed(rest),
        #[cfg(feature = "hooks")]
        "pad_no_panic" => c12::pad_no_panic(rest),
        "io_fail_state" => c18::io_fail_state(rest),
        "multi_finish" => bar::multi_finish(rest),
        "iter_adaptors" => c17::iter_adaptors(rest),
        #[cfg(feature = "hooks")]
        "est_decay" => c09::est_decay(rest),
        #[cfg(feature = "hooks")]
        "est_laws" => c09::est_laws(rest),
        #[cfg(feature = "hooks")]
        "render_keys" => c11::render_keys(rest),
        "tracker_ticks" => public::tracker_ticks(rest),
        #[cfg(feature = "hooks")]
        "bar_cells" => c11::bar_cells(rest),
        #[cfg(feature = "hooks")]
        "render_wide" => c11::render_wide(rest),
        #[cfg(feature = "hooks")]
        "render_widemsg" => c11::render_widemsg(rest),
        #[cfg(feature = "hooks")]
        "render_lines" => c11::render_lines(rest),
        "template_fields" => c10::template_fields(rest),
        "pos_arith" => public::pos_arith(rest),
        "template_total" => c10::template_total(rest),
        "template_order" => c10::template_order(rest),
        _ => format!("{{\"found\": false, \"error\": \"unknown routine {} (or one that needs the hooks, in a driver built without them)\"}}", routine),
    }
}

pub fn base() -> Instant {
    Instant::now() + Duration::from_secs(3600)
}

/// JSON string literal (the {:?} of Rust is not JSON for non-ASCII / control characters).
pub fn js(s: &str) -> String {
    let mut o = String::from("\"");
    for c in s.chars() {
        match c {
            '"' => o.push_str("\\\""),
            '\\' => o.push_str("\\\\"),
            c if (c as u32) < 0x20 || (c as u32) > 0x7e => {
                let mut b = [0u16; 2];
                for u in c.encode_utf16(&mut b) {
                    o.push_str(&format!("\\u{:04x}", u));
                }
            }
            c => o.push(c),
        }
    }
    o.push('"');
    o
}
pub fn jlist(v: &[&str]) -> String {
    format!("[{}]", v.iter().map(|s| js(s)).collect::<Vec<_>>().join(", "))
}
