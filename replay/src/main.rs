//! Replay / witness-search driver: runs the REAL indicatif code (built from /repo with
//! `--cfg indicatif_verif`) on concrete inputs and evaluates the executable form of contract
//! clauses.  It only produces witnesses; it never decides a property.
//!
//! usage: replay <routine> [args...]   -> one JSON object on stdout
use std::time::{Duration, Instant};

mod c05;

fn main() {
    let args: Vec<String> = std::env::args().collect();
    let routine = args.get(1).map(String::as_str).unwrap_or("");
    let rest = &args[2.min(args.len())..];
    let out = match routine {
        "rl_allow" => c05::rl_allow(rest),
        "rl_new" => c05::rl_new(rest),
        "pos_allow" => c05::pos_allow(rest),
        "rl_window" => c05::rl_window(rest),
        _ => format!("{{\"found\": false, \"error\": \"unknown routine {}\"}}", routine),
    };
    println!("{}", out);
}

pub fn base() -> Instant {
    Instant::now() + Duration::from_secs(3600)
}
