//! C15 witnesses: the formatters against an independent statement of what they must print.
use indicatif::{FormattedDuration, HumanCount, HumanFloatCount};
use std::time::Duration;

fn group3(d: &str) -> String {
    // comma after every third digit from the right
    let cs: Vec<char> = d.chars().collect();
    let mut out = String::new();
    for (i, c) in cs.iter().enumerate() {
        out.push(*c);
        let p = cs.len() - i - 1;
        if p > 0 && p % 3 == 0 {
            out.push(',');
        }
    }
    out
}

fn expect_float(x: f64, p: usize) -> String {
    let t = format!("{:.*}", p, x);
    let (neg, rest) = match t.strip_prefix('-') { Some(r) => (true, r), None => (false, t.as_str()) };
    let (ip, fp) = match rest.split_once('.') { Some((a, b)) => (a, b), None => (rest, "") };
    let g = if ip.chars().all(|c| c.is_ascii_digit()) { group3(ip) } else { ip.to_string() };
    let ft = fp.trim_end_matches('0');
    format!("{}{}{}", if neg { "-" } else { "" }, g, if ft.is_empty() { String::new() } else { format!(".{}", ft) })
}

pub fn human_float(args: &[String]) -> String {
    let xs: Vec<f64> = if args.len() == 2 { vec![args[0].parse().unwrap()] } else {
        vec![0.0, 1.5, 999.9999, 1234.9, 1234.5678, 1e9, 123456789.125, -1.0, -123.0, -1234.5, -999999.5, f64::INFINITY, f64::NEG_INFINITY, f64::NAN, 0.00004, 1e21, f64::MAX, f64::MIN_POSITIVE, -0.0]
    };
    let ps: Vec<Option<usize>> = if args.len() == 2 { vec![if args[1] == "default" { None } else { Some(args[1].parse().unwrap()) }] } else { vec![None, Some(0), Some(1), Some(3), Some(9)] };
    for x in &xs {
        for p in &ps {
            let got = match p { None => format!("{}", HumanFloatCount(*x)), Some(p) => format!("{:.*}", *p, HumanFloatCount(*x)) };
            let want = expect_float(*x, p.unwrap_or(4));
            if got != want {
                return format!("{{\"found\": true, \"clause\": \"C15-human-float\", \"input\": {{\"value\": \"{:?}\", \"precision\": {}, \"printed\": {}, \"expected\": {}}}, \"rerun\": \"replay human_float {:?} {}\"}}",
                    x, p.map(|v| v.to_string()).unwrap_or("\"default\"".into()), crate::js(&got), crate::js(&want), x, p.map(|v| v.to_string()).unwrap_or("default".into()));
            }
        }
    }
    "{\"found\": false}".to_string()
}

pub fn human_count(_args: &[String]) -> String {
    let mut xs: Vec<u64> = vec![0, 1, 9, 10, 99, 100, 999, 1000, 9999, 10000, 999999, 1000000, u64::MAX, u64::MAX - 1, 1 << 32];
    for k in 0..20u32 { xs.push(10u64.pow(k.min(19))); xs.push(10u64.pow(k.min(19)) - 1); }
    for x in xs {
        let got = format!("{}", HumanCount(x));
        let want = group3(&x.to_string());
        if got != want {
            return format!("{{\"found\": true, \"clause\": \"C15-human-count\", \"input\": {{\"value\": {}, \"printed\": {}, \"expected\": {}}}, \"rerun\": \"replay human_count\"}}", x, crate::js(&got), crate::js(&want));
        }
    }
    "{\"found\": false}".to_string()
}

pub fn formatted_duration(_args: &[String]) -> String {
    for secs in [0u64, 1, 59, 60, 61, 3599, 3600, 86399, 86400, 86401, 90061, 8640000, u64::MAX / 2, u64::MAX] {
        let got = format!("{}", FormattedDuration(Duration::new(secs, 999_999_999)));
        let (s, m, h, d) = (secs % 60, (secs / 60) % 60, (secs / 3600) % 24, secs / 86400);
        let want = if d > 0 { format!("{}d {:02}:{:02}:{:02}", d, h, m, s) } else { format!("{:02}:{:02}:{:02}", h, m, s) };
        if got != want {
            return format!("{{\"found\": true, \"clause\": \"C15-formatted-duration\", \"input\": {{\"secs\": {}, \"printed\": {}, \"expected\": {}}}, \"rerun\": \"replay formatted_duration\"}}", secs, crate::js(&got), crate::js(&want));
        }
    }
    "{\"found\": false}".to_string()
}

/// HumanDuration against its stated rounding rule, written independently in integer milliseconds:
/// the unit is the largest one U with d + next/2 >= 1.5 U (seconds otherwise), the count is the
/// nearest integer of d / U (at least 2 above seconds), and the value shown is monotone in d.
/// Checked at every unit boundary k*U, (k+0.5)*U and the switch points, each +- 1 ms.
pub fn human_duration(_args: &[String]) -> String {
    use indicatif::HumanDuration;
    std::panic::set_hook(Box::new(|_| {}));
    const S: u128 = 1000;
    let units: [(u128, &str, &str); 6] = [(365 * 24 * 3600 * S, "year", "y"), (7 * 24 * 3600 * S, "week", "w"), (24 * 3600 * S, "day", "d"), (3600 * S, "hour", "h"), (60 * S, "minute", "m"), (S, "second", "s")];
    let oracle = |ms: u128| -> (u128, usize) {
        let mut idx = 5;
        for i in 0..5 {
            if ms + units[i + 1].0 / 2 >= units[i].0 + units[i].0 / 2 {
                idx = i;
                break;
            }
        }
        let u = units[idx].0;
        let mut t = (ms + u / 2) / u; // nearest, halves up
        if idx < 5 && t < 2 {
            t = 2;
        }
        (t, idx)
    };
    let mut points: Vec<u128> = vec![0, 1, 499, 500, 501, 999, 1000, 1499, 1500, 1501];
    for (i, (u, _, _)) in units.iter().enumerate() {
        for k in 1..=12u128 {
            for base in [k * u, k * u + u / 2] {
                for d in [-1i128, 0, 1] {
                    points.push((base as i128 + d) as u128);
                }
            }
        }
        if i < 5 {
            let sw = u + u / 2 - units[i + 1].0 / 2;
            for d in [-1i128, 0, 1] {
                points.push((sw as i128 + d) as u128);
            }
        }
    }
    points.push(u64::MAX as u128 * 1000 + 999);
    // around 2^64 ms (where a narrowed millisecond count would wrap) and well beyond
    let year = 365u128 * 24 * 3600 * S;
    for y in [584_554_049u128, 584_554_050, 584_554_051, 600_000_000, 5_000_000_000, 584_942_417_354] { points.push(y * year); }
    points.sort();
    points.dedup();
    let mut tried = 0u64;
    let mut prev: Option<(u128, u128)> = None; // (ms, shown value in ms)
    for ms in points {
        let d = Duration::new((ms / 1000) as u64, ((ms % 1000) * 1_000_000) as u32);
        let plain = match std::panic::catch_unwind(|| (format!("{}", HumanDuration(d)), format!("{:#}", HumanDuration(d)))) {
            Ok(x) => x,
            Err(_) => return format!("{{\"found\": true, \"clause\": \"C15 HumanDuration never panics\", \"input\": {{\"millis\": \"{}\"}}, \"rerun\": \"replay human_duration\"}}", ms),
        };
        tried += 1;
        let (t, idx) = oracle(ms);
        // halves: the f64 quotient of an exact half rounds away from zero like the oracle; skip comparing exact .5 points beyond 2^53 ms
        let (_, name, alt) = units[idx];
        let want = if t == 1 { format!("{} {}", t, name) } else { format!("{} {}s", t, name) };
        let want_alt = format!("{}{}", t, alt);
        let exact = ms < (1u128 << 52);
        if exact && (plain.0 != want || plain.1 != want_alt) {
            return format!("{{\"found\": true, \"clause\": \"C15 HumanDuration follows its rounding rule (nearest count, at least 2 above seconds, smaller unit below 1.5 units)\", \"tried\": {}, \"input\": {{\"millis\": \"{}\", \"expected\": {}, \"printed\": {}, \"printed_alt\": {}}}, \"rerun\": \"replay human_duration\"}}",
                tried, ms, crate::js(&want), crate::js(&plain.0), crate::js(&plain.1));
        }
        // beyond the exactly comparable range the shown count is still the duration within a millionth
        if !exact {
            let shown: u128 = plain.1.trim_end_matches(|c: char| c.is_alphabetic()).parse().unwrap_or(0);
            let truth = t;
            let diff = if shown > truth { shown - truth } else { truth - shown };
            if plain.1.ends_with(alt) == false || diff * 1_000_000 > truth {
                return format!("{{\"found\": true, \"clause\": \"C15 HumanDuration shows the duration faithfully, also for very long durations\", \"tried\": {}, \"input\": {{\"millis\": \"{}\", \"expected_about\": {}, \"printed\": {}}}, \"rerun\": \"replay human_duration\"}}",
                    tried, ms, crate::js(&want_alt), crate::js(&plain.1));
            }
        }
        // monotone: the value shown never decreases when the duration grows
        let shown_t: u128 = plain.1.trim_end_matches(|c: char| c.is_alphabetic()).parse().unwrap_or(0);
        let shown_unit = units.iter().find(|u| plain.1.ends_with(u.2)).map(|u| u.0).unwrap_or(0);
        let shown = shown_t * shown_unit;
        if let Some((pms, pshown)) = prev {
            if shown < pshown {
                return format!("{{\"found\": true, \"clause\": \"C15 HumanDuration is monotone in the duration\", \"input\": {{\"millis_a\": \"{}\", \"millis_b\": \"{}\", \"printed_b\": {}}}, \"rerun\": \"replay human_duration\"}}", pms, ms, crate::js(&plain.1));
            }
        }
        prev = Some((ms, shown));
    }
    format!("{{\"found\": false, \"tried\": {}}}", tried)
}
