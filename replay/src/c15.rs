//! C15 witnesses: the formatters against an independent statement of what they must print.
use indicatif::{FormattedDuration, HumanCount, HumanFloatCount};
use std::time::Duration;

fn group3(d: &str) -> String {
    // comma after every third digit from the right
    let cs: Vec<char> = d.chars().collect();
    let mut out = String::new();
    for (i, c) in cs.iter().enumerate() {
        out.push(*c);
        let p = cs.len() - i - 1;
        if p > 0 && p % 3 == 0 {
            out.push(',');
        }
    }
    out
}

fn expect_float(x: f64, p: usize) -> String {
    let t = format!("{:.*}", p, x);
    let (neg, rest) = match t.strip_prefix('-') { Some(r) => (true, r), None => (false, t.as_str()) };
    let (ip, fp) = match rest.split_once('.') { Some((a, b)) => (a, b), None => (rest, "") };
    let g = if ip.chars().all(|c| c.is_ascii_digit()) { group3(ip) } else { ip.to_string() };
    let ft = fp.trim_end_matches('0');
    format!("{}{}{}", if neg { "-" } else { "" }, g, if ft.is_empty() { String::new() } else { format!(".{}", ft) })
}

pub fn human_float(args: &[String]) -> String {
    let xs: Vec<f64> = if args.len() == 2 { vec![args[0].parse().unwrap()] } else {
        vec![0.0, 1.5, 999.9999, 1234.9, 1234.5678, 1e9, 123456789.125, -1.0, -123.0, -1234.5, -999999.5, f64::INFINITY, f64::NEG_INFINITY, f64::NAN, 0.00004, 1e21, f64::MAX, f64::MIN_POSITIVE, -0.0]
    };
    let ps: Vec<Option<usize>> = if args.len() == 2 { vec![if args[1] == "default" { None } else { Some(args[1].parse().unwrap()) }] } else { vec![None, Some(0), Some(1), Some(3), Some(9)] };
    for x in &xs {
        for p in &ps {
            let got = match p { None => format!("{}", HumanFloatCount(*x)), Some(p) => format!("{:.*}", *p, HumanFloatCount(*x)) };
            let want = expect_float(*x, p.unwrap_or(4));
            if got != want {
                return format!("{{\"found\": true, \"clause\": \"C15-human-float\", \"input\": {{\"value\": \"{:?}\", \"precision\": {}, \"printed\": {}, \"expected\": {}}}, \"rerun\": \"replay human_float {:?} {}\"}}",
                    x, p.map(|v| v.to_string()).unwrap_or("\"default\"".into()), crate::js(&got), crate::js(&want), x, p.map(|v| v.to_string()).unwrap_or("default".into()));
            }
        }
    }
    "{\"found\": false}".to_string()
}

pub fn human_count(_args: &[String]) -> String {
    let mut xs: Vec<u64> = vec![0, 1, 9, 10, 99, 100, 999, 1000, 9999, 10000, 999999, 1000000, u64::MAX, u64::MAX - 1, 1 << 32];
    for k in 0..20u32 { xs.push(10u64.pow(k.min(19))); xs.push(10u64.pow(k.min(19)) - 1); }
    for x in xs {
        let got = format!("{}", HumanCount(x));
        let want = group3(&x.to_string());
        if got != want {
            return format!("{{\"found\": true, \"clause\": \"C15-human-count\", \"input\": {{\"value\": {}, \"printed\": {}, \"expected\": {}}}, \"rerun\": \"replay human_count\"}}", x, crate::js(&got), crate::js(&want));
        }
    }
    "{\"found\": false}".to_string()
}

pub fn formatted_duration(_args: &[String]) -> String {
    for secs in [0u64, 1, 59, 60, 61, 3599, 3600, 86399, 86400, 86401, 90061, 8640000, u64::MAX / 2, u64::MAX] {
        let got = format!("{}", FormattedDuration(Duration::new(secs, 999_999_999)));
        let (s, m, h, d) = (secs % 60, (secs / 60) % 60, (secs / 3600) % 24, secs / 86400);
        let want = if d > 0 { format!("{}d {:02}:{:02}:{:02}", d, h, m, s) } else { format!("{:02}:{:02}:{:02}", h, m, s) };
        if got != want {
            return format!("{{\"found\": true, \"clause\": \"C15-formatted-duration\", \"input\": {{\"secs\": {}, \"printed\": {}, \"expected\": {}}}, \"rerun\": \"replay formatted_duration\"}}", secs, crate::js(&got), crate::js(&want));
        }
    }
    "{\"found\": false}".to_string()
}
