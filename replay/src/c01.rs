//! C01 / C03 witnesses on the real library with an in-memory terminal.
use indicatif::{InMemoryTerm, MultiProgress, ProgressBar, ProgressDrawTarget, ProgressStyle};

fn lines_of(t: &InMemoryTerm) -> Vec<String> {
    t.contents().lines().map(|l| l.trim_end().to_string()).collect()
}

/// Finding C01 first-line-advance: nothing painted before (bar_count == 0), cursor left in the
/// pending-wrap column by an earlier frame, first line of the new frame has no visible column.
pub fn first_line_hazard(_args: &[String]) -> String {
    let term = InMemoryTerm::new(10, 20);
    let mp = MultiProgress::with_draw_target(ProgressDrawTarget::term_like(Box::new(term.clone())));
    mp.println("hello").unwrap();
    let pb = mp.add(ProgressBar::new(10));
    pb.set_style(ProgressStyle::with_template("{msg}\n{bar:10}").unwrap());
    pb.tick();
    let after_first = lines_of(&term);
    pb.tick();
    let after_second = lines_of(&term);
    let lost = !after_second.iter().any(|l| l == "hello");
    format!("{{\"found\": {}, \"clause\": \"C01-first-line-advance / C03: a printed log line is erased by the second redraw\", \"input\": {{\"history\": \"mp.println(hello); bar template {{msg}}\\\\n{{bar:10}} with empty message; tick; tick\", \"screen_after_first_tick\": {}, \"screen_after_second_tick\": {}}}, \"rerun\": \"replay first_line_hazard\"}}",
        lost, crate::jlist(&after_first.iter().map(|s| s.as_str()).collect::<Vec<_>>()), crate::jlist(&after_second.iter().map(|s| s.as_str()).collect::<Vec<_>>()))
}

/// Finding C03 frame in cursor-moving mode: with move_cursor enabled and no bar rows painted yet,
/// the carriage return at the start of a draw lands on the previous log line.
pub fn cr_hazard(_args: &[String]) -> String {
    let term = InMemoryTerm::new(10, 20);
    let mp = MultiProgress::with_draw_target(ProgressDrawTarget::term_like(Box::new(term.clone())));
    mp.set_move_cursor(true);
    mp.println("hello").unwrap();
    mp.println("world").unwrap();
    let scr = lines_of(&term);
    let lost = !scr.iter().any(|l| l == "hello");
    format!("{{\"found\": {}, \"clause\": \"C03-rows-above-untouched in cursor-moving mode: the first printed line is overwritten\", \"input\": {{\"history\": \"mp.set_move_cursor(true); mp.println(hello); mp.println(world)  (no bars)\", \"screen\": {}}}, \"rerun\": \"replay cr_hazard\"}}",
        lost, crate::jlist(&scr.iter().map(|s| s.as_str()).collect::<Vec<_>>()))
}
