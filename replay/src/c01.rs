//! C01 / C03 witnesses on the real library with an in-memory terminal.
use indicatif::{InMemoryTerm, MultiProgress, ProgressBar, ProgressDrawTarget, ProgressStyle};

fn lines_of(t: &InMemoryTerm) -> Vec<String> {
    t.contents().lines().map(|l| l.trim_end().to_string()).collect()
}

/// Finding C01 first-line-advance: nothing painted before (bar_count == 0), cursor left in the
/// pending-wrap column by an earlier frame, first line of the new frame has no visible column.
pub fn first_line_hazard(_args: &[String]) -> String {
    let term = InMemoryTerm::new(10, 20);
    let mp = MultiProgress::with_draw_target(ProgressDrawTarget::term_like(Box::new(term.clone())));
    mp.println("hello").unwrap();
    let pb = mp.add(ProgressBar::new(10));
    pb.set_style(ProgressStyle::with_template("{msg}\n{bar:10}").unwrap());
    pb.tick();
    let after_first = lines_of(&term);
    pb.tick();
    let after_second = lines_of(&term);
    let lost = !after_second.iter().any(|l| l == "hello");
    format!("{{\"found\": {}, \"clause\": \"C01-first-line-advance / C03: a printed log line is erased by the second redraw\", \"input\": {{\"history\": \"mp.println(hello); bar template {{msg}}\\\\n{{bar:10}} with empty message; tick; tick\", \"screen_after_first_tick\": {}, \"screen_after_second_tick\": {}}}, \"rerun\": \"replay first_line_hazard\"}}",
        lost, crate::jlist(&after_first.iter().map(|s| s.as_str()).collect::<Vec<_>>()), crate::jlist(&after_second.iter().map(|s| s.as_str()).collect::<Vec<_>>()))
}

/// Finding C19 clipped frame: a frame cut at the terminal height ends without the filler that parks the cursor at
/// the end of the row; once all painted rows are handed over (their bars finished and dropped) the next frame is
/// written right behind the last painted line.
pub fn clip_hazard(_args: &[String]) -> String {
    let term = InMemoryTerm::new(3, 20);
    let mp = MultiProgress::with_draw_target(ProgressDrawTarget::term_like(Box::new(term.clone())));
    let mk = |n: &str| { let pb = mp.add(ProgressBar::new(10)); pb.set_style(ProgressStyle::with_template(&format!("{} {{pos}}/{{len}}", n)).unwrap()); pb };
    let (a, b, c, d) = (mk("a"), mk("b"), mk("c"), mk("d"));
    a.tick(); b.tick(); c.tick(); d.tick();
    a.finish(); b.finish(); c.finish();
    drop(a); drop(b); drop(c);
    d.inc(1);
    let scr = lines_of(&term);
    // expected: the finished bars keep their rows and d appears on a row of its own
    let glued = scr.iter().any(|l| l.contains("c 10/10") && l.trim_end() != "c 10/10");
    format!("{{\"found\": {}, \"clause\": \"C19-clipped-frame-cursor-rest (C04, C02, C01): after a frame cut at the terminal height the next frame starts right behind the last painted line\", \"input\": {{\"history\": \"3x20 terminal; bars a b c d (d does not fit); tick all; finish a b c; drop a b c; d.inc(1)\", \"screen\": {}}}, \"rerun\": \"replay clip_hazard\"}}",
        glued, crate::jlist(&scr.iter().map(|s| s.as_str()).collect::<Vec<_>>()))
}

/// Finding C03 frame in cursor-moving mode: with move_cursor enabled and no bar rows painted yet,
/// the carriage return at the start of a draw lands on the previous log line.
pub fn cr_hazard(_args: &[String]) -> String {
    let term = InMemoryTerm::new(10, 20);
    let mp = MultiProgress::with_draw_target(ProgressDrawTarget::term_like(Box::new(term.clone())));
    mp.set_move_cursor(true);
    mp.println("hello").unwrap();
    mp.println("world").unwrap();
    let scr = lines_of(&term);
    let lost = !scr.iter().any(|l| l == "hello");
    format!("{{\"found\": {}, \"clause\": \"C03-rows-above-untouched in cursor-moving mode: the first printed line is overwritten\", \"input\": {{\"history\": \"mp.set_move_cursor(true); mp.println(hello); mp.println(world)  (no bars)\", \"screen\": {}}}, \"rerun\": \"replay cr_hazard\"}}",
        lost, crate::jlist(&scr.iter().map(|s| s.as_str()).collect::<Vec<_>>()))
}
