//! C17 bounded stand-in on the real adaptors: transparency and exact counting for scripted inner
//! objects (short reads / writes, errors, interleaved fill_buf / consume, all seek modes) and for
//! external / internal / reverse iteration.
use indicatif::{ProgressBar, ProgressFinish, ProgressIterator};
use std::io::{self, BufRead, Cursor, Read, Seek, SeekFrom, Write};

struct Script { data: Vec<u8>, pos: usize, chunks: Vec<usize>, k: usize }
impl Read for Script {
    fn read(&mut self, buf: &mut [u8]) -> io::Result<usize> {
        let c = self.chunks[self.k % self.chunks.len()];
        self.k += 1;
        if c == usize::MAX {
            return Err(io::Error::new(io::ErrorKind::Other, "scripted error"));
        }
        if c == usize::MAX - 1 {
            return Err(io::Error::new(io::ErrorKind::Interrupted, "scripted interruption"));
        }
        let n = c.min(buf.len()).min(self.data.len() - self.pos);
        buf[..n].copy_from_slice(&self.data[self.pos..self.pos + n]);
        self.pos += n;
        Ok(n)
    }
}
struct Sink { out: Vec<u8>, chunks: Vec<usize>, k: usize }
impl Write for Sink {
    fn write(&mut self, buf: &[u8]) -> io::Result<usize> {
        let c = self.chunks[self.k % self.chunks.len()];
        self.k += 1;
        if c == usize::MAX {
            return Err(io::Error::new(io::ErrorKind::Other, "scripted error"));
        }
        if c == usize::MAX - 1 {
            return Err(io::Error::new(io::ErrorKind::Interrupted, "scripted interruption"));
        }
        let n = c.min(buf.len());
        self.out.extend_from_slice(&buf[..n]);
        Ok(n)
    }
    fn flush(&mut self) -> io::Result<()> { Ok(()) }
}

fn fail(clause: &str, detail: String) -> String {
    format!("{{\"found\": true, \"clause\": {}, \"input\": {{\"detail\": {}}}, \"rerun\": \"replay iter_adaptors\"}}", crate::js(clause), crate::js(&detail))
}

pub fn iter_adaptors(_args: &[String]) -> String {
    std::panic::set_hook(Box::new(|_| {}));
    let mut tried = 0u64;
    // ---- iterators: external, reverse and internal iteration, with a second handle on the bar
    for n in [0usize, 1, 7] {
        for mode in 0..8 {
            let pb = ProgressBar::hidden();
            pb.set_length(n as u64);
            let pb = pb.with_finish(ProgressFinish::AndLeave);
            let it = (0..n as u64).progress_with(pb.clone());
            let want: Vec<u64> = (0..n as u64).collect();
            let (ok, what): (bool, String) = match mode {
                0 => { let v: Vec<u64> = it.collect(); (v == want, format!("collect -> {:?}", v)) }
                1 => { let mut v = vec![]; for x in it { v.push(x); } (v == want, format!("for loop -> {:?}", v)) }
                2 => { let mut v = vec![]; it.for_each(|x| v.push(x)); (v == want, format!("for_each -> {:?}", v)) }
                3 => { let s: u64 = it.sum(); (s == want.iter().sum::<u64>(), format!("sum -> {}", s)) }
                4 => { let c = it.count(); (c == n, format!("count -> {}", c)) }
                5 => { let l = it.last(); (l == want.last().copied(), format!("last -> {:?}", l)) }
                6 => { let f = it.fold(0u64, |a, x| a + x); (f == want.iter().sum::<u64>(), format!("fold -> {}", f)) }
                _ => { let v: Vec<u64> = it.rev().collect(); let mut w = want.clone(); w.reverse(); (v == w, format!("rev collect -> {:?}", v)) }
            };
            tried += 1;
            if !ok {
                return fail("C17 wrapping an iterator does not change the items", format!("n={} {}", n, what));
            }
            if !pb.is_finished() {
                return fail("C17/C04 exhaustion of the wrapped iterator finishes the bar (is_finished() is true afterwards)", format!("n={} mode {} ({}): position {} finished {}", n, mode, what, pb.position(), pb.is_finished()));
            }
            if pb.position() != n as u64 {
                return fail("C17 the position advances by the number of items and exhaustion finishes the bar", format!("n={} mode {} ({}): position {} finished {}", n, mode, what, pb.position(), pb.is_finished()));
            }
        }
    }
    // ---- exhaustion finishes the bar whatever finish behaviour is configured (forward and backward)
    for fb in 0..5 {
        for back in [false, true] {
            let mk = || match fb {
                0 => ProgressFinish::AndLeave, 1 => ProgressFinish::AndClear, 2 => ProgressFinish::Abandon,
                3 => ProgressFinish::WithMessage("done".into()), _ => ProgressFinish::AbandonWithMessage("gone".into()),
            };
            let pb = ProgressBar::hidden().with_finish(mk());
            pb.set_length(3);
            let n = if back { (0..3u64).progress_with(pb.clone()).rev().count() } else { (0..3u64).progress_with(pb.clone()).count() };
            tried += 1;
            if n != 3 || !pb.is_finished() {
                return fail("C17/C04 exhaustion of the wrapped iterator finishes the bar (every configured finish behaviour)", format!("with_finish(variant {}) {} iteration of 3 items: items {} finished {}", fb, if back { "backward" } else { "forward" }, n, pb.is_finished()));
            }
        }
    }
    // ---- provided iterator methods that may be overridden: nth / skip / step_by / last on a bar whose finish
    // behaviour does not rewrite the position (no length, Abandon): the position is the number of items pulled
    for n in [0usize, 3, 10] {
        for mode in 0..6 {
            let pb = ProgressBar::hidden().with_finish(ProgressFinish::Abandon);
            let mut it = (0..n as u64).progress_with(pb.clone());
            let what: String = match mode {
                0 => format!("nth(1) -> {:?}", it.nth(1)),
                1 => format!("nth(20) -> {:?}", it.nth(20)),
                2 => format!("skip(2).count() -> {}", it.skip(2).count()),
                3 => format!("skip(50).next() -> {:?}", it.skip(50).next()),
                4 => format!("step_by(3).count() -> {}", it.step_by(3).count()),
                _ => format!("last() -> {:?}", it.last()),
            };
            // items pulled from the source by each call on a plain range of n items
            let pulled = match mode {
                0 => n.min(2),
                1 | 2 | 3 | 5 => n,
                _ => n,
            };
            tried += 1;
            if pb.position() != pulled as u64 {
                return fail("C17 the position advances by exactly the items taken from the wrapped iterator", format!("n={} {}: position {} expected {}", n, what, pb.position(), pulled));
            }
        }
    }
    {
        // read_to_string appends: only the appended bytes were transferred
        let pb = ProgressBar::hidden();
        let mut w = pb.wrap_read(Cursor::new(b"world".to_vec()));
        let mut s = String::from("hello ");
        let r = w.read_to_string(&mut s);
        tried += 1;
        if r.ok() != Some(5) || s != "hello world" || pb.position() != 5 {
            return fail("C17 read_to_string counts the bytes read (the destination may already hold text)", format!("position {} expected 5", pb.position()));
        }
    }
    {
        // read_to_end appends too: a destination that already holds bytes does not count
        for pre in [0usize, 7, 100] {
            let pb = ProgressBar::hidden();
            let mut w = pb.wrap_read(Cursor::new(vec![1u8; 30]));
            let mut v = vec![0u8; pre];
            let r = w.read_to_end(&mut v);
            tried += 1;
            if r.ok() != Some(30) || v.len() != pre + 30 || pb.position() != 30 {
                return fail("C17 read_to_end counts the bytes read (the destination may already hold bytes)", format!("destination pre-filled with {} bytes, 30 bytes read: position {} expected 30", pre, pb.position()));
            }
        }
    }
    {
        // write_all through a sink that takes 4 bytes per call and fails once 10 bytes are in: the bar counts what reached the sink
        struct Disk { got: usize, cap: usize }
        impl std::io::Write for Disk {
            fn write(&mut self, b: &[u8]) -> std::io::Result<usize> {
                if self.got >= self.cap { return Err(std::io::Error::new(std::io::ErrorKind::Other, "disk full")); }
                let n = b.len().min(4).min(self.cap - self.got);
                self.got += n;
                Ok(n)
            }
            fn flush(&mut self) -> std::io::Result<()> { Ok(()) }
        }
        use std::io::Write as _;
        for (cap, len) in [(10usize, 25usize), (100, 25), (3, 8)] {
            let pb = ProgressBar::hidden();
            let mut w = pb.wrap_write(Disk { got: 0, cap });
            let r = w.write_all(&vec![7u8; len]);
            let accepted = len.min(cap) as u64;
            tried += 1;
            if r.is_ok() != (cap >= len) || pb.position() != accepted {
                return fail("C17 write_all counts the bytes the sink accepted, also when it fails part-way", format!("sink capacity {} bytes, 4 per call; write_all of {} bytes: result ok={} position {} expected {}", cap, len, r.is_ok(), pb.position(), accepted));
            }
        }
    }
    // ---- Read: short reads, errors, read_exact, read_to_string
    let data: Vec<u8> = (0..97u8).collect();
    for chunks in [vec![1usize], vec![5, 0, 3], vec![64], vec![2, usize::MAX, 4], vec![usize::MAX], vec![2, usize::MAX - 1, 4], vec![usize::MAX - 1, usize::MAX - 1, 3]] {
        for bufsz in [1usize, 8, 200] {
            let pb = ProgressBar::hidden();
            let mut plain = Script { data: data.clone(), pos: 0, chunks: chunks.clone(), k: 0 };
            let mut wrapped = pb.wrap_read(Script { data: data.clone(), pos: 0, chunks: chunks.clone(), k: 0 });
            let mut total = 0u64;
            for _ in 0..12 {
                let mut a = vec![0u8; bufsz];
                let mut b = vec![0u8; bufsz];
                let ra = plain.read(&mut a);
                let rb = wrapped.read(&mut b);
                tried += 1;
                let same = match (&ra, &rb) { (Ok(x), Ok(y)) => x == y && a == b, (Err(x), Err(y)) => x.kind() == y.kind(), _ => false };
                if let Ok(n) = rb { total += n as u64; }
                if !same || pb.position() != total {
                    return fail("C17 Read: same results (also the kind of an error, Interrupted included) and bytes, position == bytes read", format!("chunks {:?} buf {}: plain {:?} wrapped {:?} position {} expected {}", chunks, bufsz, ra.ok(), rb.ok(), pb.position(), total));
                }
            }
        }
    }
    {
        let pb = ProgressBar::hidden();
        let mut w = pb.wrap_read(Cursor::new(data.clone()));
        let mut b = [0u8; 10];
        let r = w.read_exact(&mut b);
        tried += 1;
        if r.is_err() || b[..] != data[..10] || pb.position() != 10 {
            return fail("C17 read_exact counts the buffer length", format!("position {}", pb.position()));
        }
        let mut big = [0u8; 200];
        let r = w.read_exact(&mut big);
        tried += 1;
        if r.is_ok() {
            return fail("C17 read_exact error is passed through", "Ok on a short source".into());
        }
        let pb2 = ProgressBar::hidden();
        let mut w2 = pb2.wrap_read(Cursor::new(b"hello world".to_vec()));
        let mut s = String::new();
        let r = w2.read_to_string(&mut s);
        tried += 1;
        if r.ok() != Some(11) || s != "hello world" || pb2.position() != 11 {
            return fail("C17 read_to_string counts the bytes read", format!("position {}", pb2.position()));
        }
    }
    // ---- BufRead: interleaved fill_buf / consume
    {
        let pb = ProgressBar::hidden();
        let mut w = pb.wrap_read(io::BufReader::with_capacity(16, Cursor::new(data.clone())));
        let mut consumed = 0u64;
        for amt in [0usize, 3, 0, 5, 8, 1] {
            let avail = w.fill_buf().map(|b| b.len()).unwrap_or(0);
            let _ = w.fill_buf();
            tried += 1;
            if pb.position() != consumed {
                return fail("C17 fill_buf transfers nothing", format!("position {} expected {}", pb.position(), consumed));
            }
            let a = amt.min(avail);
            w.consume(a);
            consumed += a as u64;
            if pb.position() != consumed {
                return fail("C17 consume counts exactly the consumed bytes", format!("position {} expected {}", pb.position(), consumed));
            }
        }
    }
    // ---- Seek: every mode, also when the bar is not in sync with the stream
    for start_pos in [0u64, 7] {
        for f in [SeekFrom::Start(0), SeekFrom::Start(40), SeekFrom::End(0), SeekFrom::End(-10), SeekFrom::Current(0), SeekFrom::Current(5), SeekFrom::Current(-3), SeekFrom::Start(1000), SeekFrom::Current(-1000)] {
            let pb = ProgressBar::hidden();
            let mut plain = Cursor::new(data.clone());
            plain.set_position(20);
            let mut c = Cursor::new(data.clone());
            c.set_position(20);
            let mut w = pb.wrap_read(c);
            pb.set_position(start_pos);
            let ra = plain.seek(f);
            let rb = w.seek(f);
            tried += 1;
            let same = match (&ra, &rb) { (Ok(x), Ok(y)) => x == y, (Err(x), Err(y)) => x.kind() == y.kind(), _ => false };
            let want = match &rb { Ok(p) => *p, Err(_) => start_pos };
            if !same || pb.position() != want {
                return fail("C17 a seek returns the inner result and sets the position to the new offset (unchanged on error)", format!("{:?} from stream offset 20, bar at {}: plain {:?} wrapped {:?} position {}", f, start_pos, ra.ok(), rb.ok(), pb.position()));
            }
            let sp = w.stream_position().ok();
            if sp != plain.stream_position().ok() || pb.position() != want {
                return fail("C17 stream_position is a pure query", format!("{:?}: {:?} position {}", f, sp, pb.position()));
            }
        }
    }
    {
        // rewind() is a seek to the start: the bar follows
        let pb = ProgressBar::hidden();
        let mut w = pb.wrap_read(Cursor::new(data.clone()));
        let mut b = [0u8; 40];
        let _ = w.read_exact(&mut b);
        let r = w.rewind();
        tried += 1;
        if r.is_err() || pb.position() != 0 {
            return fail("C17 a seek (also through rewind) sets the position to the new offset", format!("read 40 bytes, rewind(): position {} expected 0", pb.position()));
        }
    }
    // ---- Write: short writes, errors, vectored
    for chunks in [vec![1usize], vec![3, 0, 7], vec![100], vec![2, usize::MAX, 4], vec![2, usize::MAX - 1, 4], vec![usize::MAX - 1, usize::MAX - 1, 3]] {
        let pb = ProgressBar::hidden();
        let mut plain = Sink { out: vec![], chunks: chunks.clone(), k: 0 };
        let mut w = pb.wrap_write(Sink { out: vec![], chunks: chunks.clone(), k: 0 });
        let mut total = 0u64;
        for i in 0..10usize {
            let payload = &data[i * 5..i * 5 + 9];
            let (ra, rb) = if i % 3 == 2 {
                let bufs = [io::IoSlice::new(&payload[..4]), io::IoSlice::new(&payload[4..])];
                (plain.write_vectored(&bufs), w.write_vectored(&bufs))
            } else {
                (plain.write(payload), w.write(payload))
            };
            tried += 1;
            let same = match (&ra, &rb) { (Ok(x), Ok(y)) => x == y, (Err(x), Err(y)) => x.kind() == y.kind(), _ => false };
            if let Ok(n) = rb { total += n as u64; }
            if !same || pb.position() != total {
                return fail("C17 Write: same results (also the kind of an error, Interrupted included), position == bytes written", format!("chunks {:?} call {}: plain {:?} wrapped {:?} position {} expected {}", chunks, i, ra.ok(), rb.ok(), pb.position(), total));
            }
        }
        let _ = w.flush();
        if pb.position() != total {
            return fail("C17 flush transfers nothing", format!("position {} expected {}", pb.position(), total));
        }
    }
    format!("{{\"found\": false, \"tried\": {}}}", tried)
}
