// replay hooks for src/style.rs (child module: re-exports private entry points for /verif/replay)
#![allow(unused_imports, dead_code, missing_docs)]
use super::*;

/// PaddedStringDisplay through core::fmt (align: 0 = left, 1 = center, 2 = right).
pub fn padded(s: &str, width: usize, align: u8, truncate: bool) -> String {
    let align = match align {
        0 => Alignment::Left,
        1 => Alignment::Center,
        _ => Alignment::Right,
    };
    format!(
        "{}",
        PaddedStringDisplay {
            str: s,
            width,
            align,
            truncate
        }
    )
}
pub fn text_cols(s: &str) -> usize {
    measure_text_width(s)
}

/// The frame format_state produces for a bar state built from public values, together with the
/// state's getters evaluated right after (same frozen state): (is_bar_line, text) per line.
pub struct Frame {
    pub lines: Vec<(bool, String)>,
    pub fraction: f32,
    pub per_sec: f64,
    pub elapsed: std::time::Duration,
    pub eta: std::time::Duration,
    pub duration: std::time::Duration,
}
#[allow(clippy::too_many_arguments)]
pub fn frame(
    style: &ProgressStyle,
    len: Option<u64>,
    pos: u64,
    msg: &str,
    prefix: &str,
    tick: u64,
    status: u8,
    width: u16,
) -> Frame {
    let st =
        crate::state::verif_hooks::mk_state(len, pos, msg, prefix, tick, status, style.tab_width);
    let mut lines = Vec::new();
    style.format_state(&st, &mut lines, width);
    let lines = lines
        .into_iter()
        .map(|l| match l {
            crate::draw_target::LineType::Bar(s) => (true, s),
            crate::draw_target::LineType::Text(s) => (false, s),
            crate::draw_target::LineType::Empty => (false, String::new()),
        })
        .collect();
    Frame {
        lines,
        fraction: st.fraction(),
        per_sec: st.per_sec(),
        elapsed: st.elapsed(),
        eta: st.eta(),
        duration: st.duration(),
    }
}
