// replay hooks for src/style.rs (child module: re-exports private entry points for /verif/replay)
#![allow(unused_imports, dead_code, missing_docs)]
use super::*;

/// PaddedStringDisplay through core::fmt (align: 0 = left, 1 = center, 2 = right).
pub fn padded(s: &str, width: usize, align: u8, truncate: bool) -> String {
    let align = match align {
        0 => Alignment::Left,
        1 => Alignment::Center,
        _ => Alignment::Right,
    };
    format!("{}", PaddedStringDisplay { str: s, width, align, truncate })
}
pub fn text_cols(s: &str) -> usize {
    measure_text_width(s)
}
