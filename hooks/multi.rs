// replay hooks for src/multi.rs (child module: re-exports private entry points for /verif/replay)
#![allow(unused_imports, dead_code, missing_docs)]
use super::*;
