// replay hooks for src/state.rs (child module: re-exports private entry points for /verif/replay)
#![allow(unused_imports, dead_code, missing_docs)]
use super::*;

/// AtomicPosition under an injected clock.
pub struct PosBucket(pub AtomicPosition);
impl PosBucket {
    pub fn new() -> Self {
        PosBucket(AtomicPosition::new())
    }
    pub fn with_state(capacity: u8, prev_ns: u64) -> Self {
        let p = AtomicPosition::new();
        p.capacity.store(capacity, Ordering::Release);
        p.prev.store(prev_ns, Ordering::Release);
        PosBucket(p)
    }
    pub fn start(&self) -> Instant {
        self.0.start
    }
    pub fn allow(&self, now: Instant) -> bool {
        self.0.allow(now)
    }
    pub fn capacity(&self) -> u8 {
        self.0.capacity.load(Ordering::Acquire)
    }
    pub fn prev_ns(&self) -> u64 {
        self.0.prev.load(Ordering::Acquire)
    }
    pub fn pos(&self) -> u64 {
        self.0.pos.load(Ordering::Acquire)
    }
    pub fn inc(&self, d: u64) {
        self.0.inc(d)
    }
    pub fn dec(&self, d: u64) {
        self.0.dec(d)
    }
    pub fn set(&self, p: u64) {
        self.0.set(p)
    }
    pub fn reset(&self, now: Instant) {
        self.0.reset(now)
    }
}
pub const POS_INTERVAL_NS: u64 = INTERVAL;
pub const POS_MAX_BURST: u8 = MAX_BURST;
