// replay hooks for src/state.rs (child module: re-exports private entry points for /verif/replay)
#![allow(unused_imports, dead_code, missing_docs)]
use super::*;

/// AtomicPosition under an injected clock.
pub struct PosBucket(pub AtomicPosition);
impl PosBucket {
    pub fn new() -> Self {
        PosBucket(AtomicPosition::new())
    }
    pub fn with_state(capacity: u8, prev_ns: u64) -> Self {
        let p = AtomicPosition::new();
        p.capacity.store(capacity, Ordering::Release);
        p.prev.store(prev_ns, Ordering::Release);
        PosBucket(p)
    }
    pub fn start(&self) -> Instant {
        self.0.start
    }
    pub fn allow(&self, now: Instant) -> bool {
        self.0.allow(now)
    }
    pub fn capacity(&self) -> u8 {
        self.0.capacity.load(Ordering::Acquire)
    }
    pub fn prev_ns(&self) -> u64 {
        self.0.prev.load(Ordering::Acquire)
    }
    pub fn pos(&self) -> u64 {
        self.0.pos.load(Ordering::Acquire)
    }
    pub fn inc(&self, d: u64) {
        self.0.inc(d)
    }
    pub fn dec(&self, d: u64) {
        self.0.dec(d)
    }
    pub fn set(&self, p: u64) {
        self.0.set(p)
    }
    pub fn reset(&self, now: Instant) {
        let _ = self.0.reset(now);
    }
}
pub const POS_INTERVAL_NS: u64 = INTERVAL;
pub const POS_MAX_BURST: u8 = MAX_BURST;

/// A ProgressState built from public values (status: 0 in progress, 1 finished visibly, 2 finished and cleared).
pub fn mk_state(
    len: Option<u64>,
    pos: u64,
    msg: &str,
    prefix: &str,
    tick: u64,
    status: u8,
    tab_width: usize,
) -> ProgressState {
    let p = Arc::new(AtomicPosition::new());
    p.set(pos);
    let mut st = ProgressState::new(len, p);
    st.tick = tick;
    st.status = match status {
        0 => Status::InProgress,
        1 => Status::DoneVisible,
        _ => Status::DoneHidden,
    };
    st.message = TabExpandedString::new(msg.to_string().into(), tab_width);
    st.prefix = TabExpandedString::new(prefix.to_string().into(), tab_width);
    st
}

/// The rate estimator under an injected clock.
pub struct Est(pub Estimator);
impl Est {
    pub fn new(now: Instant) -> Self {
        Est(Estimator::new(now))
    }
    pub fn record(&mut self, steps: u64, now: Instant) {
        let _ = self.0.record(steps, now);
    }
    pub fn reset(&mut self, now: Instant) {
        self.0.reset(now)
    }
    pub fn rate(&self, now: Instant) -> f64 {
        self.0.steps_per_second(now)
    }
}
