// replay hooks for src/draw_target.rs (child module: re-exports private entry points for /verif/replay)
#![allow(unused_imports, dead_code, missing_docs)]
use super::*;

/// RateLimiter under an injected clock.
pub struct Limiter(RateLimiter);
impl Limiter {
    pub fn new(rate: u8) -> Self {
        Limiter(RateLimiter::new(rate))
    }
    pub fn with_state(rate: u8, capacity: u8, prev: Instant) -> Self {
        let mut l = RateLimiter::new(rate);
        l.capacity = capacity;
        l.prev = prev;
        Limiter(l)
    }
    pub fn allow(&mut self, now: Instant) -> bool {
        self.0.allow(now)
    }
    pub fn capacity(&self) -> u8 {
        self.0.capacity
    }
    pub fn interval_ms(&self) -> u16 {
        self.0.interval
    }
    pub fn prev(&self) -> Instant {
        self.0.prev
    }
}
pub const LIMITER_MAX_BURST: u8 = MAX_BURST;
